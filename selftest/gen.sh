#!/bin/bash
# Regenerates the self-test corpus (patch files) from sed edits against the current /repo HEAD.
# Usage: selftest/gen.sh   (writes selftest/mutants/*.diff, selftest/benign/*.diff, selftest/corpus.json)
set -u
cd "$(dirname "$0")"
export GOFLAGS=-mod=mod GOPROXY=off GOSUMDB=off GOTOOLCHAIN=local; unset GOWORK
BASE=$(mktemp -d /tmp/nutsbase.XXXXXX); git -C /repo archive HEAD | tar -x -C "$BASE"
rm -f mutants/*.diff benign/*.diff; echo "[" > corpus.json; first=1
mk() { # kind name rules file sedexpr desc
  kind=$1; name=$2; rules=$3; file=$4; expr=$5; desc=$6
  W=$(mktemp -d /tmp/nutsmut.XXXXXX); cp -r "$BASE"/. "$W"/
  sed -i -E "$expr" "$W/$file"
  if diff -q "$BASE/$file" "$W/$file" >/dev/null; then echo "NOOP $name"; rm -rf "$W"; return; fi
  (cd "$W" && go build ./... 2>/dev/null) || { echo "NOCOMPILE $name"; rm -rf "$W"; return; }
  (cd /tmp && diff -u "$BASE/$file" "$W/$file" | sed "s#$BASE/#a/#; s#$W/#b/#" ) > "$kind/$name.diff"
  [ $first = 1 ] || echo "," >> corpus.json; first=0
  printf '{"kind":"%s","name":"%s","rules":"%s","file":"%s","desc":"%s"}' "$kind" "$name" "$rules" "$file" "$desc" >> corpus.json
  rm -rf "$W"; echo "ok $kind/$name"
}
mkp() { # like mk but the edit is a perl -0 substitution applied to the whole file
  kind=$1; name=$2; rules=$3; file=$4; expr=$5; desc=$6
  W=$(mktemp -d /tmp/nutsmut.XXXXXX); cp -r "$BASE"/. "$W"/
  perl -0 -i -pe "$expr" "$W/$file"
  if diff -q "$BASE/$file" "$W/$file" >/dev/null; then echo "NOOP $name"; rm -rf "$W"; return; fi
  (cd "$W" && go build ./... 2>/dev/null) || { echo "NOCOMPILE $name"; rm -rf "$W"; return; }
  (cd /tmp && diff -u "$BASE/$file" "$W/$file" | sed "s#$BASE/#a/#; s#$W/#b/#" ) > "$kind/$name.diff"
  [ $first = 1 ] || echo "," >> corpus.json; first=0
  printf '{"kind":"%s","name":"%s","rules":"%s","file":"%s","desc":"%s"}' "$kind" "$name" "$rules" "$file" "$desc" >> corpus.json
  rm -rf "$W"; echo "ok $kind/$name"
}
# ---- mutants: each must make one of the named rules report a NEW violated obligation ----
mk mutants sync-removed-commit R-SYNC tx.go '/if err := tx.db.ActiveFile.rwManager.Sync\(\); err != nil \{/,+2d' "Commit no longer syncs after writing a record"
mk mutants sync-flag-inverted R-SYNC tx.go '0,/if tx.db.opt.SyncEnable \{/s//if !tx.db.opt.SyncEnable {/' "sync guarded by the negated flag"
mk mutants sync-writenodes-false R-FLAGBIND tx.go 's/WriteNodes\(tx.db.opt.RWMode, tx.db.opt.SyncEnable, 1\)/WriteNodes(tx.db.opt.RWMode, false, 1)/' "index nodes written with syncEnable=false"
mk mutants sync-impl-noop R-SYNCIMPL rwmanger_fileio.go 's/return fm.fd.Sync\(\)/return nil/' "FileIO Sync does nothing"
mk mutants marker-first-record R-MARKER tx.go 's/if i == lastIndex \{\n\t\t\tentry.Meta.status/XX/; 0,/if i == lastIndex \{/s//if i == 0 {/' "commit marker on the first record"
mk mutants marker-after-encode R-MARKER tx.go 's/tx.db.ActiveFile.WriteAt\(entry.Encode\(\), tx.db.ActiveFile.writeOff\)/tx.db.ActiveFile.WriteAt(encodeBeforeMarker(entry, i == lastIndex), tx.db.ActiveFile.writeOff)/; $a func encodeBeforeMarker(e *Entry, last bool) []byte { b := e.Encode(); if last { e.Meta.status = Committed }; return b }' "record encoded before the marker is set"
mk mutants put-readonly-allowed R-PUT tx.go '/if !tx.writable \{/,+2d' "read-only transactions can enqueue writes"
mk mutants put-empty-key R-PUT tx.go '/if len\(key\) == 0 \{/,+2d' "empty keys are logged"
mk mutants recover-no-status-check R-RECOVER db.go 's/if entry.Meta.status == Committed \{/if entry.Meta.status == Committed || entry.Meta.ds == DataStructureBPTree {/' "every KV record marks its tx committed"
mk mutants recover-no-membership R-RECOVER db.go 's/if _, ok := db.committedTxIds\[r.H.meta.txID\]; ok \{/if _, ok := db.committedTxIds[r.H.meta.txID]; ok || r.H.meta.ds == DataStructureList {/' "list records replayed without committed check"
mk mutants txid-per-tx R-TXID tx.go 's/id = uint64\(tx.db.txIDNode.Generate\(\).Int64\(\)\)/n, _ := snowflake.NewNode(tx.db.opt.NodeNum); id = uint64(n.Generate().Int64())/; s#"github.com/xujiajun/nutsdb/ds/list"#"github.com/bwmarrin/snowflake"\n\t"github.com/xujiajun/nutsdb/ds/list"#' "id node per transaction again"
mk mutants crc-not-compared R-CRC bptree_root_idx.go 's/if bri.GetCrc\(buf\) != bri.crc \{/if bri.GetCrc(buf) != bri.crc \&\& bri.crc != 0 {/' "root index accepted when stored crc is 0"
mk mutants codec-ttl-width R-CODEC entry.go 's/binary.LittleEndian.PutUint32\(buf\[22:26\], e.Meta.TTL\)/binary.LittleEndian.PutUint16(buf[22:24], uint16(e.Meta.TTL))/' "TTL encoded as 16 bits"
mk mutants codec-swapped-offsets R-CODEC datafile.go 's/status:     binary.LittleEndian.Uint16\(buf\[30:32\]\)/status:     binary.LittleEndian.Uint16(buf[32:34])/; s/ds:         binary.LittleEndian.Uint16\(buf\[32:34\]\)/ds:         binary.LittleEndian.Uint16(buf[30:32])/' "status and ds read from each other's offsets"
mk mutants codec-crc-skips-key R-CODEC entry.go '/crc = crc32.Update\(crc, crc32.IEEETable, e.Key\)/d' "key not covered by the read-side checksum"
mk mutants scan-no-eof R-SCANEND db.go '0,/if err == io.EOF \{/s//if err == io.EOF \&\& off > 0 {/' "EOF at offset 0 fails the scan"
mk mutants scan-no-capacity R-SCANEND db.go '/\/\/ an exactly full segment: reading at the capacity is an error under MMap/,+4d' "capacity test removed again"
mk mutants open-check-after-mkdir R-OPEN-ORDER db.go 's/if err := db.checkEntryIdxMode\(\); err != nil \{/if err := os.MkdirAll(db.opt.Dir+"\/meta\/bucket", os.ModePerm); err != nil { return nil, err }\n\tif err := db.checkEntryIdxMode(); err != nil {/' "directories created before the mode check"
mk mutants mode-table-weakened R-MODE-TABLE db.go 's/if db.opt.EntryIdxMode != HintBPTSparseIdxMode \&\& hasDataFlag \&\& hasBptDirFlag \{/if db.opt.EntryIdxMode == HintKeyAndRAMIdxMode \&\& hasDataFlag \&\& hasBptDirFlag {/' "only one RAM mode is refused on sparse data"
mkp mutants closed-guard-dropped R-CLOSED tx_zset.go 's/(func \(tx \*Tx\) ZMembers\(bucket string\) \(map\[string\]\*zset.SortedSetNode, error\) \{
)	if err := tx.checkTxIsClosed\(\); err != nil \{
		return nil, err
	\}
/$1/' "ZMembers without closed check"
mkp mutants mapok-dropped R-MAPOK tx_list.go 's/(func \(tx \*Tx\) LSize.*?
	\}

)	if _, ok := tx.db.ListIdx\[bucket\]; !ok \{
		return 0, ErrBucket
	\}
/$1/s' "LSize uses the list of a missing bucket"
mk mutants ro-get-caches R-RO tx_bptree.go 's/if idxMode == HintKeyValAndRAMIdxMode \{\n\t\t\t\treturn r.E, nil/XX/; s/^(\t\t\tif r.H.meta.Flag == DataDeleteFlag \|\| r.IsExpired\(\) \{)$/\t\t\ttx.db.KeyCount++\n\1/' "Get bumps a shared counter"
mk mutants own-direct-insert R-OWN tx_bptree.go 's/^(\treturn tx.put\(bucket, key, nil, Persistent, DataDeleteFlag, uint64\(time.Now\(\).Unix\(\)\), DataStructureBPTree\))$/\tif idx, ok := tx.db.BPTreeIdx[bucket]; ok {\n\t\t_ = idx.Insert(key, nil, \&Hint{key: key, meta: \&MetaData{Flag: DataDeleteFlag}}, CountFlagEnabled)\n\t}\n\1/' "Delete edits the index directly"
mk mutants lockmap-writers-rlock R-LOCKMAP tx.go '0,/tx.db.mu.Lock\(\)/s//tx.db.mu.RLock()/; 0,/tx.db.mu.Unlock\(\)/s//tx.db.mu.RUnlock()/' "writers take the shared lock"
mk mutants txpair-begin-leaks-lock R-TXPAIR tx.go '/if db.closed \{/,+3s/\t\ttx.unlock\(\)\n//; /if db.closed \{/{n;d}' "Begin on a closed DB keeps the lock"
mk mutants backup-outside-view R-BACKUP db.go 's/err := db.View\(func\(tx \*Tx\) error \{\n//; /func \(db \*DB\) Backup/,/^}/c func (db *DB) Backup(dir string) error {\n\treturn filesystem.CopyDir(db.opt.Dir, dir)\n}' "backup copies without a transaction"
mk mutants globals-cache R-GLOBALS record.go 's/^func IsExpired\(ttl uint32, timestamp uint64\) bool \{$/var lastNow int64\n\nfunc IsExpired(ttl uint32, timestamp uint64) bool {\n\tlastNow = time.Now().Unix()/' "package-level cache written from read paths"
mk mutants live-wrapper-no-tombstone R-LIVE tx_bptree.go 's/^(\tfor _, r := range records \{\n)//; /func \(tx \*Tx\) getHintIdxDataItemsWrapper/,/^}/s/if r.H.meta.Flag == DataDeleteFlag \|\| r.IsExpired\(\) \{/if r.IsExpired() {/' "scan wrapper returns tombstones"
mk mutants live-sparse-unfiltered R-LIVE tx_bptree.go 's/return processEntriesScanOnDisk\(es\), nil/return es, nil/' "sparse RangeScan skips the filter"
mk mutants expiry-off-by-one R-EXPIRY record.go 's/uint64\(ttl\)\+timestamp > uint64\(now\)/uint64(ttl)+timestamp >= uint64(now)/' "key still live at its expiry instant"
mk mutants pos-offset-before-rotate R-POS tx.go 's/^\t\toff = tx.db.ActiveFile.writeOff$//; s/^(\t\tbucket := string\(entry.Meta.bucket\))$/\1\n\t\toff = tx.db.ActiveFile.writeOff/; /func \(tx \*Tx\) buildIdxes/,/^}/s/\n\t\toff = tx.db.ActiveFile.writeOff//' "index offset read before a possible rotation"
mk mutants activefile-no-fileid R-ACTIVEFILE db.go '/^\tdb.ActiveFile.fileID = db.MaxFileID$/d' "merge output segment without file id (K08 again)"
mk mutants update-only-hint R-UPDATE record.go '/^\tr.E = e$/d' "overwrite keeps the old entry"
mk mutants replay-lpush-rpush-swapped R-REPLAY db.go '/func \(db \*DB\) buildListIdx/,/^}/s/_, _ = db.ListIdx\[bucket\].LPush\(string\(r.E.Key\), r.E.Value\)/_, _ = db.ListIdx[bucket].RPush(string(r.E.Key), r.E.Value)/' "LPush replayed as RPush"
mk mutants replay-case-dropped R-REPLAY db.go '/func \(db \*DB\) buildSortedSetIdx/,/^}/{/if r.H.meta.Flag == DataZPopMinFlag \{/,+2d}' "ZPopMin not replayed"
mk mutants errpolicy-open-fails R-ERRPOLICY db.go 's/^\t\t_, _ = db.ListIdx\[bucket\].LPop\(string\(r.E.Key\)\)$/\t\tif _, err := db.ListIdx[bucket].LPop(string(r.E.Key)); err != nil {\n\t\t\treturn ErrWhenBuildListIdx(err)\n\t\t}/' "LPop replay error fails Open again (K03)"
mk mutants opcodec-split R-OPCODEC tx.go 's/strings.SplitN\(string\(value\), SeparatorForListKey, 2\)/strings.Split(string(value), SeparatorForListKey)/' "LRem value split unbounded again (K13)"
mk mutants atomic-committed-before-write R-ATOMIC tx.go 's/^\t\toff = tx.db.ActiveFile.writeOff$/\t\toff = tx.db.ActiveFile.writeOff\n\t\tif i == lastIndex \&\& tx.db.opt.EntryIdxMode != HintBPTSparseIdxMode {\n\t\t\ttx.db.committedTxIds[entry.Meta.txID] = struct{}{}\n\t\t}/' "tx id published before the record is written"
mk mutants merge-remove-regardless R-MERGE-ORDER db.go 's/^\t\tif err := db.reWriteData\(pendingMergeEntries\); err != nil \{$/\t\tif err := db.reWriteData(pendingMergeEntries); err != nil \&\& len(pendingMergeEntries) == 0 {/' "segment removed although rewrite failed"
mk mutants merge-no-committed-check R-MERGE-COMMITTED db.go '/records of transactions that never committed must not be rewritten/,+5d' "merge keeps uncommitted records again (K09)"
mk mutants bucketkey-wrong-set R-BUCKETKEY tx_set.go 's/for item2 := range set2.M\[string\(key2\)\] \{/for item2 := range set2.M[string(key1)] {/' "SUnionByTwoBuckets reads set2 with key1"
mk mutants flaguse-sync-controls-index R-FLAGUSE tx.go 's/^\t\ttx.db.ActiveFile.ActualSize \+= entrySize$/\t\tif tx.db.opt.SyncEnable {\n\t\t\ttx.db.KeyCount++\n\t\t}\n\t\ttx.db.ActiveFile.ActualSize += entrySize/' "SyncEnable influences state"
mk mutants sentinel-reverse-header R-SENT ds/zset/sortedset.go 's/for x != nil \&\& x != ss.header \&\& limit > 0 \{/for x != nil \&\& limit > 0 {/' "reverse search returns the header again (K07)"
mk mutants segpred-range-narrow R-SEGPRED tx_bptree.go 's/if compare\(newStart, bptSparseIdx.end\) <= 0 \&\&/if compare(newStart, bptSparseIdx.start) <= 0 \&\&/' "range predicate misses inner queries"
mk mutants newest-ascending R-NEWEST tx_bptree.go '/func \(tx \*Tx\) rangeScanOnDisk/,/^}/s/return p.fID > q.fID/return p.fID < q.fID/' "segments searched oldest first"
mk mutants committed-read-dropped R-COMMITTED-READ tx_bptree.go '/if _, ok := tx.db.committedTxIds\[r.H.meta.txID\]; !ok \{/,+2d' "Get shows uncommitted records"
mk mutants smove-direct R-SETLOG tx_set.go 's/^\t\treturn tx.sMove\(bucket, key1, bucket, key2, item\)$/\t\treturn set.SMove(string(key1), string(key2), item)/' "SMove edits the set in place again (K17)"
mk mutants rwparity-no-truncate R-RWPARITY rwmanger_mmap.go 's/err = Truncate\(path, capacity, f\)/err = Truncate(path, capacity\/2, f)/' "mmap manager sizes the file differently"
mk mutants commit-empty-writes R-COMMIT-EMPTY tx.go 's/^\tif writesLen == 0 \{$/\ttx.db.KeyCount += 0\n\tif writesLen == 0 {/' "Commit touches shared state with an empty write set"
# ---- benign variants: must not create any new violated or undecided obligation ----
mk benign rename-lastindex ALL tx.go 's/lastIndex/finalIdx/g' "rename a local"
mkp benign last-index-as-plus-one ALL tx.go 's/if i == lastIndex \{/if i+1 == writesLen {/g; s/	lastIndex := writesLen - 1
//' "i+1 == n instead of i == n-1"
mk benign wrapper-if-split ALL tx_bptree.go '/func \(tx \*Tx\) getHintIdxDataItemsWrapper/,/^}/s/if r.H.meta.Flag == DataDeleteFlag \|\| r.IsExpired\(\) \{\n\t\t\tcontinue/XX/; /func \(tx \*Tx\) getHintIdxDataItemsWrapper/,/^}/s/^\t\tif r.H.meta.Flag == DataDeleteFlag \|\| r.IsExpired\(\) \{$/\t\tif r.H.meta.Flag == DataDeleteFlag {\n\t\t\tcontinue\n\t\t}\n\t\tif r.IsExpired() {/' "one guard split into two ifs"
mk benign sync-via-datafile ALL tx.go 's/if err := tx.db.ActiveFile.rwManager.Sync\(\); err != nil \{/if err := tx.db.ActiveFile.Sync(); err != nil {/' "sync through the DataFile wrapper"
mk benign closed-check-inline ALL tx_set.go '0,/if err := tx.checkTxIsClosed\(\); err != nil \{\n\t\treturn false, err/s//XX/; 0,/^\tif err := tx.checkTxIsClosed\(\); err != nil \{$/s//\tif err := error(nil); tx.db == nil {\n\t\terr = ErrTxClosed\n\t\treturn false, err\n\t} else if err != nil {/' "closed check written inline"
mk benign errors-new-message ALL db.go 's/not support HintBPTSparseIdxMode switch to the other EntryIdxMode/index mode mismatch: data was written in sparse mode/' "another error text"
mk benign comment-and-blank-lines ALL tx.go 's/^(\tlastIndex := writesLen - 1)$/\t\/\/ index of the record that carries the commit marker\n\n\1/' "comments and blank lines"
mk benign switch-instead-of-ifs ALL db.go '/func \(db \*DB\) buildOtherIdxes/,/^}/c func (db *DB) buildOtherIdxes(bucket string, r *Record) error {\n\tswitch r.H.meta.ds {\n\tcase DataStructureSet:\n\t\treturn db.buildSetIdx(bucket, r)\n\tcase DataStructureSortedSet:\n\t\treturn db.buildSortedSetIdx(bucket, r)\n\tcase DataStructureList:\n\t\treturn db.buildListIdx(bucket, r)\n\t}\n\treturn nil\n}' "switch instead of if chain"
mk benign extra-helper-for-path ALL db.go 's/^(func \(db \*DB\) getMetaPath\(\) string \{)$/func (db *DB) dirJoin(parts ...string) string {\n\treturn db.opt.Dir + "\/" + strings.Join(parts, "\/")\n}\n\n\1/' "an unused helper"
mk benign isexpired-reordered ALL record.go 's/if ttl > 0 \&\& uint64\(ttl\)\+timestamp > uint64\(now\) \|\| ttl == Persistent \{/if ttl == Persistent || (ttl > 0 \&\& uint64(now) < timestamp+uint64(ttl)) {/' "equivalent expiry expression"
# ---- phase 3: benign variants for the rules added from seeded changes ----
mkp benign leafchain-temp-var ALL bptree.go 's/\tif leaf.pointers\[order-1\] != nil \{\n\t\tnewLeaf.pointers\[order-1\] = leaf.pointers\[order-1\]\n\t\}/\tnext := leaf.pointers[order-1]\n\tif next != nil {\n\t\tnewLeaf.pointers[order-1] = next\n\t}/' "successor kept in a local before the splice"
mkp benign logged-err-variable ALL tx_list.go 's/\treturn item, tx.push\(bucket, key, DataLPopFlag, item\)/\terr = tx.push(bucket, key, DataLPopFlag, item)\n\treturn item, err/' "log result through a variable"
mk benign sizepair-long-form ALL tx.go 's/^\t\ttx.db.ActiveFile.writeOff \+= entrySize$/\t\ttx.db.ActiveFile.writeOff = tx.db.ActiveFile.writeOff + entrySize/' "x = x + d instead of x += d"
mkp benign backup-helper-inside-view ALL db.go 's/\terr := db.View\(func\(tx \*Tx\) error \{\n\t\treturn filesystem.CopyDir\(db.opt.Dir, dir\)\n\t\}\)/\terr := db.View(func(tx *Tx) error {\n\t\treturn db.copyAll(dir)\n\t})/; s/\n\/\/ Close releases all db resources./\nfunc (db *DB) copyAll(dir string) error {\n\treturn filesystem.CopyDir(db.opt.Dir, dir)\n}\n\n\/\/ Close releases all db resources./' "copy moved into a helper that runs inside View"
mkp benign rwbounds-offset-helper ALL rwmanger_mmap.go 's/\} else if off >= int64\(len\(mm.m\)\) \|\| off < 0 \{\n\t\treturn 0, ErrIndexOutOfBound\n\t\}\n\n\treturn copy\(b, mm.m\[off:\]\), nil/} else if !mm.validStart(off) {\n\t\treturn 0, ErrIndexOutOfBound\n\t}\n\n\treturn copy(b, mm.m[off:]), nil/; s/\n\/\/ Sync synchronizes/\nfunc (mm *MMapRWManager) validStart(off int64) bool {\n\treturn off >= 0 \&\& off < int64(len(mm.m))\n}\n\n\/\/ Sync synchronizes/' "start-offset test in a helper"
mkp benign zscore-strict-inplace ALL ds/zset/sortedset.go 's/\t\tif n.score == score \{\n\t\t\tn.Value = value\n\t\t\} else \{/\t\tif n.score == score {\n\t\t\tn.Value = value\n\t\t} else if (n.backward == nil || n.backward.score < score) \&\&\n\t\t\t(n.level[0].forward == nil || n.level[0].forward.score > score) {\n\t\t\tn.score = score\n\t\t\tn.Value = value\n\t\t} else {/' "in-place score update behind strict neighbour comparisons"
mkp benign replay-helper-same-split ALL db.go 's/\t\tkeyAndIndex := strings.Split\(string\(r.E.Key\), SeparatorForListKey\)\n\t\tnewKey := keyAndIndex\[0\]\n\t\tindex, _ := strconv2.StrToInt\(keyAndIndex\[1\]\)/\t\tnewKey, idxStr := splitKeyIdx(string(r.E.Key))\n\t\tindex, _ := strconv2.StrToInt(idxStr)/; s/\n\/\/ ErrWhenBuildListIdx returns/\nfunc splitKeyIdx(s string) (string, string) {\n\tparts := strings.Split(s, SeparatorForListKey)\n\treturn parts[0], parts[1]\n}\n\n\/\/ ErrWhenBuildListIdx returns/' "open-side parse moved into a helper with the same split"
mk benign entry-present-reordered ALL db.go 's/if db.opt.EntryIdxMode == HintKeyValAndRAMIdxMode \|\| entry.Meta.ds != DataStructureBPTree \{/if entry.Meta.ds != DataStructureBPTree || db.opt.EntryIdxMode == HintKeyValAndRAMIdxMode {/' "disjuncts swapped"
mkp benign recover-order-renamed ALL db.go 's/unconfirmedRecords/scanned/g' "rename a local in recovery"
mkp benign merge-remove-after-close ALL db.go 's/(\t\tif err := os.Remove\(db.getDataPath\(int64\(pendingMergeFId\)\)\); err != nil \{\n\t\t\tdb.isMerging = false\n\t\t\tf.rwManager.Close\(\)\n\t\t\treturn fmt.Errorf\("when merge err: %s", err\)\n\t\t\}\n\n)\t\tf.rwManager.Close\(\)\n/\t\tf.rwManager.Close()\n\n$1/; s/(\t\tf.rwManager.Close\(\)\n\n\t\tif err := os.Remove\(db.getDataPath\(int64\(pendingMergeFId\)\)\); err != nil \{\n\t\t\tdb.isMerging = false\n)\t\t\tf.rwManager.Close\(\)\n/$1/' "merge closes the scanned segment before removing it"
# ---- phase 3: the seeded changes kept under /verif/seeded are mutants too (rules from their meta.json) ----
for d in ../seeded/*/; do
  sid=$(basename "$d")
  rules=$(python3 -c "import json,sys; m=json.load(open('$d/meta.json')); r=m.get('detected_now',{}); print(','.join(r.get('rules',[])) if r.get('by_target_property') else '')" 2>/dev/null)
  [ -n "$rules" ] || continue
  W=$(mktemp -d /tmp/nutsmut.XXXXXX); cp -r "$BASE"/. "$W"/
  if (cd "$W" && patch -p1 -s < "$OLDPWD/$d/patch.diff" >/dev/null 2>&1) && (cd "$W" && go build ./... 2>/dev/null); then
    (cd "$W" && rm -f *.orig */*/*.orig; diff -ruN "$BASE" . | sed "s#$BASE/#a/#g; s#^+++ \./#+++ b/#; s#^diff -ruN $BASE/\(.*\) \./\(.*\)#diff -ruN a/\1 b/\2#") > "mutants/seed-$sid.diff"
    echo "," >> corpus.json
    desc=$(python3 -c "import json; print(json.load(open('$d/meta.json'))['summary'].split('.')[0][:150].replace('\"','').replace('\\\\',''))")
    printf '{"kind":"mutants","name":"seed-%s","rules":"%s","file":"(several)","desc":"%s"}' "$sid" "$rules" "$desc" >> corpus.json
    echo "ok mutants/seed-$sid"
  else
    echo "SKIP seed-$sid (does not apply/build on HEAD)"
  fi
  rm -rf "$W"
done
# ---- phase 3: behaviour-preserving refactorings written by independent sub-agents (benign_ext/), except the two
# that make a rule lose its anchor and report undecided (listed in DESIGN.md 10.3b)
for f in ../benign_ext/*.diff; do
  name=$(basename "$f" .diff)
  case "$name" in B6-b4|B1r2-b6|B2r2-b6|B3r2-b4|B6r2-b3|B7r2-b4|B7r2-b5) continue;; esac
  W=$(mktemp -d /tmp/nutsmut.XXXXXX); cp -r "$BASE"/. "$W"/
  if (cd "$W" && patch -p1 -s < "$OLDPWD/$f" >/dev/null 2>&1) && (cd "$W" && go build ./... 2>/dev/null); then
    cp "$f" "benign/ext-$name.diff"
    echo "," >> corpus.json
    desc=$(head -c 140 "../benign_ext/$name.txt" | tr '\n"\\' '   ')
    printf '{"kind":"benign","name":"ext-%s","rules":"ALL","file":"(several)","desc":"%s"}' "$name" "$desc" >> corpus.json
    echo "ok benign/ext-$name"
  else
    echo "SKIP ext-$name"
  fi
  rm -rf "$W"
done
echo "]" >> corpus.json
rm -rf "$BASE"
