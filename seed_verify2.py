#!/usr/bin/env python3
"""Verifies seeded mutations produced by independent sub-agents and records which checks catch them.
(parallel variant: every go command runs in its own mount namespace with a private /tmp, because the repository's tests use fixed /tmp/nutsdb* directories; detection is left to seed_matrix.py -u)
usage: seed_verify2.py <Cxx> [<Cxx> ...]   (reads /tmp/seed/<Cxx>/_out/m*.{diff,json} and the demo files)
For each mutation, in throw-away copies of /repo HEAD under /tmp (removed afterwards):
  1. the patch applies and the tree builds,
  2. the existing test suite passes with the patch,
  3. the demonstration FAILS with the patch and PASSES without it,
then runs every claimed check (quick) against the patched copy and records which print VIOLATION.
Accepted mutations are stored under /verif/seeded/<Cxx>-m<i>/ (patch.diff, demo, meta.json)."""
import json, os, re, shutil, subprocess, sys, tempfile, glob
from shlex import quote as shq
os.makedirs("/var/tmp/nutsseed", exist_ok=True)
ENV = dict(os.environ, GOFLAGS="-mod=mod", GOPROXY="off", GOSUMDB="off", GOTOOLCHAIN="local")
ENV.pop("GOWORK", None)
import threading, concurrent.futures as cf
_tl = threading.local()
def sh(cmd, cwd=None, timeout=900):
    try:
        priv = getattr(_tl, "priv", None)
        if priv and not cmd.startswith(("git init", "patch ")):
            cmd = "unshare -m sh -c %s" % shq("mount --bind %s /tmp && cd %s && %s" % (priv, cwd or ".", cmd))
        p = subprocess.run(cmd, shell=True, cwd=cwd, env=ENV, capture_output=True, text=True, timeout=timeout)
        return p.returncode, (p.stdout + p.stderr)
    except subprocess.TimeoutExpired:
        return 124, "TIMEOUT"
def fresh():
    d = tempfile.mkdtemp(prefix="nutsseed.", dir="/var/tmp/nutsseed")
    subprocess.run("git -C /repo archive HEAD | tar -x -C %s" % d, shell=True, check=True)
    return d
def demo_dir(src):
    m = re.search(r"^package\s+(\w+)", open(src).read(), re.M)
    pkg = m.group(1) if m else "nutsdb"
    return {"nutsdb": ".", "nutsdb_test": ".", "list": "ds/list", "set": "ds/set", "zset": "ds/zset", "main": None}.get(pkg, ".")
def run_demo(tree, demo, race):
    d = demo_dir(demo)
    if d is None:
        os.makedirs(tree + "/zzdemo", exist_ok=True); shutil.copy(demo, tree + "/zzdemo/main.go")
        return sh("go run ./zzdemo", cwd=tree, timeout=600)
    dst = os.path.join(tree, d, "zz_seed_demo_test.go"); shutil.copy(demo, dst)
    names = re.findall(r"^func (Test\w+)\(", open(demo).read(), re.M)
    rc, out = sh("go test -vet=off -count=1 %s -run '^(%s)$' ./%s" % ("-race" if race else "", "|".join(names), d), cwd=tree, timeout=900)
    os.remove(dst)
    return rc, out
props = [l.split(":")[0] for l in subprocess.check_output(["/verif/bin/nutslint", "-list"], text=True).splitlines()]
tasks = []
for cid in sys.argv[1:]:
    out = "/tmp/seed/%s/_out" % cid
    for diff in sorted(glob.glob(out + "/m[0-9].diff")):
        tasks.append((cid, out, diff))
def one(t):
    cid, out, diff = t
    _tl.priv = tempfile.mkdtemp(prefix="nutspriv.", dir="/var/tmp/nutsseed")
    try:
        return one_inner(cid, out, diff)
    finally:
        shutil.rmtree(_tl.priv, ignore_errors=True)
def one_inner(cid, out, diff):
    if True:
        mi = os.path.basename(diff)[:-5]
        sid = "%s-m%d" % (cid, int(mi[1:]) + int(os.environ.get("SEED_OFFSET", "0")))
        meta_in = {}
        try: meta_in = json.load(open(out + "/%s.json" % mi))
        except Exception as e: meta_in = {"summary": "(agent json unreadable: %s)" % e}
        demos = [p for p in glob.glob(out + "/%s_test.go" % mi) + glob.glob(out + "/%s_demo.go" % mi)]
        res = {"id": sid, "property": cid, "summary": meta_in.get("summary", ""), "needs_to_manifest": meta_in.get("needs_to_manifest", ""), "files_changed": meta_in.get("files_changed", [])}
        if not demos:
            print(sid, "REJECT: no demo"); return
        demo = demos[0]
        race = bool(meta_in.get("race")) if "race" in meta_in else ("-race" in json.dumps(meta_in))
        A = fresh(); B = fresh()
        try:
            rc, o = sh("git init -q . && git apply --whitespace=nowarn %s" % diff, cwd=A)
            if rc != 0:
                rc, o = sh("patch -p1 -s < %s" % diff, cwd=A)
            res["applies"] = rc == 0
            if rc != 0: print(sid, "REJECT: patch does not apply", o[:200]); return
            rc, o = sh("go build ./... && go vet -vettool=/bin/true ./... 2>/dev/null; go test -vet=off -count=1 -run '^$' ./...", cwd=A)
            res["builds"] = rc == 0
            if rc != 0: print(sid, "REJECT: does not build", o[-300:]); return
            rc, o = sh("go test -vet=off -count=1 ./...", cwd=A)
            if rc != 0: rc, o = sh("go test -vet=off -count=1 ./...", cwd=A)
            res["existing_suite_passes_with_change"] = rc == 0
            rcA, oA = run_demo(A, demo, race)
            rcB, oB = run_demo(B, demo, race)
            res["demo_fails_with_change"] = rcA != 0
            res["demo_passes_without_change"] = rcB == 0
            res["demo_output_with_change"] = "\n".join(l for l in oA.splitlines() if re.search(r"--- FAIL|panic|DATA RACE|\.go:\d+:", l))[:1500]
            ok = res["existing_suite_passes_with_change"] and res["demo_fails_with_change"] and res["demo_passes_without_change"]
            res["accepted"] = ok
            det = {}
            res["detected_by"] = {}
            res["detected_by_target_property"] = False
            res["detected_by_any"] = False
            res["what_i_ran"] = ["git apply patch.diff on a copy of /repo HEAD", "go build ./... ; go test -vet=off -count=1 ./... (existing suite)", "demo with and without the patch" + (" (-race)" if race else ""), "seed_matrix.py -u (every rule of nutslint against the patched copy; see detected_now)"]
            d = "/verif/seeded/" + sid
            if ok:
                os.makedirs(d, exist_ok=True)
                shutil.copy(diff, d + "/patch.diff"); shutil.copy(demo, d + "/" + os.path.basename(demo).replace(mi + "_", "demo_")); shutil.copy(out + "/%s.json" % mi, d + "/agent.json") if os.path.exists(out + "/%s.json" % mi) else None
                json.dump(res, open(d + "/meta.json", "w"), indent=1)
            print(sid, "ACCEPT" if ok else "REJECT(suite=%s demoFail=%s demoPassClean=%s)" % (res["existing_suite_passes_with_change"], res["demo_fails_with_change"], res["demo_passes_without_change"]),
                  "| detected by target:", res["detected_by_target_property"], "| any:", sorted(k for k, v in det.items() if v["exit"] == 1), "| undecided:", sorted(k for k, v in det.items() if v["exit"] == 2))
        finally:
            shutil.rmtree(A, ignore_errors=True); shutil.rmtree(B, ignore_errors=True)

with cf.ThreadPoolExecutor(max_workers=int(os.environ.get("SEED_JOBS", "5"))) as ex:
    list(ex.map(one, tasks))
