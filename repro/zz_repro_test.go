package nutsdb

// Reproductions of the defects repaired by the fix: commits (see /verif/known_findings.json).
// Not part of any check: run by hand in a scratch copy of the repository
// (cp this file next to the sources; go test -run 'TestRepro' .).
// Each test FAILS on the original snapshot and PASSES on the repaired tree.

import (
	"fmt"
	"io/ioutil"
	"os"
	"testing"

	"github.com/xujiajun/nutsdb/ds/zset"
)

func reproDir(t *testing.T) string {
	d, err := ioutil.TempDir("", "nutsrepro")
	if err != nil {
		t.Fatal(err)
	}
	return d
}

func reproOpen(t *testing.T, dir string, mode EntryIdxMode, seg int64, rw RWMode) *DB {
	o := DefaultOptions
	o.Dir = dir
	o.EntryIdxMode = mode
	o.SegmentSize = seg
	o.RWMode = rw
	o.SyncEnable = false
	d, err := Open(o)
	if err != nil {
		t.Fatalf("open: %v", err)
	}
	return d
}

func TestReproK02_TxIDsUnique(t *testing.T) {
	dir := reproDir(t)
	defer os.RemoveAll(dir)
	d := reproOpen(t, dir, HintKeyValAndRAMIdxMode, 1<<20, FileIO)
	ids := map[uint64]int{}
	for i := 0; i < 2000; i++ {
		tx, err := d.Begin(true)
		if err != nil {
			t.Fatal(err)
		}
		ids[tx.id]++
		tx.Rollback()
	}
	if len(ids) != 2000 {
		t.Fatalf("2000 transactions got %d distinct ids", len(ids))
	}
}

func TestReproK03_ReplayTolerates(t *testing.T) {
	dir := reproDir(t)
	defer os.RemoveAll(dir)
	d := reproOpen(t, dir, HintKeyValAndRAMIdxMode, 1<<20, FileIO)
	if err := d.Update(func(tx *Tx) error { return tx.SAdd("s", []byte("k"), []byte("a")) }); err != nil {
		t.Fatal(err)
	}
	if err := d.Update(func(tx *Tx) error { return tx.SRem("s", []byte("missing"), []byte("x")) }); err != nil {
		t.Fatal(err)
	}
	if err := d.Update(func(tx *Tx) error { return tx.RPush("l", []byte("k"), []byte("a")) }); err != nil {
		t.Fatal(err)
	}
	if err := d.Update(func(tx *Tx) error {
		if _, err := tx.LPop("l", []byte("k")); err != nil {
			return err
		}
		_, err := tx.LPop("l", []byte("k"))
		return err
	}); err != nil {
		t.Fatal(err)
	}
	d.Close()
	o := DefaultOptions
	o.Dir = dir
	o.SegmentSize = 1 << 20
	if _, err := Open(o); err != nil {
		t.Fatalf("reopen after successful calls failed: %v", err)
	}
}

func TestReproK04_ReadCreatesNoFile(t *testing.T) {
	dir := reproDir(t)
	defer os.RemoveAll(dir)
	d := reproOpen(t, dir, HintBPTSparseIdxMode, 1<<20, FileIO)
	d.Update(func(tx *Tx) error { return tx.Put("b", []byte("k"), []byte("v"), 0) })
	d.View(func(tx *Tx) error { tx.GetAll("nosuch"); return nil })
	d.Close()
	o := DefaultOptions
	o.Dir = dir
	o.EntryIdxMode = HintBPTSparseIdxMode
	o.SegmentSize = 1 << 20
	if _, err := Open(o); err != nil {
		t.Fatalf("reopen after a read of a missing bucket failed: %v", err)
	}
}

func TestReproK05_ExactlyFullSegmentMMap(t *testing.T) {
	dir := reproDir(t)
	defer os.RemoveAll(dir)
	// header 42 + bucket 1 + key 1 + value 56 = 100
	d := reproOpen(t, dir, HintKeyValAndRAMIdxMode, 100, MMap)
	if err := d.Update(func(tx *Tx) error { return tx.Put("b", []byte("k"), make([]byte, 56), 0) }); err != nil {
		t.Fatal(err)
	}
	d.Close()
	o := DefaultOptions
	o.Dir = dir
	o.SegmentSize = 100
	o.RWMode = MMap
	if _, err := Open(o); err != nil {
		t.Fatalf("reopen of an exactly full segment failed: %v", err)
	}
}

func TestReproK07_HeaderNotAMember(t *testing.T) {
	ss := zset.New()
	ss.Put("a", 10, nil)
	ss.Put("", 5, nil)
	for _, n := range ss.GetByScoreRange(3, -3, nil) {
		t.Fatalf("reverse range below all scores returned node key=%q score=%v", n.Key(), n.Score())
	}
}

func TestReproK08_MergeKeepsFileID(t *testing.T) {
	dir := reproDir(t)
	defer os.RemoveAll(dir)
	d := reproOpen(t, dir, HintKeyAndRAMIdxMode, 120, FileIO)
	for i := 0; i < 6; i++ {
		k := []byte(fmt.Sprintf("k%d", i))
		if err := d.Update(func(tx *Tx) error { return tx.Put("b", k, []byte("vvvvvvvvvvvvvvvvvvvv"), 0) }); err != nil {
			t.Fatal(err)
		}
	}
	if err := d.Merge(); err != nil {
		t.Fatal(err)
	}
	d.View(func(tx *Tx) error {
		for i := 0; i < 6; i++ {
			e, err := tx.Get("b", []byte(fmt.Sprintf("k%d", i)))
			if err != nil || e == nil || string(e.Value) != "vvvvvvvvvvvvvvvvvvvv" {
				t.Fatalf("after Merge Get(k%d) = %v, %v", i, e, err)
			}
		}
		return nil
	})
}

func TestReproK13_LRemValueWithSeparator(t *testing.T) {
	dir := reproDir(t)
	defer os.RemoveAll(dir)
	d := reproOpen(t, dir, HintKeyValAndRAMIdxMode, 1<<20, FileIO)
	d.Update(func(tx *Tx) error { return tx.RPush("l", []byte("k"), []byte("a|b"), []byte("a"), []byte("c")) })
	d.Update(func(tx *Tx) error { _, err := tx.LRem("l", []byte("k"), 1, []byte("a|b")); return err })
	d.View(func(tx *Tx) error {
		items, _ := tx.LRange("l", []byte("k"), 0, -1)
		if len(items) != 2 || string(items[0]) != "a" || string(items[1]) != "c" {
			t.Fatalf("after LRem(a|b) list = %q", items)
		}
		return nil
	})
}

func TestReproK15_ClosedTxNoPanic(t *testing.T) {
	dir := reproDir(t)
	defer os.RemoveAll(dir)
	d := reproOpen(t, dir, HintBPTSparseIdxMode, 1<<20, FileIO)
	tx, _ := d.Begin(false)
	tx.Rollback()
	defer func() {
		if r := recover(); r != nil {
			t.Fatalf("panic on a finished transaction: %v", r)
		}
	}()
	if _, err := tx.FindLeafOnDisk(0, 0, []byte("k"), []byte("k")); err == nil {
		t.Fatal("expected an error")
	}
	if _, err := tx.FindTxIDOnDisk(0, 1); err == nil {
		t.Fatal("expected an error")
	}
}

func TestReproK17_SMoveIsLogged(t *testing.T) {
	dir := reproDir(t)
	defer os.RemoveAll(dir)
	d := reproOpen(t, dir, HintKeyValAndRAMIdxMode, 1<<20, FileIO)
	d.Update(func(tx *Tx) error {
		tx.SAdd("s", []byte("k1"), []byte("x"))
		return tx.SAdd("s", []byte("k2"), []byte("y"))
	})
	// a read-only transaction must not be able to move anything
	d.View(func(tx *Tx) error {
		if ok, err := tx.SMoveByOneBucket("s", []byte("k1"), []byte("k2"), []byte("x")); ok || err == nil {
			t.Errorf("SMove inside View succeeded")
		}
		return nil
	})
	d.View(func(tx *Tx) error {
		if ok, _ := tx.SIsMember("s", []byte("k1"), []byte("x")); !ok {
			t.Errorf("a read-only transaction moved the member")
		}
		return nil
	})
	if err := d.Update(func(tx *Tx) error {
		_, err := tx.SMoveByOneBucket("s", []byte("k1"), []byte("k2"), []byte("x"))
		return err
	}); err != nil {
		t.Fatal(err)
	}
	d.Close()
	o := DefaultOptions
	o.Dir = dir
	o.SegmentSize = 1 << 20
	d2, err := Open(o)
	if err != nil {
		t.Fatal(err)
	}
	d2.View(func(tx *Tx) error {
		if ok, _ := tx.SIsMember("s", []byte("k2"), []byte("x")); !ok {
			t.Errorf("the move is lost after reopen")
		}
		return nil
	})
}

func TestReproK20_RangeInsideSegment(t *testing.T) {
	dir := reproDir(t)
	defer os.RemoveAll(dir)
	d := reproOpen(t, dir, HintBPTSparseIdxMode, 200, FileIO)
	for i := 0; i < 8; i++ {
		k := []byte(fmt.Sprintf("k%d", i))
		if err := d.Update(func(tx *Tx) error { return tx.Put("b", k, []byte("0123456789"), 0) }); err != nil {
			t.Fatal(err)
		}
	}
	d.View(func(tx *Tx) error {
		if _, err := tx.Get("b", []byte("k1")); err != nil {
			t.Skipf("k1 not readable at all: %v", err)
		}
		es, err := tx.RangeScan("b", []byte("k1"), []byte("k1"))
		if err != nil || len(es) != 1 {
			t.Fatalf("RangeScan(k1,k1) = %v, %v while Get(k1) succeeds", es, err)
		}
		return nil
	})
}

func TestReproK01a_OversizedEntryLeavesNothing(t *testing.T) {
	dir := reproDir(t)
	defer os.RemoveAll(dir)
	d := reproOpen(t, dir, HintKeyValAndRAMIdxMode, 4096, FileIO)
	d.Update(func(tx *Tx) error { return tx.Put("b", []byte("k"), []byte("v1"), 0) })
	err := d.Update(func(tx *Tx) error {
		tx.Put("b", []byte("k"), []byte("v2"), 0)
		return tx.Put("b", []byte("big"), make([]byte, 5000), 0)
	})
	if err == nil {
		t.Fatal("expected ErrKeyAndValSize")
	}
	d.View(func(tx *Tx) error {
		es, _ := tx.GetAll("b")
		for _, e := range es {
			if string(e.Key) == "k" && string(e.Value) != "v1" {
				t.Fatalf("failed transaction's write is visible: k=%s", e.Value)
			}
		}
		return nil
	})
}

func TestReproK11_MergeAfterClose(t *testing.T) {
	dir := reproDir(t)
	defer os.RemoveAll(dir)
	d := reproOpen(t, dir, HintKeyValAndRAMIdxMode, 120, FileIO)
	for i := 0; i < 6; i++ {
		k := []byte(fmt.Sprintf("k%d", i))
		d.Update(func(tx *Tx) error { return tx.Put("b", k, []byte("vvvvvvvvvvvvvvvvvvvv"), 0) })
	}
	d.Close()
	defer func() {
		if r := recover(); r != nil {
			t.Fatalf("Merge after Close panicked: %v", r)
		}
	}()
	if err := d.Merge(); err == nil {
		t.Fatal("Merge on a closed DB returned nil")
	}
}

func TestReproK09_MergeDoesNotResurrectUncommitted(t *testing.T) {
	dir := reproDir(t)
	defer os.RemoveAll(dir)
	d := reproOpen(t, dir, HintKeyValAndRAMIdxMode, 300, FileIO)
	d.Update(func(tx *Tx) error { return tx.Put("b", []byte("k"), []byte("v1"), 0) })
	// the record of a transaction that died before its commit marker: same key, never committed
	ghost := &Entry{Key: []byte("k"), Value: []byte("v2"), Meta: &MetaData{keySize: 1, valueSize: 2, bucket: []byte("b"), bucketSize: 1,
		Flag: DataSetFlag, ds: DataStructureBPTree, status: UnCommitted, txID: 4242, timestamp: 1}}
	if _, err := d.ActiveFile.WriteAt(ghost.Encode(), d.ActiveFile.writeOff); err != nil {
		t.Fatal(err)
	}
	d.ActiveFile.writeOff += ghost.Size()
	d.ActiveFile.ActualSize += ghost.Size()
	for i := 0; i < 6; i++ {
		k := []byte(fmt.Sprintf("fill%d", i))
		d.Update(func(tx *Tx) error { return tx.Put("b", k, []byte("0123456789012345678901234567890123456789"), 0) })
	}
	d.Close()
	o := DefaultOptions
	o.Dir = dir
	o.SegmentSize = 300
	o.SyncEnable = false
	d2, err := Open(o)
	if err != nil {
		t.Fatal(err)
	}
	get := func(db *DB) string {
		var v string
		db.View(func(tx *Tx) error {
			e, err := tx.Get("b", []byte("k"))
			if err == nil {
				v = string(e.Value)
			}
			return nil
		})
		return v
	}
	if v := get(d2); v != "v1" {
		t.Fatalf("before Merge k=%q", v)
	}
	if err := d2.Merge(); err != nil {
		t.Fatal(err)
	}
	d2.Close()
	d3, err := Open(o)
	if err != nil {
		t.Fatal(err)
	}
	if v := get(d3); v != "v1" {
		t.Fatalf("after Merge + reopen the value of the uncommitted transaction won: k=%q", v)
	}
}

// K25: list, set and sorted-set records written in HintKeyAndRAMIdxMode must survive a reopen.
func TestReproK25_KeyOnlyModeReopenWithSetListZSet(t *testing.T) {
	for _, which := range []string{"set", "list", "zset"} {
		dir := reproDir(t)
		defer os.RemoveAll(dir)
		db := reproOpen(t, dir, HintKeyAndRAMIdxMode, 64*1024, FileIO)
		err := db.Update(func(tx *Tx) error {
			switch which {
			case "set":
				return tx.SAdd("b", []byte("k"), []byte("m1"))
			case "list":
				return tx.RPush("b", []byte("k"), []byte("v1"))
			default:
				return tx.ZAdd("b", []byte("k"), 1.5, []byte("v"))
			}
		})
		if err != nil {
			t.Fatalf("%s: write failed: %v", which, err)
		}
		db.Close()
		func() {
			defer func() {
				if r := recover(); r != nil {
					t.Errorf("%s: Open panicked: %v", which, r)
				}
			}()
			o := DefaultOptions
			o.Dir = dir
			o.EntryIdxMode = HintKeyAndRAMIdxMode
			o.SegmentSize = 64 * 1024
			db2, err := Open(o)
			if err != nil {
				t.Errorf("%s: reopen failed: %v", which, err)
				return
			}
			defer db2.Close()
			db2.View(func(tx *Tx) error {
				switch which {
				case "set":
					if ok, err := tx.SIsMember("b", []byte("k"), []byte("m1")); err != nil || !ok {
						t.Errorf("set member lost: %v %v", ok, err)
					}
				case "list":
					if l, err := tx.LRange("b", []byte("k"), 0, -1); err != nil || len(l) != 1 || string(l[0]) != "v1" {
						t.Errorf("list lost: %v %v", l, err)
					}
				default:
					if n, err := tx.ZGetByKey("b", []byte("k")); err != nil || n == nil || string(n.Value) != "v" {
						t.Errorf("zset lost: %v %v", n, err)
					}
				}
				return nil
			})
		}()
	}
}

// K26: a segment filled to its last byte by a record without a value (the delete marker of Tx.Delete):
// the decoder still issued a zero-length read for the value at offset == SegmentSize, which the mapped
// reader refuses; every Open through MMap (the default StartFileLoadingMode) failed.
func TestReproK26_FullSegmentEndingWithEmptyValue(t *testing.T) {
	for _, mode := range []EntryIdxMode{HintKeyValAndRAMIdxMode, HintKeyAndRAMIdxMode} {
		dir := reproDir(t)
		defer os.RemoveAll(dir)
		// put: 42 + 1 + 1 + 10 = 54 ; delete marker: 42 + 1 + 1 = 44 ; segment = 98
		d := reproOpen(t, dir, mode, 98, FileIO)
		if err := d.Update(func(tx *Tx) error { return tx.Put("b", []byte("k"), make([]byte, 10), 0) }); err != nil {
			t.Fatal(err)
		}
		if err := d.Update(func(tx *Tx) error { return tx.Delete("b", []byte("k")) }); err != nil {
			t.Fatal(err)
		}
		if err := d.Update(func(tx *Tx) error { return tx.Put("b", []byte("j"), []byte("v"), 0) }); err != nil {
			t.Fatal(err)
		}
		d.Close()
		o := DefaultOptions
		o.Dir = dir
		o.SegmentSize = 98
		o.EntryIdxMode = mode
		d2, err := Open(o)
		if err != nil {
			t.Fatalf("mode %d: reopen of a full segment that ends with a delete marker failed: %v", mode, err)
		}
		if err := d2.View(func(tx *Tx) error {
			if e, err := tx.Get("b", []byte("j")); err != nil || string(e.Value) != "v" {
				return fmt.Errorf("Get j: %v", err)
			}
			if _, err := tx.Get("b", []byte("k")); err == nil {
				return fmt.Errorf("deleted key k is back")
			}
			return nil
		}); err != nil {
			t.Fatal(err)
		}
		d2.Close()
	}
}

// K27: List.LRange adds the list size to a negative start and slices with the result without checking
// that it is still negative: an index counted from the tail that lies before the head (LRange(-5, 1) on
// three elements) panicked with "slice bounds out of range" (Tx.LRange and Tx.LTrim reach it).
func TestReproK27_LRangeStartBeforeHead(t *testing.T) {
	dir := reproDir(t)
	defer os.RemoveAll(dir)
	d := reproOpen(t, dir, HintKeyValAndRAMIdxMode, 8*1024*1024, FileIO)
	defer d.Close()
	if err := d.Update(func(tx *Tx) error { return tx.RPush("b", []byte("k"), []byte("a"), []byte("b"), []byte("c")) }); err != nil {
		t.Fatal(err)
	}
	err := d.View(func(tx *Tx) (err error) {
		defer func() {
			if r := recover(); r != nil {
				err = fmt.Errorf("LRange(-5, 1) panicked: %v", r)
			}
		}()
		items, err := tx.LRange("b", []byte("k"), -5, 1)
		if err != nil {
			return nil // an error is an acceptable answer
		}
		if len(items) != 2 || string(items[0]) != "a" || string(items[1]) != "b" {
			return fmt.Errorf("LRange(-5, 1) = %q, want the range clamped to the head: [a b]", items)
		}
		return nil
	})
	if err != nil {
		t.Fatal(err)
	}
}

// K28 (not repaired, see known_findings.json): LRem with count == math.MinInt64 passes Tx.LRem's range test
// (-count overflows and stays negative), is logged, and the commit-time applier panics.
func TestReproK28_LRemMinInt(t *testing.T) {
	dir := reproDir(t)
	defer os.RemoveAll(dir)
	d := reproOpen(t, dir, HintKeyValAndRAMIdxMode, 8*1024*1024, FileIO)
	// no deferred Close: the panic leaves the write lock held and Close would block
	if err := d.Update(func(tx *Tx) error { return tx.RPush("b", []byte("k"), []byte("a"), []byte("b"), []byte("a")) }); err != nil {
		t.Fatal(err)
	}
	var callErr error
	func() {
		defer func() {
			if r := recover(); r != nil {
				t.Fatalf("LRem(MinInt64) accepted (err=%v) and then panicked: %v", callErr, r)
			}
		}()
		_ = d.Update(func(tx *Tx) error {
			_, callErr = tx.LRem("b", []byte("k"), -9223372036854775808, []byte("a"))
			return callErr
		})
	}()
}

// K29: Merge asked the key/value index "is there a newer record of this bucket and key" for records of
// every data structure. A set (list, sorted set) record whose bucket name and key coincide with a key/value
// pair written to a later segment was dropped by Merge; the member is gone after the reopen.
func TestReproK29_MergeKeepsSetShadowedByKV(t *testing.T) {
	dir := reproDir(t)
	defer os.RemoveAll(dir)
	d := reproOpen(t, dir, HintKeyValAndRAMIdxMode, 200, FileIO)
	if err := d.Update(func(tx *Tx) error { return tx.SAdd("s", []byte("k"), []byte("member")) }); err != nil {
		t.Fatal(err)
	}
	for i := 0; i < 6; i++ { // same bucket name and key in the key/value space, in later segments
		if err := d.Update(func(tx *Tx) error { return tx.Put("s", []byte("k"), []byte(fmt.Sprintf("value-%02d-xxxxxxxxxxxxxxxxxxxxxxxx", i)), 0) }); err != nil {
			t.Fatal(err)
		}
	}
	if err := d.Merge(); err != nil {
		t.Fatal(err)
	}
	if err := d.Close(); err != nil {
		t.Fatal(err)
	}
	d = reproOpen(t, dir, HintKeyValAndRAMIdxMode, 200, FileIO)
	defer d.Close()
	if err := d.View(func(tx *Tx) error {
		ok, err := tx.SIsMember("s", []byte("k"), []byte("member"))
		if err != nil || !ok {
			return fmt.Errorf("after Merge and reopen SIsMember(s,k,member) = %v, %v; the set record was dropped because a key/value pair (s,k) exists in a later segment", ok, err)
		}
		return nil
	}); err != nil {
		t.Fatal(err)
	}
}

// K30: when nothing in the directory is live any more (every key deleted), Merge rewrote nothing, removed every
// segment - the active one included - and kept appending to the unlinked file: writes committed after the Merge
// were gone after the next reopen.
func TestReproK30_MergeKeepsTheActiveSegment(t *testing.T) {
	dir := reproDir(t)
	defer os.RemoveAll(dir)
	d := reproOpen(t, dir, HintKeyValAndRAMIdxMode, 150, FileIO)
	for _, k := range []string{"k1", "k2"} {
		k := k
		if err := d.Update(func(tx *Tx) error { return tx.Put("b", []byte(k), []byte("value-value-value-value"), 0) }); err != nil {
			t.Fatal(err)
		}
	}
	for _, k := range []string{"k1", "k2"} {
		k := k
		if err := d.Update(func(tx *Tx) error { return tx.Delete("b", []byte(k)) }); err != nil {
			t.Fatal(err)
		}
	}
	if err := d.Merge(); err != nil {
		t.Fatal(err)
	}
	if err := d.Update(func(tx *Tx) error { return tx.Put("b", []byte("k9"), []byte("v9"), 0) }); err != nil {
		t.Fatal(err)
	}
	if err := d.Close(); err != nil {
		t.Fatal(err)
	}
	d = reproOpen(t, dir, HintKeyValAndRAMIdxMode, 150, FileIO)
	defer d.Close()
	if err := d.View(func(tx *Tx) error {
		e, err := tx.Get("b", []byte("k9"))
		if err != nil || string(e.Value) != "v9" {
			return fmt.Errorf("after Merge, Put(k9), Close, Open: Get(k9) = %v, %v; the write went to a segment Merge had unlinked", e, err)
		}
		return nil
	}); err != nil {
		t.Fatal(err)
	}
}
