package main

import (
	"fmt"
	"go/token"
	"go/types"
	"sort"

	"golang.org/x/tools/go/ssa"
)

// ---------------------------------------------------------------------------
// R-TOMBSTONE-STOPS: in the point-lookup cone of Tx.Get the levels are consulted newest first
// (active index, then sealed segments from the highest id down). A record that is found but dead
// (delete marker or expired) IS the newest version of its key: the lookup has to end there. It may
// neither go round the loop to an older segment, nor return something the caller of that level
// cannot tell from "no record at this level" and so continue with an older level.

type deadEdge struct {
	e    succEdge
	what string
}

func deadEdgesOf(p *Prog, fn *ssa.Function) []deadEdge {
	g := liveGuardsOf(p, fn)
	var out []deadEdge
	seen := map[succEdge]bool{}
	add := func(m map[string][]succEdge, what string) {
		var ks []string
		for k := range m {
			ks = append(ks, k)
		}
		sort.Strings(ks)
		for _, k := range ks {
			for _, e := range m[k] {
				d := succEdge{e.b, 1 - e.si}
				if !seen[d] {
					seen[d] = true
					out = append(out, deadEdge{d, what})
				}
			}
		}
	}
	add(g.notDel, "delete marker")
	add(g.notExp, "expired record")
	return out
}

// retOperandAt: the value returned at position idx, looking through the spill of named results
// that go/ssa emits in functions with defers (store to the result cell, run defers, load, return).
func retOperandAt(r *ssa.Return, idx int) ssa.Value {
	v := r.Results[idx]
	u, ok := v.(*ssa.UnOp)
	if !ok || u.Op != token.MUL {
		return v
	}
	al, ok := u.X.(*ssa.Alloc)
	if !ok {
		return v
	}
	var last ssa.Value
	for _, in := range r.Block().Instrs {
		if st, ok := in.(*ssa.Store); ok && st.Addr == ssa.Value(al) {
			last = st.Val
		}
	}
	if last != nil {
		return last
	}
	return v
}

func returnsEntryLike(f *ssa.Function) bool {
	res := f.Signature.Results()
	if res.Len() == 0 {
		return false
	}
	t := res.At(0).Type()
	if namedIs(derefT(t), "Entry") || namedIs(t, "Entries") || namedIs(derefT(t), "Record") || namedIs(t, "Records") {
		return true
	}
	if sl, ok := t.Underlying().(*types.Slice); ok {
		return namedIs(derefT(sl.Elem()), "Entry") || namedIs(derefT(sl.Elem()), "Record")
	}
	return false
}

func ruleTombstoneStops(c *Ctx) {
	get := c.P.MustFunc("(*Tx).Get")
	cone := c.P.ModCone(get)
	inCone := map[*ssa.Function]bool{}
	for _, f := range cone {
		inCone[f] = true
	}
	n := 0
	for _, f := range cone {
		des := deadEdgesOf(c.P, f)
		if len(des) == 0 {
			continue
		}
		c.touch(f)
		var all []succEdge
		for _, de := range des {
			all = append(all, de.e)
		}
		for i, de := range des {
			n++
			c.Sites++
			tgt := de.e.b.Succs[de.e.si]
			reach := reachFrom(tgt, nil)
			detail := fmt.Sprintf("%s test #%d ends the lookup", de.what, i+1)
			pos := c.P.ipos(de.e.b.Instrs[len(de.e.b.Instrs)-1])
			// (1) no way round to the test again and no further lookup on the dead side
			if reach[de.e.b] {
				c.bad(fnName(f), detail, pos, "after finding a "+de.what+" the loop goes on to the next (older) candidate instead of reporting the key as absent")
				continue
			}
			var further ssa.CallInstruction
			for _, b := range f.Blocks {
				if !reach[b] || !edgesDominate(f, all, b) {
					continue
				}
				for _, in := range b.Instrs {
					ci, ok := in.(ssa.CallInstruction)
					if !ok {
						continue
					}
					if _, isDefer := in.(*ssa.Defer); isDefer {
						continue
					}
					if cal := ci.Common().StaticCallee(); cal != nil && c.P.inModule(cal) && returnsEntryLike(cal) && further == nil {
						further = ci
					}
				}
			}
			if further != nil {
				c.bad(fnName(f), detail, pos, "after finding a "+de.what+" the function goes on to look the key up elsewhere ("+calleeName(further.Common())+")")
				continue
			}
			// (2) what the dead side returns must end the lookup in every caller of this level
			badCaller := ""
			for _, r := range returnsOf(f) {
				if !reachFrom(tgt, nil)[r.Block()] || !edgesDominate(f, all, r.Block()) || len(r.Results) == 0 {
					continue
				}
				if !isNilConst(resolve1(retOperandAt(r, 0))) {
					continue
				}
				for _, s := range c.P.CallersOf(f) {
					g := s.Parent()
					if !inCone[g] || g == f {
						continue
					}
					cv, ok := s.(*ssa.Call)
					if !ok {
						continue
					}
					// result 0 of this call
					isRes0 := func(x ssa.Value) bool {
						x = resolve1(x)
						if ex, ok := x.(*ssa.Extract); ok {
							return ex.Tuple == ssa.Value(cv) && ex.Index == 0
						}
						return x == ssa.Value(cv)
					}
					nonNil := nilEdges(g, false, isRes0)
					prune := func(b *ssa.BasicBlock, si int) bool {
						for _, e := range nonNil {
							if e.b == b && e.si == si {
								return true
							}
						}
						return false
					}
					p := findPath(g, s, func(in ssa.Instruction) bool {
						ci, ok := in.(ssa.CallInstruction)
						if !ok || in == ssa.Instruction(s) {
							return false
						}
						if _, isDefer := in.(*ssa.Defer); isDefer {
							return false
						}
						cal := ci.Common().StaticCallee()
						return cal != nil && c.P.inModule(cal) && returnsEntryLike(cal)
					}, nil, prune)
					if p != nil {
						badCaller = fnName(g) + " continues with " + calleeName(p[len(p)-1].(ssa.CallInstruction).Common())
					}
				}
			}
			if badCaller != "" {
				c.bad(fnName(f), detail, pos, "the "+de.what+" is reported to the caller as a nil record, which "+badCaller+": an older version of the key is served")
				continue
			}
			c.ok(fnName(f), detail, pos, "a dead newest version ends the lookup: no older level or segment is consulted after it")
		}
	}
	c.minInstances("dead-record tests in the cone of Tx.Get", n, 2)
}
