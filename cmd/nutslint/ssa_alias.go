package main

import "golang.org/x/tools/go/ssa"

type ssaFunction = ssa.Function
type ssaParameter = ssa.Parameter
type ssaBasicBlock = ssa.BasicBlock
