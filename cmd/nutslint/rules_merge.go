package main

import (
	"fmt"
	"go/token"
	"go/types"
	"strings"

	"golang.org/x/tools/go/ssa"
)

// ---------------------------------------------------------------------------
// Merge protocol (C15, C16)

// findRewrite locates, in Merge, the call to the function that rewrites the
// pending entries through a write transaction (it calls DB.Begin).
func findRewrite(c *Ctx, merge *ssa.Function) (*ssa.Call, *ssa.Function) {
	var site *ssa.Call
	var fn *ssa.Function
	calls(merge, func(ci ssa.CallInstruction) {
		cal := ci.Common().StaticCallee()
		if cal == nil || !c.P.inModule(cal) || cal.Blocks == nil {
			return
		}
		hasBegin := false
		calls(cal, func(cj ssa.CallInstruction) {
			if calleeIs(cj.Common(), modPath, "DB", "Begin") {
				hasBegin = true
			}
		})
		if hasBegin {
			if call, ok := ci.(*ssa.Call); ok && site == nil {
				site, fn = call, cal
			}
		}
	})
	if site == nil {
		fail("merge rewrite step not found: Merge calls no function that begins a transaction")
	}
	return site, fn
}

func ruleMergeOrder(c *Ctx) {
	merge := c.P.MustFunc("(*DB).Merge")
	c.touch(merge)
	rwSite, rw := findRewrite(c, merge)
	c.touch(rw)
	okEdges := nilEdges(merge, true, func(x ssa.Value) bool { return sameValue(x, rwSite) })
	rc := &recipeCtx{p: c.P}
	// the segment being scanned
	var scanPath string
	for _, sl := range findScanLoops(c.P) {
		if sl.fn != merge {
			continue
		}
		if ex, ok := resolve1(sl.read.Call.Args[0]).(*ssa.Extract); ok {
			if nd, ok := ex.Tuple.(*ssa.Call); ok && calleeIs(&nd.Call, modPath, "", "NewDataFile") {
				scanPath = rc.recipe(nd.Call.Args[0], 0)
			}
		}
	}
	n := 0
	calls(merge, func(ci ssa.CallInstruction) {
		e := fsEffectOf(ci.Common())
		if e == nil || e.kind != "remove" {
			return
		}
		n++
		c.Sites++
		c.check(edgesDominate(merge, okEdges, ci.Block()), fnName(merge), fmt.Sprintf("segment removal #%d only after its rewrite returned success", n), c.P.ipos(ci),
			"os.Remove is dominated by the nil result of the rewrite step", "a segment can be removed although its rewrite did not report success")
		got := rc.recipe(ci.Common().Args[0], 0)
		c.check(scanPath != "" && got == scanPath, fnName(merge), fmt.Sprintf("segment removal #%d removes the segment that was scanned", n), c.P.ipos(ci), got, "the removed path ("+got+") is not the path of the segment that was scanned and rewritten ("+scanPath+")")
	})
	c.minInstances("segment removals in Merge", n, 1)
	// the rewrite step reports a failed commit
	k := 0
	calls(rw, func(ci ssa.CallInstruction) {
		if !calleeIs(ci.Common(), modPath, "Tx", "Commit") {
			return
		}
		k++
		call, _ := ci.(*ssa.Call)
		used := call != nil && hasRealReferrers(call)
		// the commit error must reach a return of the rewrite step
		flows := false
		if used {
			for _, r := range returnsOf(rw) {
				for _, v := range resolve(r.Results[errResultIndex(rw)]) {
					if v == ssa.Value(call) {
						flows = true
					}
				}
				if classifyRetOperand(r, errResultIndex(rw)) != retNil && edgesDominate(rw, nilEdges(rw, false, func(x ssa.Value) bool { return sameValue(x, call) }), r.Block()) {
					flows = true
				}
			}
		}
		c.check(flows, fnName(rw), "the rewrite transaction's Commit result is returned", c.P.ipos(ci), "", "the result of tx.Commit() is dropped: when the rewrite fails, Merge still deletes the old segment and the records in it are lost")
	})
	c.minInstances("Commit calls in the merge rewrite step", k, 1)
	// the new segment id is larger than every existing id: getDataPath(MaxFileID + positive constant)
	m := 0
	calls(rw, func(ci ssa.CallInstruction) {
		if !calleeIs(ci.Common(), modPath, "", "NewDataFile") {
			return
		}
		m++
		okb := false
		if gp, ok := resolve1(ci.Common().Args[0]).(*ssa.Call); ok && calleeIs(&gp.Call, modPath, "DB", "getDataPath") {
			l := linOf(gp.Call.Args[1], func(v ssa.Value) string {
				if isFieldLoad(v, "DB", "MaxFileID") {
					return "MAX"
				}
				return pathOf(v)
			})
			okb = len(l.terms) == 1 && l.terms["MAX"] == 1 && l.c >= 1
		}
		c.check(okb, fnName(rw), "rewritten records go to a segment with an id above every existing one", c.P.ipos(ci), "", "the merge output segment is not MaxFileID+k (k>=1): replay order (ascending id) would not put rewritten records last")
	})
	c.minInstances("NewDataFile calls in the merge rewrite step", m, 1)
}

// keeperCalls: calls in Merge to the functions that add an entry to the rewrite set.
func keeperCalls(c *Ctx, merge *ssa.Function) []*ssa.Call {
	var out []*ssa.Call
	calls(merge, func(ci ssa.CallInstruction) {
		call, ok := ci.(*ssa.Call)
		if !ok {
			return
		}
		cal := call.Call.StaticCallee()
		if cal == nil || !c.P.inModule(cal) {
			return
		}
		res := cal.Signature.Results()
		if res.Len() == 1 && isEntrySliceType(res.At(0).Type()) {
			for _, p := range cal.Params {
				if isEntryPtr(p.Type()) {
					out = append(out, call)
					return
				}
			}
		}
	})
	// direct appends of the scanned entry
	return out
}

func ruleMergeCommitted(c *Ctx) {
	merge := c.P.MustFunc("(*DB).Merge")
	c.touch(merge)
	ks := keeperCalls(c, merge)
	for i, k := range ks {
		var entry ssa.Value
		for _, a := range k.Call.Args {
			if isEntryPtr(a.Type()) {
				entry = a
			}
		}
		root, _ := splitPath(entry)
		committed := boolEdges(merge, true, func(x ssa.Value) bool {
			ex, ok := x.(*ssa.Extract)
			if !ok || ex.Index != 1 {
				return false
			}
			lk, ok := ex.Tuple.(*ssa.Lookup)
			if !ok || !lk.CommaOk || !isFieldLoad(lk.X, "DB", "committedTxIds") || !isFieldLoad(lk.Index, "MetaData", "txID") {
				return false
			}
			r, _ := splitPath(lk.Index)
			return r == root
		})
		c.Sites++
		okb := len(committed) > 0 && edgesDominateFeasible(merge, committed, k.Block())
		c.check(okb, fnName(merge), fmt.Sprintf("rewrite-set insertion #%d only for records of committed transactions", i+1), c.P.ipos(k),
			"the scanned record's txID is looked up in DB.committedTxIds before it can be kept", "a record is kept for rewriting without checking that its transaction committed: the rewrite stamps it with a new, committed transaction id, so data of a failed transaction is resurrected")
	}
	c.minInstances("rewrite-set insertions in Merge", len(ks), 1)
}

func ruleMergeIdemp(c *Ctx) {
	rf := gatherReplay(c)
	n := 0
	for _, ops := range rf.commit {
		for _, o := range ops {
			nonIdem := false
			switch fnName(o.callee) {
			case "(*list.List).LPush", "(*list.List).RPush":
				nonIdem = true
			}
			if !nonIdem {
				continue
			}
			n++
			c.touch(o.fn)
			c.Sites++
			// guard: !isMerging on some frame of the call context
			guarded := false
			var check func(fn *ssa.Function, blk *ssa.BasicBlock, depth int) bool
			check = func(fn *ssa.Function, blk *ssa.BasicBlock, depth int) bool {
				edges := boolEdges(fn, false, func(x ssa.Value) bool { return isFieldLoad(x, "DB", "isMerging") })
				if len(edges) > 0 && edgesDominate(fn, edges, blk) {
					return true
				}
				if depth > 3 {
					return false
				}
				sites := c.P.CallersOf(fn)
				if len(sites) == 0 {
					return false
				}
				for _, s := range sites {
					if !check(s.Parent(), s.Block(), depth+1) {
						return false
					}
				}
				return true
			}
			if o.fn.Name() != "Commit" || true {
				guarded = check(o.fn, o.call.Block(), 0)
			}
			c.check(guarded, "op "+codeName(c, o.ds, o.flag), "not re-applied to the in-memory index while merging", c.P.ipos(o.call), "",
				"the merge rewrite commits records that are already reflected in the in-memory list, and Commit applies "+fnName(o.callee)+" again: elements are duplicated in memory until the next reopen (and on disk both copies exist until the old segment is removed)")
		}
	}
	c.minInstances("non-idempotent commit-time appliers", n, 2)
}

var _ = strings.Contains

// ---------------------------------------------------------------------------
// R-MERGE-EVERY (C15, C16): Merge rewrites the live records of each listed segment into a new
// segment with a higher id and replay applies segments in ascending id order. That only
// preserves the order of effects if every listed segment is processed in turn: an iteration
// of the per-segment loop that reaches the next segment must have removed the current one.
// A segment that is skipped keeps its records at an id below records rewritten from older
// segments, so after the merge (and after reopen) older operations are applied last.

func ruleMergeEvery(c *Ctx) {
	m := c.P.MustFunc("(*DB).Merge")
	c.touch(m)
	var opens []ssa.CallInstruction
	calls(m, func(ci ssa.CallInstruction) {
		if calleeIs(ci.Common(), modPath, "", "NewDataFile") {
			opens = append(opens, ci)
		}
	})
	if len(opens) != 1 {
		c.undecided(fnName(m), "per-segment loop", "", fmt.Sprintf("expected one NewDataFile call in Merge, found %d", len(opens)))
		return
	}
	open := opens[0]
	isRemove := func(in ssa.Instruction) bool {
		cc := callOf(in)
		return cc != nil && cc.StaticCallee() != nil && cc.StaticCallee().String() == "os.Remove"
	}
	// the one segment that may stay is the one that is still the active file (R-MERGE-KEEPACTIVE): the edge on which
	// the scanned id equals DB.ActiveFile.fileID is not a way of skipping a removal
	keep := map[succEdge]bool{}
	for _, e := range activeFileEqualEdges(c, m) {
		keep[e] = true
	}
	w := findPath(m, open, func(in ssa.Instruction) bool { return in == ssa.Instruction(open) }, isRemove, func(b *ssa.BasicBlock, si int) bool { return keep[succEdge{b, si}] })
	if w == nil {
		// also make sure the open is inside a loop at all
		inLoop := blockInCycle(open.Block())
		c.check(inLoop, fnName(m), "every listed segment is rewritten and removed before the next one is opened", c.P.ipos(open), "", "the segment scan is not inside a loop over the listed segments")
		return
	}
	c.bad(fnName(m), "every listed segment is rewritten and removed before the next one is opened", c.P.ipos(open),
		"an iteration of the per-segment loop can reach the next segment without removing the current one: the skipped segment keeps its records at a lower id than records rewritten from older segments, so replay (and the in-memory index of the running process) applies older operations after newer ones", c.witnessOf(w)...)
}

// ---------------------------------------------------------------------------
// R-MERGE-NEWER (C15): Merge drops a scanned record when the index holds a newer record for the
// same key (its position is compared with the scan position). The lookup that supplies that
// index record must be independent of liveness: if it hides a newest record that is a tombstone
// or has expired, the superseded older record is taken for the newest one, rewritten as live
// and resurrected.

func ruleMergeNewer(c *Ctx) {
	m := c.P.MustFunc("(*DB).Merge")
	c.touch(m)
	del, _ := constIntVal(c.P.Const("DataDeleteFlag"))
	n := 0
	seen := map[*ssa.Function]bool{}
	// the comparison may sit in Merge itself or in a helper Merge calls with the looked-up record
	subjects := []*ssa.Function{m}
	calls(m, func(ci ssa.CallInstruction) {
		if cal := ci.Common().StaticCallee(); cal != nil && c.P.inModule(cal) && cal.Blocks != nil && cal.Pkg == c.P.Main {
			subjects = append(subjects, cal)
		}
	})
	for _, subj := range subjects {
		subj := subj
		instrs(subj, func(in ssa.Instruction) {
			b, ok := in.(*ssa.BinOp)
			if !ok {
				return
			}
			switch b.Op {
			case token.GTR, token.LSS, token.GEQ, token.LEQ, token.EQL, token.NEQ:
			default:
				return
			}
			for _, side := range []ssa.Value{b.X, b.Y} {
				if !(isFieldLoad(side, "Hint", "fileID") || isFieldLoad(side, "Hint", "dataPos")) {
					continue
				}
				root, _ := splitPath(side)
				if p, isParam := root.(*ssa.Parameter); isParam && subj != m {
					// the record is a parameter of the helper: take what Merge passes
					root = nil
					for _, s := range c.P.CallersOf(subj) {
						if s.Parent() == m {
							if idx := paramIndex(subj, p); idx < len(s.Common().Args) {
								root, _ = splitPath(s.Common().Args[idx])
							}
						}
					}
				} else if subj != m {
					continue
				}
				var call *ssa.Call
				switch r := root.(type) {
				case *ssa.Extract:
					call, _ = r.Tuple.(*ssa.Call)
				case *ssa.Call:
					call = r
				}
				if call == nil {
					continue
				}
				cal := call.Call.StaticCallee()
				if cal == nil || !c.P.inModule(cal) || seen[cal] {
					continue
				}
				seen[cal] = true
				n++
				// liveness tests in the cone of the lookup (the B+ tree itself excluded below Find)
				var offender ssa.Instruction
				var where *ssa.Function
				for _, g := range c.P.ModCone(cal) {
					instrs(g, func(in ssa.Instruction) {
						if offender != nil {
							return
						}
						if cc := callOf(in); cc != nil && (calleeIs(cc, modPath, "", "IsExpired") || calleeIs(cc, modPath, "Record", "IsExpired")) {
							offender, where = in, g
							return
						}
						if bo, ok := in.(*ssa.BinOp); ok && (bo.Op == token.EQL || bo.Op == token.NEQ) {
							for _, p := range [][2]ssa.Value{{bo.X, bo.Y}, {bo.Y, bo.X}} {
								if isFieldLoad(p[0], "MetaData", "Flag") {
									if k, ok := constInt(p[1]); ok && k == del {
										offender, where = in, g
									}
								}
							}
						}
					})
				}
				c.touch(cal)
				if offender != nil {
					c.bad(fnName(m), "the newer-record lookup ("+fnName(cal)+") is independent of liveness", c.P.ipos(offender),
						"the index lookup that Merge uses to recognise superseded records tests tombstones or expiry (in "+fnName(where)+"): when the newest record of a key is deleted or expired the lookup reports nothing, the older record is taken for the newest, rewritten with a fresh committed transaction id and comes back to life after the merge")
				} else {
					c.ok(fnName(m), "the newer-record lookup ("+fnName(cal)+") is independent of liveness", c.P.ipos(call), "")
				}
			}
		})
	}
	c.Sites += n
	c.minInstances("index lookups compared with the scan position in Merge", n, 1)
}

// ---------------------------------------------------------------------------
// R-MERGE-PRESERVE (C15, C03, C01): the merge rewrite re-emits every stored field of the record it
// keeps: each argument of the gate call in the rewrite step is a load of the corresponding field of
// the entry being rewritten (bucket, key, value, TTL, flag, timestamp, data structure). A rewrite that
// substitutes anything (e.g. the current time for the stored timestamp) changes expiry or meaning.

func ruleMergePreserve(c *Ctx) {
	gate, _, _ := findPutGate(c)
	merge := c.P.MustFunc("(*DB).Merge")
	// gate parameters by name -> expected record leaf
	want := map[string]string{"bucket": "BUCKET", "key": "KEY", "value": "VALUE", "ttl": "TTL", "flag": "FLAG", "timestamp": "TIMESTAMP", "ds": "DS"}
	rc := &recipeCtx{p: c.P}
	n := 0
	for _, f := range c.P.ModCone(merge) {
		if f.Pkg != c.P.Main || isTxMethod(f) {
			continue
		}
		calls(f, func(ci ssa.CallInstruction) {
			args := ci.Common().Args
			if cal := ci.Common().StaticCallee(); cal != gate {
				// a Tx method that forwards to the gate (put -> putWithTimestamp): what reaches the gate is the
				// caller's argument where the wrapper passes its parameter on, the wrapper's own value otherwise
				if cal == nil || !isTxMethod(cal) || len(cal.Blocks) == 0 {
					return
				}
				var inner ssa.CallInstruction
				calls(cal, func(wi ssa.CallInstruction) {
					if wi.Common().StaticCallee() == gate && inner == nil {
						inner = wi
					}
				})
				if inner == nil {
					return
				}
				var mapped []ssa.Value
				for _, a := range inner.Common().Args {
					if prm, ok := resolve1(stripConv(a)).(*ssa.Parameter); ok && prm.Parent() == cal {
						if pi := paramIndex(cal, prm); pi >= 0 && pi < len(args) {
							mapped = append(mapped, args[pi])
							continue
						}
					}
					mapped = append(mapped, a)
				}
				args = mapped
			}
			n++
			c.touch(f)
			var entryRoot string
			for i, p := range gate.Params {
				if i == 0 || i >= len(args) {
					continue
				}
				leaf, ok := want[strings.ToLower(p.Name())]
				if !ok {
					continue
				}
				got := rc.recipe(args[i], 0)
				root, _ := splitPath(args[i])
				rname := ""
				if root != nil {
					rname = root.Name()
				}
				same := got == leaf
				if same {
					if entryRoot == "" {
						entryRoot = rname
					} else if entryRoot != rname {
						same = false
					}
				}
				c.check(same, fnName(f), fmt.Sprintf("rewrite call #%d passes the stored %s unchanged", n, strings.ToLower(leaf)), c.P.ipos(ci), "",
					fmt.Sprintf("the merge rewrite passes %s where the stored %s of the record being rewritten is expected: the rewritten record differs from the original (a fresh timestamp restarts the TTL, another flag or structure changes its meaning)", got, strings.ToLower(leaf)))
			}
		})
	}
	c.Sites += n
	c.minInstances("gate calls in the merge rewrite step", n, 1)
}

// ---------------------------------------------------------------------------
// R-MERGE-KEEPORDER (C15, C07): the rewrite set of a segment is built by appending the scanned
// entries in scan (= log) order. A keeper that replaces or moves an element already collected changes
// the order in which the rewritten records are replayed, which matters for every operation whose
// result depends on its predecessors (score changes, list edits).

func ruleMergeKeepOrder(c *Ctx) {
	merge := c.P.MustFunc("(*DB).Merge")
	commitCone := map[*ssa.Function]bool{}
	for _, f := range c.P.ModCone(c.P.MustFunc("(*Tx).Commit"), c.P.MustFunc("(*DB).Begin")) {
		commitCone[f] = true
	}
	n := 0
	for _, f := range c.P.ModCone(merge) {
		if f.Pkg != c.P.Main || commitCone[f] {
			continue
		}
		k := 0
		instrs(f, func(in ssa.Instruction) {
			st, ok := in.(*ssa.Store)
			if !ok {
				return
			}
			ia, ok := st.Addr.(*ssa.IndexAddr)
			if !ok || !isEntrySliceType(ia.X.Type()) {
				return
			}
			// the variadic pack of an append is a fresh array, not the rewrite set
			if _, isArr := ia.X.Type().Underlying().(*types.Slice); !isArr {
				return
			}
			n++
			k++
			c.touch(f)
			c.bad(fnName(f), fmt.Sprintf("element store #%d into an entry slice", k), c.P.ipos(st),
				"an element of the rewrite set is overwritten in place: the rewritten records no longer follow the order of the log, so operations whose effect depends on earlier ones (re-scoring a member, list edits) are replayed in the wrong order after the merge")
		})
	}
	// appends examined (the only accepted way to grow the set)
	na := 0
	for _, f := range c.P.ModCone(merge) {
		if f.Pkg != c.P.Main || commitCone[f] {
			continue
		}
		calls(f, func(ci ssa.CallInstruction) {
			if bi, ok := ci.Common().Value.(*ssa.Builtin); ok && bi.Name() == "append" {
				if v, ok := ci.(ssa.Value); ok && isEntrySliceType(v.Type()) {
					na++
				}
			}
		})
	}
	c.Sites += n + na
	if n == 0 {
		c.ok(fnName(merge), "the rewrite set is only appended to", "", fmt.Sprintf("%d appends, no element store", na))
	}
	c.minInstances("appends to the rewrite set in the Merge cone", na, 2)
}

// R-MERGE-KVONLY (C15 C04 C05 C06 C07): "a newer record of this bucket and key exists" is a statement about the
// key/value index. Merge may use it to drop a scanned record only if that record is a key/value record: list,
// set and sorted-set records live in their own name spaces, and a key/value pair with the same bucket name and
// key in a later segment says nothing about them. Every comparison of the scan position with the Hint of a
// record looked up in the key/value index must therefore be dominated by ds == DataStructureBPTree of the
// scanned entry (in Merge, or at Merge's call of the helper that compares).
func ruleMergeKVOnly(c *Ctx) {
	m := c.P.MustFunc("(*DB).Merge")
	c.touch(m)
	kv, ok := constIntVal(c.P.Const("DataStructureBPTree"))
	if !ok {
		c.undecided("DataStructureBPTree", "constant present", "", "constant not found")
		return
	}
	dsEdges := func(f *ssa.Function) []succEdge {
		return eqEdges(f, true, func(x, y ssa.Value) bool {
			k, ok := constInt(y)
			return ok && k == kv && isFieldLoad(x, "MetaData", "ds")
		})
	}
	subjects := []*ssa.Function{m}
	calls(m, func(ci ssa.CallInstruction) {
		if cal := ci.Common().StaticCallee(); cal != nil && c.P.inModule(cal) && cal.Blocks != nil && cal.Pkg == c.P.Main {
			subjects = append(subjects, cal)
		}
	})
	n := 0
	done := map[*ssa.BasicBlock]bool{}
	for _, subj := range subjects {
		subj := subj
		instrs(subj, func(in ssa.Instruction) {
			b, ok := in.(*ssa.BinOp)
			if !ok {
				return
			}
			switch b.Op {
			case token.GTR, token.LSS, token.GEQ, token.LEQ, token.EQL, token.NEQ:
			default:
				return
			}
			hit := false
			for _, side := range []ssa.Value{b.X, b.Y} {
				if isFieldLoad(stripConv(side), "Hint", "fileID") || isFieldLoad(stripConv(side), "Hint", "dataPos") {
					hit = true
				}
			}
			if !hit || done[b.Block()] {
				return
			}
			done[b.Block()] = true
			n++
			okk := false
			if e := dsEdges(subj); len(e) > 0 && edgesDominate(subj, e, b.Block()) {
				okk = true
			}
			if !okk && subj != m {
				all := true
				cnt := 0
				for _, s := range c.P.CallersOf(subj) {
					if s.Parent() != m {
						continue
					}
					cnt++
					if e := dsEdges(m); !(len(e) > 0 && edgesDominate(m, e, s.Block())) {
						all = false
					}
				}
				okk = all && cnt > 0
			}
			c.touch(subj)
			c.check(okk, fnName(subj), fmt.Sprintf("position comparison #%d with the key/value index applies to key/value records only", n), c.P.ipos(in), "",
				"the scanned record is compared with the position of the record the KEY/VALUE index holds for its bucket and key, whatever its data structure: a set, list or sorted-set record whose bucket name and key coincide with a key/value pair written to a later segment is judged superseded and dropped with its segment - the member is gone after Merge and reopen")
		})
	}
	c.Sites += n
	c.minInstances("comparisons of the scan position with an index hint in Merge", n, 2)
}

// R-MERGE-KEEPACTIVE (C15 C10 C11): Merge never unlinks the segment that is still the active file. The rewrite
// step moves the active file on to a fresh segment only when it has something to rewrite; if every scanned record
// is dead, the last listed segment is still DB.ActiveFile when its turn comes. Removing it leaves the database
// appending to an unlinked file: every later commit that fits in it is gone after the next reopen. Every
// os.Remove in Merge's per-segment loop must therefore be dominated by the not-equal edge of a comparison with
// DB.ActiveFile.fileID (directly, or through a one-line predicate that makes that comparison).
func ruleMergeKeepActive(c *Ctx) {
	m := c.P.MustFunc("(*DB).Merge")
	c.touch(m)
	isActiveID := func(x ssa.Value) bool {
		fv, base := lastField(stripConv(x))
		return fv != nil && fv.Name() == "fileID" && base != nil && isFieldLoad(base, "DB", "ActiveFile")
	}
	neq := eqEdges(m, false, func(x, y ssa.Value) bool { return isActiveID(x) })
	// a predicate helper: a module function with a bool result whose body compares with ActiveFile.fileID
	for _, val := range []bool{true, false} {
		val := val
		neq = append(neq, boolEdges(m, val, func(x ssa.Value) bool {
			call, ok := x.(*ssa.Call)
			if !ok {
				return false
			}
			cal := call.Call.StaticCallee()
			if cal == nil || !c.P.inModule(cal) || cal.Blocks == nil {
				return false
			}
			found := false
			instrs(cal, func(in ssa.Instruction) {
				if b, ok := in.(*ssa.BinOp); ok && (b.Op == token.EQL && !val || b.Op == token.NEQ && val) && (isActiveID(b.X) || isActiveID(b.Y)) {
					found = true
				}
			})
			return found
		})...)
	}
	n := 0
	calls(m, func(ci ssa.CallInstruction) {
		cc := ci.Common()
		cal := cc.StaticCallee()
		if cal == nil || cal.String() != "os.Remove" || !blockInCycle(ci.Block()) {
			return
		}
		n++
		c.check(len(neq) > 0 && edgesDominate(m, neq, ci.Block()), "(*DB).Merge", fmt.Sprintf("segment removal #%d spares the segment that is still the active file", n), c.P.ipos(ci), "",
			"the per-segment loop removes every listed segment, the last of which is DB.ActiveFile unless a rewrite moved the active file on: when no scanned record is live (every key deleted or expired) nothing is rewritten, the active segment is unlinked, and the database keeps appending to the unlinked file - commits made after the Merge are gone after the next reopen")
	})
	c.Sites += n
	c.minInstances("segment removals in Merge's loop", n, 1)
}

// activeFileEqualEdges: edges of f on which a segment id is known to EQUAL DB.ActiveFile.fileID (a direct comparison,
// or the answer of a predicate helper that makes it).
func activeFileEqualEdges(c *Ctx, f *ssa.Function) []succEdge {
	isActiveID := func(x ssa.Value) bool {
		fv, base := lastField(stripConv(x))
		return fv != nil && fv.Name() == "fileID" && base != nil && isFieldLoad(base, "DB", "ActiveFile")
	}
	out := eqEdges(f, true, func(x, y ssa.Value) bool { return isActiveID(x) })
	for _, val := range []bool{true, false} {
		val := val
		out = append(out, boolEdges(f, val, func(x ssa.Value) bool {
			call, ok := x.(*ssa.Call)
			if !ok {
				return false
			}
			cal := call.Call.StaticCallee()
			if cal == nil || !c.P.inModule(cal) || cal.Blocks == nil {
				return false
			}
			found := false
			instrs(cal, func(in ssa.Instruction) {
				if b, ok := in.(*ssa.BinOp); ok && (b.Op == token.EQL && val || b.Op == token.NEQ && !val) && (isActiveID(b.X) || isActiveID(b.Y)) {
					found = true
				}
			})
			return found
		})...)
	}
	return out
}
