package main

// R-NILMAP: a map-valued field of DB that some function sets to nil is written only where it cannot be nil.
//
// Open drops DB.committedTxIds (assigns nil) at the end of the sparse-mode index rebuild: that mode keeps
// committed ids in the on-disk tx-id trees. A store into the field therefore has to sit (a) behind a test of
// the same option value that excludes the mode in which the map was dropped, (b) behind a != nil test of the
// field, or (c) after a make() of the field in the same function. Otherwise the first Commit after reopening
// such a directory panics with "assignment to entry in nil map" - records written, write lock held.

import (
	"fmt"
	"go/token"
	"go/types"

	"golang.org/x/tools/go/ssa"
)

func ruleNilMap(c *Ctx) {
	dbT := c.P.Named("", "DB")
	if dbT == nil {
		c.undecided("DB", "type present", "", "type DB not found")
		return
	}
	isDBField := func(v ssa.Value) *types.Var {
		fv, base := lastField(v)
		if fv == nil || base == nil || namedOf(base.Type()) != dbT {
			return nil
		}
		if _, ok := fv.Type().Underlying().(*types.Map); !ok {
			return nil
		}
		return fv
	}
	// mode guard of an instruction: (constant K, eq) such that EntryIdxMode ==/!= K is established where it runs
	modeEdges := func(f *ssa.Function, k int64, eq bool) []succEdge {
		return eqEdges(f, eq, func(x, y ssa.Value) bool {
			kv, ok := constInt(y)
			return ok && kv == k && isFieldLoad(x, "Options", "EntryIdxMode")
		})
	}
	modeConsts := []int64{}
	for _, name := range []string{"HintKeyValAndRAMIdxMode", "HintKeyAndRAMIdxMode", "HintBPTSparseIdxMode"} {
		if k := c.P.Const(name); k != nil {
			if v, ok := constInt(ssa.NewConst(k.Val(), k.Type())); ok {
				modeConsts = append(modeConsts, v)
			}
		}
	}
	guardOf := func(f *ssa.Function, b *ssa.BasicBlock) (int64, bool) {
		for _, k := range modeConsts {
			if e := modeEdges(f, k, true); len(e) > 0 && edgesDominate(f, e, b) {
				return k, true
			}
		}
		return 0, false
	}
	// 1. nil stores that survive (not overwritten in the same block)
	type drop struct {
		fv    *types.Var
		in    *ssa.Store
		k     int64
		known bool
	}
	var drops []drop
	for _, f := range c.P.SrcFuncs {
		if f.Pkg != c.P.Main || fnName(f) == "(*DB).Close" {
			continue // tear-down: nothing runs on a closed DB (R-CLOSED, R-DBCLOSED)
		}
		for _, b := range f.Blocks {
			for i, in := range b.Instrs {
				st, ok := in.(*ssa.Store)
				if !ok || !isNilConst(st.Val) {
					continue
				}
				fa, ok := st.Addr.(*ssa.FieldAddr)
				if !ok {
					continue
				}
				fv := isDBField(fa)
				if fv == nil {
					continue
				}
				killed := false
				for _, later := range b.Instrs[i+1:] {
					if st2, ok := later.(*ssa.Store); ok && !isNilConst(st2.Val) {
						if fa2, ok := st2.Addr.(*ssa.FieldAddr); ok && isDBField(fa2) == fv {
							killed = true
						}
					}
				}
				if killed {
					continue
				}
				d := drop{fv: fv, in: st}
				if k, ok := guardOf(f, b); ok {
					d.k, d.known = k, true
				} else {
					// one level up: every call site of f is under the same mode test
					sites := c.P.CallersOf(f)
					all := len(sites) > 0
					var kk int64
					for i, s := range sites {
						k, ok := guardOf(s.Parent(), s.Block())
						if !ok || (i > 0 && k != kk) {
							all = false
							break
						}
						kk = k
					}
					if all {
						d.k, d.known = kk, true
					}
				}
				drops = append(drops, d)
			}
		}
	}
	if len(drops) == 0 {
		c.ok("DB", "no map field is ever set to nil", "", "nothing to check")
		c.minInstances("map fields of DB that are dropped", 0, 1)
		return
	}
	n := 0
	for _, f := range c.P.SrcFuncs {
		if f.Pkg != c.P.Main || len(f.Blocks) == 0 {
			continue
		}
		k := 0
		instrs(f, func(in ssa.Instruction) {
			mu, ok := in.(*ssa.MapUpdate)
			if !ok {
				return
			}
			fv := isDBField(mu.Map)
			if fv == nil {
				return
			}
			for _, d := range drops {
				if d.fv != fv {
					continue
				}
				n++
				k++
				c.touch(f)
				okk := false
				why := ""
				// (b) != nil test of the field
				if e := nilEdges(f, false, func(x ssa.Value) bool { return isDBField(x) == fv }); len(e) > 0 && edgesDominate(f, e, in.Block()) {
					okk, why = true, "behind a != nil test"
				}
				// (c) make() stored into the field earlier in this function, dominating
				if !okk {
					instrs(f, func(j ssa.Instruction) {
						if st, ok := j.(*ssa.Store); ok {
							if _, isMake := st.Val.(*ssa.MakeMap); isMake {
								if fa, ok := st.Addr.(*ssa.FieldAddr); ok && isDBField(fa) == fv && st.Block().Dominates(in.Block()) && st.Block() != in.Block() {
									okk, why = true, "after make()"
								}
							}
						}
					})
				}
				// (a) the mode in which the map was dropped is excluded here
				if !okk && d.known {
					if e := modeEdges(f, d.k, false); len(e) > 0 && edgesDominate(f, e, in.Block()) {
						okk, why = true, "the mode that drops the map is excluded"
					}
				}
				c.check(okk, fnName(f), fmt.Sprintf("store #%d into DB.%s cannot hit the nil map left by %s", k, fv.Name(), fnName(d.in.Parent())), c.P.ipos(in), why,
					fmt.Sprintf("DB.%s is set to nil at %s (the sparse-mode rebuild in Open drops it) and this store is reached in that configuration too - no test of EntryIdxMode excluding it, no != nil test, no make() before: the first Commit after reopening such a directory panics with 'assignment to entry in nil map', after its records were written and with the write lock held", fv.Name(), c.P.ipos(d.in)))
			}
		})
	}
	_ = token.NoPos
	c.Sites += n
	c.minInstances("stores into a map field of DB that is dropped somewhere", n, 1)
}
