package main

import (
	"fmt"
	"go/types"
	"sort"
	"strings"

	"golang.org/x/tools/go/ssa"
)

// ---------------------------------------------------------------------------
// R-LOGGED: an API call that reports success has enqueued its whole operation.
//
// For every Tx method that can reach the pending-write gate (and is not the gate or one of
// the variadic fan-out wrappers around it): each call site that leads to the gate lies on
// every path from the entry to every return whose error result may be nil. So (a) no
// success path skips logging, and (b) a multi-record operation (SMove = add + remove) can
// not succeed with only part of its records logged. The decision whether to log may depend
// on committed state only through an error return.
//
// R-LOGPURE: the record an API enqueues is a function of the call's own arguments: the
// key/value arguments at the gate-reaching call site do not depend on committed index state
// (loads through tx.db, results of module calls on the transaction). Operations are applied
// at commit, in call order, to the state left by the earlier operations of the transaction;
// an offset or size baked in from the committed state at call time is stale whenever an
// earlier operation of the same transaction changed it. Exception: the pop operations log
// (or return) the element they chose from the committed state.

func gateReaching(c *Ctx) (gate *ssa.Function, reach map[*ssa.Function]bool) {
	gate, _, _ = findPutGate(c)
	reach = map[*ssa.Function]bool{}
	for _, f := range c.P.SrcFuncs {
		if f == gate || !c.P.inModule(f) {
			continue
		}
		if c.P.Cone(nil, f)[gate] {
			reach[f] = true
		}
	}
	return
}

func isTxMethod(f *ssa.Function) bool {
	if f.Signature.Recv() == nil {
		return false
	}
	n := namedOf(f.Signature.Recv().Type())
	return n != nil && n.Obj().Name() == "Tx" && n.Obj().Pkg() != nil && n.Obj().Pkg().Path() == modPath
}

func blockInCycle(b *ssa.BasicBlock) bool {
	for _, s := range b.Succs {
		if reachFrom(s, nil)[b] {
			return true
		}
	}
	return false
}

func loggedSubjects(c *Ctx) (gate *ssa.Function, subs []*ssa.Function, sitesOf map[*ssa.Function][]ssa.CallInstruction) {
	gate, reach := gateReaching(c)
	sitesOf = map[*ssa.Function][]ssa.CallInstruction{}
	// Tx methods reachable from an exported Tx method (or exported themselves), excluding the commit path
	var roots []*ssa.Function
	for _, m := range c.P.Methods(c.P.Named("", "Tx")) {
		if m.Object() != nil && m.Object().Exported() && m.Name() != "Commit" && m.Name() != "Rollback" {
			roots = append(roots, m)
		}
	}
	cone := c.P.Cone(nil, roots...)
	for f := range cone {
		if !reach[f] || !isTxMethod(f) {
			continue
		}
		calls(f, func(ci ssa.CallInstruction) {
			for _, cal := range c.P.Callees(ci) {
				if cal == gate || reach[cal] {
					sitesOf[f] = append(sitesOf[f], ci)
					return
				}
			}
		})
		if len(sitesOf[f]) > 0 {
			subs = append(subs, f)
		}
	}
	sort.Slice(subs, func(i, j int) bool { return fnKey(subs[i]) < fnKey(subs[j]) })
	return
}

func ruleLogged(c *Ctx) {
	_, subs, sitesOf := loggedSubjects(c)
	n := 0
	for _, f := range subs {
		c.touch(f)
		errIdx := errResultIndex(f)
		if errIdx < 0 {
			c.undecided(fnName(f), "has an error result", c.P.pos(f.Pos()), "a gate-reaching Tx method without an error result cannot report a refused write")
			continue
		}
		var succ []*ssa.Return
		for _, r := range returnsOf(f) {
			if classifyRetOperand(r, errIdx) != retNonNil {
				succ = append(succ, r)
			}
		}
		for i, s := range sitesOf[f] {
			n++
			detail := fmt.Sprintf("log site #%d (%s) is passed on every success path", i+1, calleeName(s.Common()))
			// fan-out wrapper: the site sits in a loop over the variadic parameter and no success return is inside the loop
			if f.Signature.Variadic() && blockInCycle(s.Block()) {
				inside := false
				for _, r := range succ {
					if blockInCycle(r.Block()) {
						inside = true
					}
				}
				if !inside {
					c.ok(fnName(f), detail, c.P.ipos(s), "variadic fan-out wrapper: one record per element of the variadic argument")
					continue
				}
			}
			var witness []ssa.Instruction
			for _, r := range succ {
				// a return whose error operand is the site's own result passes the site by construction
				w := findPath(f, nil, func(in ssa.Instruction) bool { return in == ssa.Instruction(r) }, func(in ssa.Instruction) bool { return in == ssa.Instruction(s) }, nil)
				if w != nil {
					witness = w
					break
				}
			}
			if witness != nil {
				c.bad(fnName(f), detail, c.P.ipos(s), "a path returns a nil error without passing this call: the API reports success although (part of) its operation was never enqueued, so commit, rollback, reopen and the other records of the same operation disagree about it", c.witnessOf(witness)...)
			} else {
				c.ok(fnName(f), detail, c.P.ipos(s), fmt.Sprintf("%d success return(s)", len(succ)))
			}
		}
	}
	c.Sites += n
	c.minInstances("gate-reaching call sites in Tx methods", n, 18)
}

// stateDependence walks the backward data slice of v inside fn and returns a description of the
// first dependence on committed state, or "".
func stateDependence(c *Ctx, fn *ssa.Function, v ssa.Value) string {
	seen := map[ssa.Value]bool{}
	var found string
	var walk func(v ssa.Value, depth int)
	walk = func(v ssa.Value, depth int) {
		if v == nil || found != "" || seen[v] || depth > 40 {
			return
		}
		seen[v] = true
		switch x := v.(type) {
		case *ssa.Parameter, *ssa.Const, *ssa.Global, *ssa.Builtin, *ssa.Function:
			return
		case *ssa.FieldAddr:
			if fv := fieldVarOf(x); fv != nil && fv.Name() == "db" && namedIs(derefT(x.X.Type()), "Tx") {
				found = "a load through tx.db at " + c.P.pos(x.Pos())
				return
			}
		case *ssa.Field:
			// value-typed field read
		case *ssa.Alloc:
			// local variable / buffer: everything stored into it or passed to a method on it
			for _, r := range *x.Referrers() {
				switch y := r.(type) {
				case *ssa.Store:
					if y.Addr == ssa.Value(x) {
						walk(y.Val, depth+1)
					}
				case ssa.CallInstruction:
					cc := y.Common()
					for _, a := range cc.Args {
						if a != ssa.Value(x) {
							walk(a, depth+1)
						}
					}
				case *ssa.FieldAddr, *ssa.IndexAddr:
					for _, rr := range *r.(ssa.Value).Referrers() {
						if st, ok := rr.(*ssa.Store); ok {
							walk(st.Val, depth+1)
						}
					}
				}
			}
			return
		case *ssa.Call:
			cal := x.Call.StaticCallee()
			if cal != nil && c.P.inModule(cal) {
				// a module function called on the transaction or on database state
				for _, a := range x.Call.Args {
					t := derefT(a.Type())
					if namedIs(t, "Tx") || namedIs(t, "DB") {
						found = "the result of " + fnName(cal) + " at " + c.P.pos(x.Pos())
						return
					}
				}
			}
			if cal == nil && x.Call.IsInvoke() {
				found = "the result of an interface call at " + c.P.pos(x.Pos())
				return
			}
		case *ssa.Lookup, *ssa.Next, *ssa.Range:
			// map iteration / lookup: only state if its operand is (handled by walking operands)
		}
		if in, ok := v.(ssa.Instruction); ok {
			for _, op := range in.Operands(nil) {
				if *op != nil {
					walk(*op, depth+1)
				}
			}
		}
	}
	walk(v, 0)
	return found
}

func ruleLogPure(c *Ctx) {
	gate, subs, sitesOf := loggedSubjects(c)
	_ = gate
	n := 0
	for _, f := range subs {
		pop := strings.Contains(f.Name(), "Pop")
		for i, s := range sitesOf[f] {
			args := s.Common().Args
			if s.Common().StaticCallee() != nil && s.Common().StaticCallee().Signature.Recv() != nil && len(args) > 0 {
				args = args[1:]
			}
			for ai, a := range args {
				// only byte/string payload arguments (bucket, key, value, items); flags, ttl, timestamps are scalars
				if !isBytesOrStringOrSliceOfBytes(a.Type()) {
					continue
				}
				n++
				c.touch(f)
				detail := fmt.Sprintf("log site #%d (%s) argument #%d depends only on the call's arguments", i+1, calleeName(s.Common()), ai+1)
				dep := stateDependence(c, f, a)
				switch {
				case dep == "":
					c.ok(fnName(f), detail, c.P.ipos(s), "")
				case pop:
					c.ok(fnName(f), detail, c.P.ipos(s), "pop operation: logs the element it chose from the committed state ("+dep+")")
				default:
					c.bad(fnName(f), detail, c.P.ipos(s), "the logged payload depends on "+dep+": operations are applied at commit to the state left by the earlier operations of the same transaction, so a value resolved against the committed state at call time is stale (and is what gets persisted and replayed)")
				}
			}
		}
	}
	c.Sites += n
	c.minInstances("payload arguments at gate-reaching call sites", n, 30)
}

func isBytesOrStringOrSliceOfBytes(t types.Type) bool {
	switch u := t.Underlying().(type) {
	case *types.Basic:
		return u.Kind() == types.String
	case *types.Slice:
		if b, ok := u.Elem().Underlying().(*types.Basic); ok && b.Kind() == types.Byte {
			return true
		}
		if s, ok := u.Elem().Underlying().(*types.Slice); ok {
			if b, ok := s.Elem().Underlying().(*types.Basic); ok && b.Kind() == types.Byte {
				return true
			}
		}
	}
	return false
}
