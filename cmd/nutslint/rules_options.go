package main

import (
	"fmt"
	"go/token"
	"go/types"

	"golang.org/x/tools/go/ssa"
)

// ---------------------------------------------------------------------------
// C19: storage options influence nothing but which RWManager runs and whether it syncs

// exclusiveRegion: blocks reachable from edge (b,si) that are dominated by that edge.
func exclusiveRegion(fn *ssa.Function, e succEdge) []*ssa.BasicBlock {
	var out []*ssa.BasicBlock
	start := e.b.Succs[e.si]
	for b := range reachFrom(start, nil) {
		if edgesDominate(fn, []succEdge{e}, b) {
			out = append(out, b)
		}
	}
	return out
}

// regionOnlySyncs: the region contains nothing with an effect except sync calls, error tests and returns.
func regionOnlySyncs(c *Ctx, blocks []*ssa.BasicBlock) (bool, ssa.Instruction) {
	a := &syncAnalysis{c: c, p: c.P, inCone: map[*ssa.Function]bool{}, sum: map[*ssa.Function]*syncSummary{}}
	for _, b := range blocks {
		for _, in := range b.Instrs {
			switch x := in.(type) {
			case *ssa.Store, *ssa.MapUpdate:
				if st, ok := x.(*ssa.Store); ok {
					if al, ok := st.Addr.(*ssa.Alloc); ok && !al.Heap {
						continue // local variable (err)
					}
				}
				return false, in
			case ssa.CallInstruction:
				cc := x.Common()
				isSync := false
				for _, e := range a.events(x.Parent()) {
					if e.in == in && !e.write {
						isSync = true
					}
				}
				if isSync || calleeIs(cc, modPath, "DataFile", "Sync") {
					continue
				}
				if _, isB := cc.Value.(*ssa.Builtin); isB {
					continue
				}
				if cal := cc.StaticCallee(); cal != nil && (cal.String() == "fmt.Errorf" || cal.String() == "errors.New") {
					continue
				}
				return false, in
			}
		}
	}
	return true, nil
}

func ruleFlagUse(c *Ctx) {
	n := 0
	// SyncEnable
	for _, f := range c.P.SrcFuncs {
		if f.Pkg != c.P.Main {
			continue
		}
		k := 0
		instrs(f, func(in ssa.Instruction) {
			v, ok := in.(ssa.Value)
			if !ok || !isSyncEnableLoad(v) {
				return
			}
			if _, isLoad := in.(*ssa.UnOp); !isLoad {
				return
			}
			for _, r := range *v.Referrers() {
				k++
				n++
				c.touch(f)
				det := fmt.Sprintf("use #%d of Options.SyncEnable", k)
				switch x := r.(type) {
				case *ssa.If:
					reg := exclusiveRegion(f, succEdge{x.Block(), 0})
					okb, bad := regionOnlySyncs(c, reg)
					msg := ""
					if bad != nil {
						msg = "the branch taken when SyncEnable is set does more than syncing: " + c.P.ipos(bad) + " " + shortInstr(bad)
					}
					c.check(okb, fnName(f), det+" only guards a sync", c.P.ipos(x), "", msg)
				case *ssa.UnOp:
					// !SyncEnable: the negated flag may only guard a sync too (rotate-time flush for mmap)
					for _, rr := range *x.Referrers() {
						if iff, ok := rr.(*ssa.If); ok {
							reg := exclusiveRegion(f, succEdge{iff.Block(), 0})
							// the region may contain a further option test; it must still only sync
							okb, bad := regionOnlySyncsOrTests(c, f, reg)
							msg := ""
							if bad != nil {
								msg = "the branch taken when SyncEnable is clear does more than syncing: " + c.P.ipos(bad) + " " + shortInstr(bad)
							}
							c.check(okb, fnName(f), det+" (negated) only guards a sync", c.P.ipos(iff), "", msg)
						}
					}
				case ssa.CallInstruction:
					// passed as a sync flag: R-FLAGBIND checks the receiving parameter guards a sync only
					cal := x.Common().StaticCallee()
					okb := false
					if cal != nil && c.P.inModule(cal) {
						for i, a := range x.Common().Args {
							if a == v && i < len(cal.Params) {
								okb = paramOnlyGuardsSync(c, cal, cal.Params[i], 0)
							}
						}
					}
					c.check(okb, fnName(f), det+" is passed on as a sync flag", c.P.ipos(x), "", "Options.SyncEnable is passed to a parameter that controls more than syncing")
				default:
					c.bad(fnName(f), det+" only guards a sync", c.P.ipos(r), "Options.SyncEnable is used for something other than deciding whether to sync: "+shortInstr(r))
				}
			}
		})
	}
	c.minInstances("uses of Options.SyncEnable", n, 6)
	// RWMode / StartFileLoadingMode: RWMode-typed values are only passed along or compared where the manager is chosen / a sync is guarded
	rwT := c.P.Named("", "RWMode")
	m := 0
	for _, f := range c.P.SrcFuncs {
		if f.Pkg != c.P.Main {
			continue
		}
		ctor := false
		calls(f, func(ci ssa.CallInstruction) {
			if cal := ci.Common().StaticCallee(); cal != nil && isRWCtor(c, cal) {
				ctor = true
			}
		})
		k := 0
		instrs(f, func(in ssa.Instruction) {
			b, ok := in.(*ssa.BinOp)
			if !ok || (b.Op != token.EQL && b.Op != token.NEQ) {
				return
			}
			if !types.Identical(b.X.Type(), rwT) {
				return
			}
			k++
			m++
			c.touch(f)
			det := fmt.Sprintf("comparison #%d of an RWMode value", k)
			if ctor {
				c.ok(fnName(f), det+" selects the RWManager implementation", c.P.ipos(in), "")
				return
			}
			okAll := true
			var badI ssa.Instruction
			var users []ssa.Instruction
			for _, r := range *b.Referrers() {
				// `flush := !sync && mode == MMap; if flush {...}`: the comparison is materialised in a
				// short-circuit phi whose only other inputs are the constant false
				if ph, isPhi := r.(*ssa.Phi); isPhi && b.Op == token.EQL {
					onlyFalse := true
					for _, e := range ph.Edges {
						if e == ssa.Value(b) {
							continue
						}
						if bv, isC := constBool(e); !isC || bv {
							onlyFalse = false
						}
					}
					if onlyFalse {
						for _, rr := range *ph.Referrers() {
							if _, isDbg := rr.(*ssa.DebugRef); !isDbg {
								users = append(users, rr)
							}
						}
						continue
					}
				}
				users = append(users, r)
			}
			for _, r := range users {
				iff, isIf := r.(*ssa.If)
				if !isIf {
					okAll = false
					badI = r
					continue
				}
				si := 0
				if b.Op == token.NEQ {
					si = 1
				}
				okb, bad := regionOnlySyncs(c, exclusiveRegion(f, succEdge{iff.Block(), si}))
				if !okb {
					okAll = false
					badI = bad
				}
			}
			msg := ""
			if badI != nil {
				msg = "the RWMode option influences more than the choice of RWManager or a sync: " + c.P.ipos(badI) + " " + shortInstr(badI)
			}
			c.check(okAll, fnName(f), det+" only guards a sync", c.P.ipos(in), "", msg)
		})
	}
	c.minInstances("comparisons of RWMode values", m, 3)
}

func regionOnlySyncsOrTests(c *Ctx, f *ssa.Function, blocks []*ssa.BasicBlock) (bool, ssa.Instruction) {
	return regionOnlySyncs(c, blocks)
}

// paramOnlyGuardsSync: bool parameter p of fn is used only as an If condition guarding syncs, or passed on likewise.
func paramOnlyGuardsSync(c *Ctx, fn *ssa.Function, p *ssa.Parameter, depth int) bool {
	if depth > 4 || p.Referrers() == nil {
		return false
	}
	for _, r := range *p.Referrers() {
		switch x := r.(type) {
		case *ssa.If:
			okb, _ := regionOnlySyncs(c, exclusiveRegion(fn, succEdge{x.Block(), 0}))
			if !okb {
				return false
			}
		case ssa.CallInstruction:
			cal := x.Common().StaticCallee()
			if cal == nil || !c.P.inModule(cal) {
				return false
			}
			for i, a := range x.Common().Args {
				if a == ssa.Value(p) && i < len(cal.Params) && !paramOnlyGuardsSync(c, cal, cal.Params[i], depth+1) {
					return false
				}
			}
		case *ssa.DebugRef:
		default:
			return false
		}
	}
	return true
}

// ruleRWParity: both RWManager implementations are opened over the same file in the same way.
func ruleRWParity(c *Ctx) {
	rc := &recipeCtx{p: c.P}
	type ctorFacts struct {
		fn    *ssa.Function
		open  string
		trunc string
	}
	var cs []ctorFacts
	for _, f := range c.P.SrcFuncs {
		if f.Pkg != c.P.Main || !isRWCtor(c, f) {
			continue
		}
		c.touch(f)
		cf := ctorFacts{fn: f}
		calls(f, func(ci ssa.CallInstruction) {
			cc := ci.Common()
			if cal := cc.StaticCallee(); cal != nil {
				switch {
				case cal.String() == "os.OpenFile":
					cf.open = rc.recipe(cc.Args[0], 0) + "," + rc.recipe(cc.Args[1], 0) + "," + rc.recipe(cc.Args[2], 0)
				case c.P.inModule(cal) && cal.Name() == "Truncate":
					cf.trunc = rc.recipe(cc.Args[0], 0) + "," + rc.recipe(cc.Args[1], 0)
				}
			}
		})
		cs = append(cs, cf)
	}
	c.minInstances("RWManager constructors", len(cs), 2)
	// every successful construction has sized the file: no path from the entry to a return of a non-nil
	// manager avoids the sizing call (a segment created by a run that died between open(O_CREATE) and the
	// truncate is 0 bytes long; mapping it fails and a FileIO scan of it differs from a sized one)
	for _, cf := range cs {
		f := cf.fn
		isTrunc := func(in ssa.Instruction) bool {
			cc := callOf(in)
			if cc == nil || cc.StaticCallee() == nil {
				return false
			}
			cal := cc.StaticCallee()
			return (c.P.inModule(cal) && cal.Name() == "Truncate") || cal.String() == "(*os.File).Truncate"
		}
		ei := errResultIndex(f)
		succ := func(in ssa.Instruction) bool {
			r, ok := in.(*ssa.Return)
			return ok && (ei < 0 || classifyRetOperand(r, ei) != retNonNil)
		}
		w := findPath(f, nil, succ, isTrunc, nil)
		c.check(w == nil, fnName(f), "every successful open has sized the segment", c.P.pos(f.Pos()), "", "the constructor can return a manager without having sized the file to its capacity: a segment left at 0 bytes by a crash between create and truncate is never grown again, mapping it fails and Open fails", c.witnessOf(w)...)
	}
	for i := 1; i < len(cs); i++ {
		c.check(cs[i].open == cs[0].open && cs[0].open != "", fnName(cs[i].fn), "opens the segment like "+fnName(cs[0].fn), c.P.pos(cs[i].fn.Pos()), cs[0].open, "the two RWManager implementations open the file differently: "+cs[0].open+" vs "+cs[i].open)
		c.check(cs[i].trunc == cs[0].trunc && cs[0].trunc != "", fnName(cs[i].fn), "extends the segment to its capacity like "+fnName(cs[0].fn), c.P.pos(cs[i].fn.Pos()), cs[0].trunc, "the two RWManager implementations size the file differently: "+cs[0].trunc+" vs "+cs[i].trunc)
	}
	// the interface has exactly the four methods both implement (type checker guarantees implementation)
	it := c.P.Named("", "RWManager").Underlying().(*types.Interface)
	c.check(it.NumMethods() == 4, "RWManager", "interface has WriteAt, ReadAt, Sync, Close", "", "", fmt.Sprintf("RWManager has %d methods", it.NumMethods()))
}
