package main

// R-ACTIVE-RESUME: whoever makes an EXISTING segment the active file also restores its write offset.
//
// NewDataFile returns a DataFile with writeOff = ActualSize = 0. That is right for a fresh segment
// (MaxFileID+1 in the merge rewrite, fileID+1 on rotation) and wrong for a segment that already holds
// records: the next Commit would write at offset 0, over committed records, and leave stale bytes behind
// the new record that make the following Open fail. Open pairs the installation (getDataPath(MaxFileID))
// with a scan that restores the offset; every other caller of such an installer must do the same on every
// path to a successful return - except where the listing of segments is known to be empty.

import (
	"fmt"
	"go/types"

	"golang.org/x/tools/go/ssa"
)

func ruleActiveResume(c *Ctx) {
	modPath := c.P.Main.Pkg.Path()
	var installers []*ssa.Function
	for _, f := range c.P.SrcFuncs {
		if f.Pkg != c.P.Main || len(f.Blocks) == 0 {
			continue
		}
		found := false
		instrs(f, func(in ssa.Instruction) {
			st, ok := in.(*ssa.Store)
			if !ok {
				return
			}
			fa, ok := st.Addr.(*ssa.FieldAddr)
			if !ok || fieldVarOf(fa).Name() != "ActiveFile" || !namedIs(fa.X.Type(), "DB") {
				return
			}
			v := resolve1(st.Val)
			if ex, ok := v.(*ssa.Extract); ok {
				v = ex.Tuple
			}
			call, ok := v.(*ssa.Call)
			if !ok || !calleeIs(&call.Call, modPath, "", "NewDataFile") || len(call.Call.Args) == 0 {
				return
			}
			gp, ok := resolve1(call.Call.Args[0]).(*ssa.Call)
			if !ok || !calleeIs(&gp.Call, modPath, "DB", "getDataPath") {
				return
			}
			args := argsOf(&gp.Call)
			if len(args) == 0 {
				return
			}
			if isFieldLoad(stripConv(resolve1(args[len(args)-1])), "DB", "MaxFileID") {
				found = true // the id is MaxFileID itself: an existing segment (a fresh one is MaxFileID+k)
			}
		})
		// a function that first moves MaxFileID on (rotation) opens a fresh segment
		instrs(f, func(in ssa.Instruction) {
			if st, ok := in.(*ssa.Store); ok {
				if fa, ok := st.Addr.(*ssa.FieldAddr); ok && fieldVarOf(fa).Name() == "MaxFileID" && namedIs(fa.X.Type(), "DB") {
					found = false
				}
			}
		})
		if found {
			installers = append(installers, f)
		}
	}
	c.minInstances("functions that install an existing segment as DB.ActiveFile", len(installers), 1)
	n := 0
	for _, inst := range installers {
		c.touch(inst)
		for _, site := range c.P.CallersOf(inst) {
			caller := site.Parent()
			if !c.P.inModule(caller) {
				continue
			}
			n++
			c.touch(caller)
			ei := errResultIndex(caller)
			emptyEdge := map[succEdge]bool{}
			isIntSlice := func(x ssa.Value) bool {
				sl, ok := x.Type().Underlying().(*types.Slice)
				if !ok {
					return false
				}
				b, ok := sl.Elem().Underlying().(*types.Basic)
				return ok && b.Kind() == types.Int
			}
			for _, e := range nilEdges(caller, true, isIntSlice) {
				emptyEdge[e] = true
			}
			for _, e := range eqEdges(caller, true, func(x, y ssa.Value) bool {
				k, ok := constInt(y)
				if !ok || k != 0 {
					return false
				}
				call, ok := resolve1(x).(*ssa.Call)
				if !ok {
					return false
				}
				bi, ok := call.Call.Value.(*ssa.Builtin)
				return ok && bi.Name() == "len" && isIntSlice(call.Call.Args[0])
			}) {
				emptyEdge[e] = true
			}
			p := findPath(caller, site.(ssa.Instruction), func(in ssa.Instruction) bool {
				r, ok := in.(*ssa.Return)
				return ok && (ei < 0 || classifyRetOperand(r, ei) != retNonNil)
			}, func(in ssa.Instruction) bool {
				st, ok := in.(*ssa.Store)
				if !ok {
					return false
				}
				fa, ok := st.Addr.(*ssa.FieldAddr)
				return ok && fieldVarOf(fa).Name() == "writeOff" && isFieldLoad(fa.X, "DB", "ActiveFile")
			}, func(b *ssa.BasicBlock, si int) bool { return emptyEdge[succEdge{b, si}] })
			c.check(p == nil, fnName(caller), "installing an existing segment as the active file ("+fnName(inst)+") is followed by restoring its write offset", c.P.ipos(site), "",
				fmt.Sprintf("%s makes segment MaxFileID - a segment that may already hold records - the active file, and a path from here reaches a successful return without a store to DB.ActiveFile.writeOff: the file starts at offset 0 (NewDataFile), so the next Commit overwrites the records at its head and leaves stale bytes behind the new record; nothing looks wrong in memory, and the next Open fails on the garbage (or replays it)", fnName(inst)), c.witnessOf(p)...)
		}
	}
	c.Sites += n
	c.minInstances("call sites of such installers", n, 1)
}
