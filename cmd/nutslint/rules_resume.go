package main

// R-ACTIVE-RESUME: whoever makes an EXISTING segment the active file also restores its write offset.
//
// NewDataFile returns a DataFile with writeOff = ActualSize = 0. That is right for a fresh segment
// (MaxFileID+1 in the merge rewrite, fileID+1 on rotation) and wrong for a segment that already holds
// records: the next Commit would write at offset 0, over committed records, and leave stale bytes behind
// the new record that make the following Open fail. Open pairs the installation (getDataPath(MaxFileID))
// with a scan that restores the offset; every other caller of such an installer must do the same on every
// path to a successful return - except where the listing of segments is known to be empty.

import (
	"fmt"
	"go/types"

	"golang.org/x/tools/go/ssa"
)

func ruleActiveResume(c *Ctx) {
	modPath := c.P.Main.Pkg.Path()
	var installers []*ssa.Function
	for _, f := range c.P.SrcFuncs {
		if f.Pkg != c.P.Main || len(f.Blocks) == 0 {
			continue
		}
		found := false
		instrs(f, func(in ssa.Instruction) {
			st, ok := in.(*ssa.Store)
			if !ok {
				return
			}
			fa, ok := st.Addr.(*ssa.FieldAddr)
			if !ok || fieldVarOf(fa).Name() != "ActiveFile" || !namedIs(fa.X.Type(), "DB") {
				return
			}
			v := resolve1(st.Val)
			if ex, ok := v.(*ssa.Extract); ok {
				v = ex.Tuple
			}
			call, ok := v.(*ssa.Call)
			if !ok || !calleeIs(&call.Call, modPath, "", "NewDataFile") || len(call.Call.Args) == 0 {
				return
			}
			gp, ok := resolve1(call.Call.Args[0]).(*ssa.Call)
			if !ok || !calleeIs(&gp.Call, modPath, "DB", "getDataPath") {
				return
			}
			args := argsOf(&gp.Call)
			if len(args) == 0 {
				return
			}
			if isFieldLoad(stripConv(resolve1(args[len(args)-1])), "DB", "MaxFileID") {
				found = true // the id is MaxFileID itself: an existing segment (a fresh one is MaxFileID+k)
			}
		})
		// a function that first moves MaxFileID on (rotation) opens a fresh segment
		instrs(f, func(in ssa.Instruction) {
			if st, ok := in.(*ssa.Store); ok {
				if fa, ok := st.Addr.(*ssa.FieldAddr); ok && fieldVarOf(fa).Name() == "MaxFileID" && namedIs(fa.X.Type(), "DB") {
					found = false
				}
			}
		})
		if found {
			installers = append(installers, f)
		}
	}
	c.minInstances("functions that install an existing segment as DB.ActiveFile", len(installers), 1)
	n := 0
	for _, inst := range installers {
		c.touch(inst)
		for _, site := range c.P.CallersOf(inst) {
			caller := site.Parent()
			if !c.P.inModule(caller) {
				continue
			}
			n++
			c.touch(caller)
			ei := errResultIndex(caller)
			emptyEdge := map[succEdge]bool{}
			isIntSlice := func(x ssa.Value) bool {
				sl, ok := x.Type().Underlying().(*types.Slice)
				if !ok {
					return false
				}
				b, ok := sl.Elem().Underlying().(*types.Basic)
				return ok && b.Kind() == types.Int
			}
			for _, e := range nilEdges(caller, true, isIntSlice) {
				emptyEdge[e] = true
			}
			for _, e := range eqEdges(caller, true, func(x, y ssa.Value) bool {
				k, ok := constInt(y)
				if !ok || k != 0 {
					return false
				}
				call, ok := resolve1(x).(*ssa.Call)
				if !ok {
					return false
				}
				bi, ok := call.Call.Value.(*ssa.Builtin)
				return ok && bi.Name() == "len" && isIntSlice(call.Call.Args[0])
			}) {
				emptyEdge[e] = true
			}
			p := findPath(caller, site.(ssa.Instruction), func(in ssa.Instruction) bool {
				r, ok := in.(*ssa.Return)
				return ok && (ei < 0 || classifyRetOperand(r, ei) != retNonNil)
			}, func(in ssa.Instruction) bool {
				st, ok := in.(*ssa.Store)
				if !ok {
					return false
				}
				fa, ok := st.Addr.(*ssa.FieldAddr)
				return ok && fieldVarOf(fa).Name() == "writeOff" && isFieldLoad(fa.X, "DB", "ActiveFile")
			}, func(b *ssa.BasicBlock, si int) bool { return emptyEdge[succEdge{b, si}] })
			c.check(p == nil, fnName(caller), "installing an existing segment as the active file ("+fnName(inst)+") is followed by restoring its write offset", c.P.ipos(site), "",
				fmt.Sprintf("%s makes segment MaxFileID - a segment that may already hold records - the active file, and a path from here reaches a successful return without a store to DB.ActiveFile.writeOff: the file starts at offset 0 (NewDataFile), so the next Commit overwrites the records at its head and leaves stale bytes behind the new record; nothing looks wrong in memory, and the next Open fails on the garbage (or replays it)", fnName(inst)), c.witnessOf(p)...)
		}
	}
	c.Sites += n
	c.minInstances("call sites of such installers", n, 1)
}

// R-META-THROUGH (C18 C08 C10): in sparse mode a bucket's key range lives in DB.bucketMetas and in
// meta/bucket/<bucket>.meta; Open, Backup (a hot copy of the directory) and a crash all see only the file.
// On the commit path every store into DB.bucketMetas is therefore written through in the same function:
// a file write lies on every path from the function's entry to the store, or on every path from the store to
// a successful return. A cache that is flushed later (at rotation, at Close) leaves committed state that only
// memory knows when the lock is released.
func ruleMetaThrough(c *Ctx) {
	commit := c.P.MustFunc("(*Tx).Commit")
	n := 0
	isFileWrite := func(in ssa.Instruction) bool {
		cc := callOf(in)
		if cc == nil {
			return false
		}
		if _, isDefer := in.(*ssa.Defer); isDefer {
			return false
		}
		if e := fsEffectOf(cc); e != nil && e.kind == "write" {
			return true
		}
		// a module helper all of whose cone contains a file write and that is not the cache update itself
		if cal := cc.StaticCallee(); cal != nil && c.P.inModule(cal) && cal.Blocks != nil {
			for _, s := range fsSitesIn(c.P, cal) {
				if s.eff.kind == "write" {
					return true
				}
			}
		}
		return false
	}
	for _, f := range c.P.ModCone(commit) {
		if f.Pkg != c.P.Main {
			continue
		}
		k := 0
		instrs(f, func(in ssa.Instruction) {
			mu, ok := in.(*ssa.MapUpdate)
			if !ok || !isFieldLoad(mu.Map, "DB", "bucketMetas") {
				return
			}
			n++
			k++
			c.touch(f)
			ei := errResultIndex(f)
			// (a) a write on every path entry -> store
			before := findPath(f, nil, func(x ssa.Instruction) bool { return x == in }, isFileWrite, nil)
			// (b) a write on every path store -> successful return
			after := findPath(f, in, func(x ssa.Instruction) bool {
				r, ok := x.(*ssa.Return)
				return ok && (ei < 0 || classifyRetOperand(r, ei) != retNonNil)
			}, isFileWrite, nil)
			c.check(before == nil || after == nil, fnName(f), fmt.Sprintf("store #%d into DB.bucketMetas is written through to the bucket meta file", k), c.P.ipos(in), "",
				"the cached key range of the bucket changes on the commit path while no write of the bucket meta file lies on every path before the store or between the store and the successful return: when the transaction releases the lock the new range exists only in memory, so a Backup taken now (and a crash) sees the old or no meta file - sparse-mode GetAll on the copy misses the keys outside the old range or reports the bucket missing", c.witnessOf(before)...)
		})
	}
	c.Sites += n
	c.minInstances("stores into DB.bucketMetas on the commit path", n, 1)
}
