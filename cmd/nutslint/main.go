// nutslint: repository-specific static checker for xujiajun/nutsdb.
//
// It decides structural necessary conditions of the properties in
// /verif/properties.jsonl from the type-checked SSA form, control-flow graphs
// and call graph of the current source tree. It never runs nutsdb.
package main

import (
	"encoding/json"
	"flag"
	"fmt"
	"os"
	"path/filepath"
	"regexp"
	"runtime/debug"
	"sort"
	"strings"
	"time"

	"golang.org/x/tools/go/ssa"
)

// Obligation is one rule instance bound to one construct of the source.
type Obligation struct {
	Rule      string   `json:"rule"`
	Construct string   `json:"construct"`
	Detail    string   `json:"detail,omitempty"`
	Status    string   `json:"status"` // discharged | violated | undecided
	Pos       string   `json:"pos,omitempty"`
	Msg       string   `json:"msg,omitempty"`
	Witness   []string `json:"witness,omitempty"`
}

func (o *Obligation) Key() string {
	k := o.Rule + " | " + o.Construct
	if o.Detail != "" {
		k += " | " + o.Detail
	}
	return k
}

// Ctx is what a rule gets: the program and a sink for obligations.
type Ctx struct {
	P      *Prog
	Obs    []*Obligation
	rule   string
	Funcs  map[string]bool // functions analysed (for evidence)
	Sites  int             // call sites / instructions examined
	Tier   string
	fx     *Effects
	notes  []string
	counts map[string]int
}

func (c *Ctx) ob(construct, detail, status, pos, msg string, witness ...string) *Obligation {
	o := &Obligation{Rule: c.rule, Construct: construct, Detail: detail, Status: status, Pos: pos, Msg: msg, Witness: witness}
	c.Obs = append(c.Obs, o)
	return o
}

func (c *Ctx) ok(construct, detail, pos, msg string) { c.ob(construct, detail, "discharged", pos, msg) }
func (c *Ctx) bad(construct, detail, pos, msg string, w ...string) {
	c.ob(construct, detail, "violated", pos, msg, w...)
}
func (c *Ctx) undecided(construct, detail, pos, msg string) {
	c.ob(construct, detail, "undecided", pos, msg)
}
func (c *Ctx) check(cond bool, construct, detail, pos, okMsg, badMsg string, w ...string) {
	if cond {
		c.ok(construct, detail, pos, okMsg)
	} else {
		c.bad(construct, detail, pos, badMsg, w...)
	}
}
func (c *Ctx) touch(fn *ssa.Function) {
	if fn != nil {
		c.Funcs[fnName(fn)] = true
	}
}

// minInstances turns "the rule matched fewer constructs than were confirmed by
// hand" into an undecided obligation: a rule that matches nothing must not pass.
func (c *Ctx) minInstances(what string, got, want int) {
	if got < want {
		c.undecided("instance-count", what, "", fmt.Sprintf("rule matched %d %s, at least %d were confirmed by reading the code; the anchors moved and the rule must be re-confirmed", got, what, want))
	}
}

func (c *Ctx) witnessOf(path []ssa.Instruction) []string {
	var out []string
	last := ""
	for _, in := range path {
		s := c.P.ipos(in) + ": " + shortInstr(in)
		if s != last {
			out = append(out, s)
		}
		last = s
	}
	return out
}

func shortInstr(in ssa.Instruction) string {
	s := in.String()
	if v, ok := in.(ssa.Value); ok {
		s = v.Name() + " = " + s
	}
	if len(s) > 140 {
		s = s[:140] + "…"
	}
	return s
}

type Rule struct {
	Name string
	Text string
	Run  func(c *Ctx)
}

type Property struct {
	ID      string
	Rules   []string
	Explain string // what the structural claim is
	NotCov  string
	Assume  []string
}

// ---- known findings -------------------------------------------------------

type Finding struct {
	ID         string   `json:"id"`
	Properties []string `json:"properties"`
	Keys       []string `json:"keys"`
	// KeyPatterns (optional): regular expressions over obligation keys. Used for the few design-level
	// findings whose obligations move with a refactoring (same publishing event / same unlocked cone)
	// without becoming a different defect; everything else is matched by exact key.
	KeyPatterns []string `json:"key_patterns,omitempty"`
	What        string   `json:"what"`
	Repro      string   `json:"reproduction,omitempty"`
	Status     string   `json:"status"` // known | fixed
	Commit     string   `json:"commit,omitempty"`
	Line       string   `json:"line,omitempty"`
}

type FindingsFile struct {
	Comment  string    `json:"comment"`
	Findings []Finding `json:"findings"`
}

func loadFindings(path string) []Finding {
	b, err := os.ReadFile(path)
	if err != nil {
		return nil
	}
	var ff FindingsFile
	if err := json.Unmarshal(b, &ff); err != nil {
		fail("cannot parse %s: %v", path, err)
	}
	return ff.Findings
}

// ---- evidence -------------------------------------------------------------

type Evidence struct {
	PropertyID  string                 `json:"property_id"`
	Tier        string                 `json:"tier"`
	Seed        int                    `json:"seed"`
	Level       string                 `json:"level"`
	Coverage    map[string]interface{} `json:"coverage"`
	Assumptions []string               `json:"assumptions"`
	WallS       float64                `json:"wall_s"`
	Violations  int                    `json:"violations"`
}

var commonAssumptions = []string{
	"go/types, go/ssa and the CHA/VTA call-graph construction of golang.org/x/tools v0.29.0 are trusted",
	"the nutsdb packages use no reflection on their own types beyond encoding/binary on BinaryNode, no unsafe beyond unsafe.Sizeof, no cgo and no go statements (checked syntactically on every run by rule no-go-stmt where claimed)",
	"library functions behave as the effect/IO tables of the checker say (os.OpenFile flags, (*os.File).WriteAt/Sync, mmap.Flush, sort.Sort, copy, append)",
	"a Tx is used by one goroutine while open; user callbacks passed to View/Update are outside the analysed program",
	"verdicts are structural necessary conditions of the property, not the behaviour itself (see DESIGN.md section 0)",
}

func verifDir() string {
	if d := os.Getenv("VERIF_DIR"); d != "" {
		return d
	}
	exe, err := os.Executable()
	if err == nil {
		d := filepath.Dir(filepath.Dir(exe))
		if _, err := os.Stat(filepath.Join(d, "MANIFEST.json")); err == nil {
			return d
		}
	}
	wd, _ := os.Getwd()
	return wd
}

func main() {
	var (
		propID  = flag.String("property", "", "property id (C01..C22), or 'all'")
		tier    = flag.String("tier", "quick", "quick | thorough")
		repo    = flag.String("repo", "", "path of the nutsdb tree (default $NUTSDB_REPO or /repo)")
		replay  = flag.String("replay", "", "re-evaluate the obligation recorded in this violation file")
		listF   = flag.Bool("list", false, "list properties and rules")
		noEvid  = flag.Bool("no-evidence", false, "do not write evidence files (used by self-tests)")
		rulesF  = flag.String("rules", "", "run only these comma-separated rules and print their obligations (debugging)")
		verbose = flag.Bool("v", false, "print every obligation")
		jsonOut = flag.String("json", "", "write all obligations of the run as JSON to this file (self-tests)")
	)
	flag.Parse()
	if *repo == "" {
		*repo = os.Getenv("NUTSDB_REPO")
	}
	if *repo == "" {
		*repo = "/repo"
	}
	if t := os.Getenv("VERIF_TIER"); t != "" && !flagSet("tier") {
		*tier = t
	}
	if *listF {
		for _, p := range properties {
			fmt.Printf("%s: %s\n", p.ID, strings.Join(p.Rules, " "))
		}
		return
	}
	if *replay != "" {
		os.Exit(doReplay(*replay, *repo))
	}
	if *rulesF != "" {
		os.Exit(runRulesDebug(*repo, strings.Split(*rulesF, ","), *verbose, *jsonOut))
	}
	if *propID == "" {
		fmt.Fprintln(os.Stderr, "usage: nutslint -property Cxx [-tier quick|thorough]")
		os.Exit(2)
	}
	if *tier == "thorough" {
		os.Exit(runThorough(*propID, *repo, *noEvid, *verbose))
	}
	code := 0
	for _, pr := range selectProps(*propID) {
		if c := runProperty(pr, *repo, "quick", "", "", "vta", *noEvid, *verbose, nil); c > code {
			code = c
		}
	}
	os.Exit(code)
}

func flagSet(name string) bool {
	set := false
	flag.Visit(func(f *flag.Flag) {
		if f.Name == name {
			set = true
		}
	})
	return set
}

func selectProps(id string) []*Property {
	if id == "all" {
		var out []*Property
		for i := range properties {
			out = append(out, &properties[i])
		}
		return out
	}
	for i := range properties {
		if properties[i].ID == id {
			return []*Property{&properties[i]}
		}
	}
	fmt.Fprintf(os.Stderr, "unknown or unclaimed property %s\n", id)
	os.Exit(2)
	return nil
}

var progCache = map[string]*Prog{}

func getProg(repo, goarch, goos, cg string) *Prog {
	k := repo + "|" + goarch + "|" + goos + "|" + cg
	if p, ok := progCache[k]; ok {
		return p
	}
	memCache = map[*ssa.Function]*funcMem{}
	p := loadProg(repo, goarch, goos, cg)
	progCache = map[string]*Prog{k: p} // keep one program in memory at a time
	return p
}

// runRules runs the named rules and returns the context. Panics of kind
// undecided are turned into an undecided obligation.
func runRules(p *Prog, names []string, tier string) (c *Ctx) {
	c = &Ctx{P: p, Funcs: map[string]bool{}, Tier: tier, counts: map[string]int{}}
	for _, n := range names {
		r, ok := rules[n]
		if !ok {
			c.rule = n
			c.undecided("rule", n, "", "rule not implemented")
			continue
		}
		c.rule = n
		func() {
			defer func() {
				if e := recover(); e != nil {
					if u, ok := e.(undecided); ok {
						c.undecided("engine", n, "", u.msg)
						return
					}
					c.undecided("engine-panic", n, "", fmt.Sprintf("%v\n%s", e, debug.Stack()))
				}
			}()
			r.Run(c)
		}()
	}
	return c
}

type runExtra struct {
	config   string
	selftest map[string]interface{}
}

// runProperty evaluates one property and returns the exit code (0,1,2).
func runProperty(pr *Property, repo, tier, goarch, goos, cg string, noEvid, verbose bool, extra *runExtra) int {
	start := time.Now()
	var c *Ctx
	var p *Prog
	func() {
		defer func() {
			if e := recover(); e != nil {
				c = &Ctx{Funcs: map[string]bool{}}
				c.rule = "load"
				if u, ok := e.(undecided); ok {
					c.undecided("load", "", "", u.msg)
				} else {
					c.undecided("load", "", "", fmt.Sprintf("panic: %v\n%s", e, debug.Stack()))
				}
			}
		}()
		p = getProg(repo, goarch, goos, cg)
		c = runRules(p, pr.Rules, tier)
	}()
	code := report(pr, c, p, repo, tier, goarch, goos, cg, noEvid, verbose, time.Since(start).Seconds(), extra)
	return code
}

func report(pr *Property, c *Ctx, p *Prog, repo, tier, goarch, goos, cg string, noEvid, verbose bool, wall float64, extra *runExtra) int {
	vdir := verifDir()
	findings := loadFindings(filepath.Join(vdir, "known_findings.json"))
	known := map[string]*Finding{}
	type knownPat struct {
		re *regexp.Regexp
		f  *Finding
	}
	var knownPats []knownPat
	for i := range findings {
		f := &findings[i]
		if f.Status != "known" {
			continue
		}
		for _, pid := range f.Properties {
			if pid == pr.ID {
				for _, k := range f.Keys {
					known[k] = f
				}
				for _, ps := range f.KeyPatterns {
					re, err := regexp.Compile(ps)
					if err != nil {
						fail("known_findings.json: bad key pattern %q: %v", ps, err)
					}
					knownPats = append(knownPats, knownPat{re, f})
				}
			}
		}
	}
	lookupKnown := func(key string) (*Finding, bool) {
		if f, ok := known[key]; ok {
			return f, true
		}
		for _, kp := range knownPats {
			if kp.re.MatchString(key) {
				return kp.f, true
			}
		}
		return nil, false
	}
	sort.SliceStable(c.Obs, func(i, j int) bool { return c.Obs[i].Key() < c.Obs[j].Key() })
	// duplicate keys would make known-finding matching ambiguous: disambiguate deterministically
	seenKey := map[string]int{}
	for _, o := range c.Obs {
		seenKey[o.Key()]++
		if n := seenKey[o.Key()]; n > 1 {
			o.Detail = fmt.Sprintf("%s #%d", o.Detail, n)
		}
	}
	var nDis, nVio, nUnd, nKnown int
	var violLines, knownLines, undLines []string
	matched := map[string][]string{}
	constructs := map[string]bool{}
	for _, o := range c.Obs {
		constructs[o.Rule+"|"+o.Construct] = true
		switch o.Status {
		case "discharged":
			nDis++
		case "undecided":
			nUnd++
			undLines = append(undLines, fmt.Sprintf("UNDECIDED property=%s %s — %s", pr.ID, o.Key(), firstLine(o.Msg)))
		case "violated":
			if f, ok := lookupKnown(o.Key()); ok {
				nKnown++
				matched[f.ID] = append(matched[f.ID], o.Key())
				continue
			}
			nVio++
			path := ""
			if !noEvid {
				path = writeViolation(vdir, pr.ID, o, repo)
			}
			violLines = append(violLines, fmt.Sprintf("VIOLATION property=%s replay=%s", pr.ID, path))
			violLines = append(violLines, fmt.Sprintf("  rule=%s construct=%s detail=%s at %s: %s", o.Rule, o.Construct, o.Detail, o.Pos, o.Msg))
			for _, w := range o.Witness {
				violLines = append(violLines, "    "+w)
			}
		}
	}
	var fids []string
	for id := range matched {
		fids = append(fids, id)
	}
	sort.Strings(fids)
	for _, id := range fids {
		var f *Finding
		for i := range findings {
			if findings[i].ID == id {
				f = &findings[i]
			}
		}
		knownLines = append(knownLines, fmt.Sprintf("KNOWN-FINDING: property=%s %s %s (%d obligation(s): %s)", pr.ID, f.ID, f.What, len(matched[id]), strings.Join(matched[id], "; ")))
	}
	cfgName := "default"
	if extra != nil && extra.config != "" {
		cfgName = extra.config
	}
	fmt.Printf("nutslint property=%s tier=%s config=%s rules=%d obligations=%d discharged=%d known=%d violated=%d undecided=%d functions=%d wall=%.1fs\n",
		pr.ID, tier, cfgName, len(pr.Rules), len(c.Obs), nDis, nKnown, nVio, nUnd, len(c.Funcs), wall)
	if verbose {
		for _, o := range c.Obs {
			fmt.Printf("  [%s] %s @%s — %s\n", o.Status, o.Key(), o.Pos, firstLine(o.Msg))
		}
	}
	for _, l := range knownLines {
		fmt.Println(l)
	}
	for _, l := range undLines {
		fmt.Println(l)
	}
	for _, l := range violLines {
		fmt.Println(l)
	}
	if !noEvid {
		writeEvidence(vdir, pr, c, p, tier, cfgName, nDis, nVio, nUnd, nKnown, len(constructs), knownLines, wall, extra)
	}
	switch {
	case nVio > 0:
		return 1
	case nUnd > 0:
		return 2
	}
	return 0
}

func firstLine(s string) string {
	if i := strings.IndexByte(s, '\n'); i >= 0 {
		return s[:i]
	}
	return s
}

type violationFile struct {
	Property   string      `json:"property"`
	Obligation *Obligation `json:"obligation"`
	Repo       string      `json:"repo"`
	Rules      []string    `json:"rules"`
	Help       string      `json:"help"`
}

func sanitize(s string) string {
	var b strings.Builder
	for _, r := range s {
		switch {
		case r >= 'a' && r <= 'z', r >= 'A' && r <= 'Z', r >= '0' && r <= '9', r == '-', r == '.':
			b.WriteRune(r)
		default:
			b.WriteRune('_')
		}
	}
	s = b.String()
	if len(s) > 120 {
		s = s[:120]
	}
	return s
}

func writeViolation(vdir, pid string, o *Obligation, repo string) string {
	dir := filepath.Join(vdir, "evidence", "violations")
	os.MkdirAll(dir, 0o755)
	path := filepath.Join(dir, pid+"-"+sanitize(o.Key())+".json")
	vf := violationFile{Property: pid, Obligation: o, Repo: repo, Rules: []string{o.Rule},
		Help: "nutslint -replay <this file> re-evaluates rule " + o.Rule + " on the current tree and prints the obligation with its witness path"}
	b, _ := json.MarshalIndent(vf, "", " ")
	os.WriteFile(path, b, 0o644)
	return path
}

func doReplay(path, repo string) int {
	b, err := os.ReadFile(path)
	if err != nil {
		fmt.Fprintln(os.Stderr, err)
		return 2
	}
	var vf violationFile
	if err := json.Unmarshal(b, &vf); err != nil {
		fmt.Fprintln(os.Stderr, err)
		return 2
	}
	code := 0
	func() {
		defer func() {
			if e := recover(); e != nil {
				fmt.Println("UNDECIDED:", e)
				code = 2
			}
		}()
		p := getProg(repo, "", "", "vta")
		c := runRules(p, vf.Rules, "quick")
		found := false
		for _, o := range c.Obs {
			if o.Key() == vf.Obligation.Key() {
				found = true
				fmt.Printf("[%s] %s\n  at %s\n  %s\n", o.Status, o.Key(), o.Pos, o.Msg)
				for _, w := range o.Witness {
					fmt.Println("    " + w)
				}
				if o.Status == "violated" {
					fmt.Printf("VIOLATION property=%s replay=%s\n", vf.Property, path)
					code = 1
				}
			}
		}
		if !found {
			fmt.Printf("obligation %q no longer exists on the current tree (rule %s produced %d obligations)\n", vf.Obligation.Key(), vf.Rules[0], len(c.Obs))
		}
	}()
	return code
}

func runRulesDebug(repo string, names []string, verbose bool, jsonOut string) int {
	code := 0
	defer func() {
		if e := recover(); e != nil {
			fmt.Println("UNDECIDED:", e)
			os.Exit(2)
		}
	}()
	p := getProg(repo, "", "", "vta")
	if len(names) == 1 && names[0] == "all" {
		names = nil
		for n := range rules {
			names = append(names, n)
		}
		sort.Strings(names)
	}
	c := runRules(p, names, "quick")
	sort.SliceStable(c.Obs, func(i, j int) bool { return c.Obs[i].Key() < c.Obs[j].Key() })
	for _, o := range c.Obs {
		if o.Status != "discharged" || verbose {
			fmt.Printf("[%s] %s @%s\n    %s\n", o.Status, o.Key(), o.Pos, o.Msg)
			for _, w := range o.Witness {
				fmt.Println("      " + w)
			}
		}
		if o.Status == "violated" && code < 1 {
			code = 1
		}
		if o.Status == "undecided" {
			code = 2
		}
	}
	fmt.Printf("%d obligations\n", len(c.Obs))
	if jsonOut != "" {
		b, _ := json.MarshalIndent(c.Obs, "", " ")
		os.WriteFile(jsonOut, b, 0o644)
	}
	return code
}

func writeEvidence(vdir string, pr *Property, c *Ctx, p *Prog, tier, cfgName string, nDis, nVio, nUnd, nKnown, nConstructs int, knownLines []string, wall float64, extra *runExtra) {
	os.MkdirAll(filepath.Join(vdir, "evidence"), 0o755)
	var samples []interface{}
	perRule := map[string]map[string]int{}
	for _, o := range c.Obs {
		if perRule[o.Rule] == nil {
			perRule[o.Rule] = map[string]int{}
		}
		perRule[o.Rule][o.Status]++
	}
	// samples: up to 3 obligations per rule, all non-discharged ones first
	cnt := map[string]int{}
	for _, o := range c.Obs {
		if o.Status != "discharged" && len(samples) < 60 {
			samples = append(samples, o)
		}
	}
	for _, o := range c.Obs {
		if o.Status == "discharged" && cnt[o.Rule] < 3 {
			cnt[o.Rule]++
			samples = append(samples, o)
		}
	}
	var ruleTexts []map[string]interface{}
	for _, rn := range pr.Rules {
		r := rules[rn]
		t := ""
		if r != nil {
			t = r.Text
		}
		ruleTexts = append(ruleTexts, map[string]interface{}{"rule": rn, "text": t, "obligations": perRule[rn]})
	}
	var fns []string
	for f := range c.Funcs {
		fns = append(fns, f)
	}
	sort.Strings(fns)
	seed := 0
	fmt.Sscanf(os.Getenv("VERIF_SEED"), "%d", &seed)
	cov := map[string]interface{}{
		"explanation":            explanationOf(vdir, pr),
		"obligations":            len(c.Obs),
		"discharged":             nDis,
		"violated_unlisted":      nVio,
		"violated_known":         nKnown,
		"undecided":              nUnd,
		"evaluations":            len(c.Obs),
		"distinct_nontrivial":    nConstructs,
		"rule":                   "one obligation per (rule, construct, detail) discovered in the current source; distinct_nontrivial counts distinct (rule, construct) pairs, i.e. obligations bound to different source constructs",
		"samples":                samples,
		"rules":                  ruleTexts,
		"functions_analysed":     fns,
		"functions_analysed_n":   len(fns),
		"known_findings_matched": knownLines,
		"checker_cmd":            "bin/nutslint -property " + pr.ID + " -tier " + tier,
		"trusted_base":           []string{"go/types", "go/ssa + go/callgraph (x/tools v0.29.0)", "nutslint library effect tables"},
		"exhaustive":             true,
		"config":                 cfgName,
	}
	if p != nil {
		cov["program"] = map[string]interface{}{
			"repo": p.Root, "packages": len(p.ModPkgs), "module_functions": len(p.SrcFuncs), "callgraph": p.CGKind, "callgraph_nodes": len(p.CG.Nodes),
		}
	}
	if extra != nil && extra.selftest != nil {
		for k, v := range extra.selftest {
			cov[k] = v
		}
	}
	ev := Evidence{PropertyID: pr.ID, Tier: tier, Seed: seed, Level: "other", Coverage: cov,
		Assumptions: append(append([]string{}, commonAssumptions...), pr.Assume...), WallS: wall, Violations: nVio}
	b, _ := json.MarshalIndent(ev, "", " ")
	os.WriteFile(filepath.Join(vdir, "evidence", pr.ID+".json"), b, 0o644)
}
