package main

import (
	"fmt"
	"go/token"
	"go/types"
	"sort"

	"golang.org/x/tools/go/ssa"
)

// ---------------------------------------------------------------------------
// Engine H (C07): the skiplist header must never be observed as a member.

type sentinelAnalysis struct {
	c      *Ctx
	pkg    *ssa.Package
	funcs  []*ssa.Function
	taint  map[ssa.Value]bool // may be the header pointer
	arrays map[ssa.Value]bool // array value / array alloc that may hold the header pointer
}

func isHeaderLoad(v ssa.Value) bool {
	u, ok := v.(*ssa.UnOp)
	if !ok || u.Op != token.MUL {
		return false
	}
	fa, ok := u.X.(*ssa.FieldAddr)
	return ok && fieldVarOf(fa).Name() == "header" && namedOf(fa.X.Type()) != nil && namedOf(fa.X.Type()).Obj().Name() == "SortedSet"
}

func isNodePtr(t types.Type) bool {
	_, ok := t.Underlying().(*types.Pointer)
	n := namedOf(t)
	return ok && n != nil && n.Obj().Name() == "SortedSetNode"
}

func (a *sentinelAnalysis) run() {
	a.taint = map[ssa.Value]bool{}
	a.arrays = map[ssa.Value]bool{}
	for changed := true; changed; {
		changed = false
		mark := func(m map[ssa.Value]bool, v ssa.Value) {
			if !m[v] {
				m[v] = true
				changed = true
			}
		}
		for _, f := range a.funcs {
			instrs(f, func(in ssa.Instruction) {
				switch x := in.(type) {
				case *ssa.UnOp:
					if x.Op != token.MUL {
						return
					}
					if isHeaderLoad(x) {
						mark(a.taint, x)
						return
					}
					switch ad := x.X.(type) {
					case *ssa.IndexAddr:
						if a.arrays[ad.X] && isNodePtr(x.Type()) {
							mark(a.taint, x)
						}
					case *ssa.Alloc:
						// load of a whole array value, or of a spilled local
						if a.arrays[ad] {
							if _, isArr := x.Type().Underlying().(*types.Array); isArr {
								mark(a.arrays, x)
							}
						}
						if vals, ok := reaching(ad, x); ok {
							for _, v := range vals {
								if a.taint[v] {
									mark(a.taint, x)
								}
							}
						}
					}
				case *ssa.Index:
					if a.arrays[x.X] && isNodePtr(x.Type()) {
						mark(a.taint, x)
					}
				case *ssa.Phi:
					for _, e := range x.Edges {
						if a.taint[e] {
							mark(a.taint, x)
						}
						if a.arrays[e] {
							mark(a.arrays, x)
						}
					}
				case *ssa.Store:
					if ia, ok := x.Addr.(*ssa.IndexAddr); ok && a.taint[x.Val] {
						mark(a.arrays, ia.X)
					}
					if al, ok := x.Addr.(*ssa.Alloc); ok && a.arrays[x.Val] {
						mark(a.arrays, al)
					}
				case *ssa.Call:
					cal := x.Call.StaticCallee()
					if cal == nil || cal.Pkg != a.pkg || cal.Blocks == nil {
						return
					}
					for i, arg := range x.Call.Args {
						if i >= len(cal.Params) {
							continue
						}
						if a.taint[arg] {
							mark(a.taint, cal.Params[i])
						}
						if a.arrays[arg] {
							mark(a.arrays, cal.Params[i])
						}
					}
					// tainted results
					for _, r := range returnsOf(cal) {
						for j, rv := range r.Results {
							if a.taint[rv] {
								if len(r.Results) == 1 {
									mark(a.taint, x)
								} else {
									for _, rr := range *x.Referrers() {
										if ex, ok := rr.(*ssa.Extract); ok && ex.Index == j {
											mark(a.taint, ex)
										}
									}
								}
							}
						}
					}
				}
			})
		}
	}
}

// notHeaderAt: block b is reached only after v was compared unequal to the header (or equal to a non-header value).
func (a *sentinelAnalysis) notHeaderAt(f *ssa.Function, v ssa.Value, b *ssa.BasicBlock) bool {
	same := func(x ssa.Value) bool {
		if x == v || sameValue(x, v) {
			return true
		}
		// two reads of the same element of a local array (update[0])
		_, isLoad := x.(*ssa.UnOp)
		_, isLoad2 := v.(*ssa.UnOp)
		return isLoad && isLoad2 && pathOf(x) == pathOf(v)
	}
	edges := eqEdges(f, false, func(x, y ssa.Value) bool {
		return same(x) && isHeaderLoad(y)
	})
	// v == other where other is untainted pins v to a member
	edges = append(edges, eqEdges(f, true, func(x, y ssa.Value) bool {
		return (x == v || sameValue(x, v)) && isNodePtr(y.Type()) && !a.taint[y] && !isNilConst(y)
	})...)
	return len(edges) > 0 && edgesDominate(f, edges, b)
}

func ruleSentinel(c *Ctx) {
	pkg := c.P.DS["zset"]
	a := &sentinelAnalysis{c: c, pkg: pkg}
	for _, f := range c.P.SrcFuncs {
		if f.Pkg == pkg {
			a.funcs = append(a.funcs, f)
		}
	}
	a.run()
	nT := 0
	for range a.taint {
		nT++
	}
	c.minInstances("values that may hold the skiplist header", nT, 10)
	type sink struct {
		fn   *ssa.Function
		in   ssa.Instruction
		what string
	}
	var sinks []sink
	nChecked := 0
	for _, f := range a.funcs {
		c.touch(f)
		instrs(f, func(in ssa.Instruction) {
			switch x := in.(type) {
			case *ssa.FieldAddr:
				if !a.taint[x.X] {
					return
				}
				fn := fieldVarOf(x).Name()
				switch fn {
				case "key", "score", "Value":
					nChecked++
					if !a.notHeaderAt(f, x.X, x.Block()) {
						sinks = append(sinks, sink{f, in, "reads payload field " + fn + " of a node that may be the header"})
					}
				}
			case *ssa.Store:
				if !a.taint[x.Val] {
					return
				}
				// storing a possible header into a link that queries follow, or into a result slot
				switch ad := x.Addr.(type) {
				case *ssa.FieldAddr:
					fn := fieldVarOf(ad).Name()
					if fn == "backward" || fn == "forward" || fn == "tail" {
						nChecked++
						if !a.notHeaderAt(f, x.Val, x.Block()) {
							sinks = append(sinks, sink{f, in, "stores a possible header pointer into link field " + fn})
						}
					}
				case *ssa.IndexAddr:
					// element of a result slice (varargs pack for append of []*SortedSetNode)
					if al, ok := ad.X.(*ssa.Alloc); ok {
						for _, r := range *al.Referrers() {
							if sl, ok := r.(*ssa.Slice); ok {
								for _, rr := range *sl.Referrers() {
									if call, ok := rr.(*ssa.Call); ok {
										if bi, ok := call.Call.Value.(*ssa.Builtin); ok && bi.Name() == "append" {
											nChecked++
											if !a.notHeaderAt(f, x.Val, x.Block()) {
												sinks = append(sinks, sink{f, in, "appends a node that may be the header to a result slice"})
											}
										}
									}
								}
							}
						}
					}
				}
			case *ssa.MapUpdate:
				if a.taint[x.Value] {
					nChecked++
					if !a.notHeaderAt(f, x.Value, x.Block()) {
						sinks = append(sinks, sink{f, in, "stores a possible header pointer into the member dictionary"})
					}
				}
			case *ssa.Return:
				if !isExported(f) {
					return
				}
				for _, rv := range x.Results {
					if a.taint[rv] {
						nChecked++
						if !a.notHeaderAt(f, rv, x.Block()) {
							sinks = append(sinks, sink{f, in, "returns a node that may be the header"})
						}
					}
				}
			}
		})
	}
	c.Sites += nChecked
	sort.Slice(sinks, func(i, j int) bool { return sinks[i].in.Pos() < sinks[j].in.Pos() })
	ord := map[string]int{}
	bad := map[*ssa.Function]bool{}
	for _, s := range sinks {
		k := fnName(s.fn) + "|" + s.what
		ord[k]++
		bad[s.fn] = true
		c.bad(fnName(s.fn), fmt.Sprintf("%s #%d", s.what, ord[k]), c.P.ipos(s.in),
			"the skiplist header (key \"\", score 0) can flow here without a dominating `!= header` test: a query can observe or return a node that is not a member")
	}
	for _, f := range a.funcs {
		if !bad[f] && f.Parent() == nil {
			uses := false
			instrs(f, func(in ssa.Instruction) {
				if v, ok := in.(ssa.Value); ok && a.taint[v] {
					uses = true
				}
			})
			if uses {
				c.ok(fnName(f), "header never observed as a member", c.P.pos(f.Pos()), "every payload read, result append, link store and return of a possibly-header value is behind a != header test, or the value was stepped to .forward first")
			}
		}
	}
	c.minInstances("sentinel sinks examined", nChecked, 3)
}
