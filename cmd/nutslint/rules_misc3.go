package main

import (
	"strings"
	"fmt"
	"go/token"
	"go/types"

	"golang.org/x/tools/go/ssa"
)

// ---------------------------------------------------------------------------
// R-EOD-SIGNAL (C04 C09): DataFile.ReadAt tells the scan loops "end of data" by returning (nil, nil).
// The only header that may be taken for free space is the all-zero header (Entry.IsZero): the API
// accepts the empty bucket name and empty values, so a zero bucketSize/valueSize alone is a
// legal record. Every (nil, nil) return of the entry decoder is dominated by the true edge of IsZero.

func ruleEODSignal(c *Ctx) {
	f := c.P.MustFunc("(*DataFile).ReadAt")
	c.touch(f)
	zeroEdges := boolEdges(f, true, func(x ssa.Value) bool {
		call, ok := resolve1(x).(*ssa.Call)
		return ok && calleeIs(&call.Call, modPath, "Entry", "IsZero")
	})
	ei := errResultIndex(f)
	n := 0
	for _, r := range returnsOf(f) {
		if len(r.Results) < 2 {
			continue
		}
		entryNil := true
		for _, v := range resolve(r.Results[0]) {
			if !isNilConst(v) {
				entryNil = false
			}
		}
		if !entryNil || classifyRetOperand(r, ei) != retNil {
			continue
		}
		n++
		c.check(len(zeroEdges) > 0 && edgesDominate(f, zeroEdges, r.Block()), fnName(f), fmt.Sprintf("end-of-data return #%d is taken only for the all-zero header", n), c.P.ipos(r), "",
			"the decoder reports end of data (nil entry, nil error) for a header that is not all zero: a legal record (empty bucket name, empty key part or empty value) stops every log scan, so all records after it — of every bucket and structure — are missing after reopen and dropped by Merge")
	}
	c.Sites += n
	c.minInstances("end-of-data returns of the entry decoder", n, 1)
	// IsZero itself tests every header field that the encoder writes: judged by the codec rule (field completeness)
}

// ---------------------------------------------------------------------------
// R-TRUNC-GROW (C05 C08 C09 C19): sizing a segment file when it is opened may only grow it. The helper both
// RWManager constructors use calls (*os.File).Truncate(capacity) only behind size < capacity; shrinking
// an existing file (reopened with a smaller SegmentSize, or written past its capacity by FileIO) cuts
// committed records off.

func ruleTruncGrow(c *Ctx) {
	n := 0
	for _, f := range c.P.SrcFuncs {
		if !c.P.inModule(f) {
			continue
		}
		k := 0
		calls(f, func(ci ssa.CallInstruction) {
			cal := ci.Common().StaticCallee()
			if cal == nil || cal.String() != "(*os.File).Truncate" {
				return
			}
			n++
			k++
			c.touch(f)
			capArg := ci.Common().Args[1]
			// size < cap edges: Size() of a FileInfo compared with the same capacity value
			edges := orderEdges(f, true, func(lo, hi ssa.Value) bool {
				if !sameValue(resolve1(hi), resolve1(capArg)) {
					return false
				}
				call, ok := resolve1(lo).(*ssa.Call)
				return ok && call.Call.IsInvoke() && call.Call.Method.Name() == "Size"
			})
			c.check(len(edges) > 0 && edgesDominate(f, edges, ci.Block()), fnName(f), fmt.Sprintf("Truncate #%d only grows the file", k), c.P.ipos(ci), "",
				"(*os.File).Truncate(capacity) is reached without size < capacity having been established: an existing segment that is larger than the capacity is cut down when it is opened and the committed records behind the cut are lost")
		})
	}
	c.Sites += n
	c.minInstances("(*os.File).Truncate call sites", n, 1)
}

// ---------------------------------------------------------------------------
// R-CAPACITY-AGREE (C09 C19): Commit rotates to a new segment only when ActualSize+size > SegmentSize, so a
// record may end exactly at the capacity. Any test in the read path that rejects a record for not
// fitting must therefore be strict as well: a comparison whose linear form is (offset + size - capacity)
// may reject on > 0 but not on >= 0.

func ruleCapacityAgree(c *Ctx) {
	n := 0
	readAt := c.P.MustFunc("(*DataFile).ReadAt")
	subjects := []*ssa.Function{readAt}
	calls(readAt, func(ci ssa.CallInstruction) {
		if cal := ci.Common().StaticCallee(); cal != nil && c.P.inModule(cal) && cal.Blocks != nil {
			subjects = append(subjects, cal)
		}
	})
	bad := 0
	for _, f := range subjects {
		c.touch(f)
		sym := func(v ssa.Value) string {
			v = resolve1(v)
			if call, ok := v.(*ssa.Call); ok && calleeIs(&call.Call, modPath, "Entry", "Size") {
				return "SIZE"
			}
			fv, base := lastField(v)
			if fv != nil && namedIs(derefT(base.Type()), "DataFile") {
				return "FILE." + fv.Name()
			}
			if fv != nil && namedIs(derefT(base.Type()), "MetaData") && strings.HasSuffix(fv.Name(), "Size") {
				return "SIZE"
			}
			if p, ok := v.(*ssa.Parameter); ok && isIntegerType(p.Type()) {
				return "OFF"
			}
			return pathOf(v)
		}
		// every ordering comparison, whether it feeds an If or is returned as a bool by a helper: which side of the
		// comparison equality falls on does not depend on how the result is used
		var cmps []*ssa.BinOp
		instrs(f, func(in ssa.Instruction) {
			if b, ok := in.(*ssa.BinOp); ok {
				cmps = append(cmps, b)
			}
		})
		for _, ifi := range cmps {
			a := condAtom{Op: ifi.Op, X: ifi.X, Y: ifi.Y}
			switch a.Op {
			case token.LSS, token.LEQ, token.GTR, token.GEQ:
			default:
				continue
			}
			d := linAdd(linOf(a.X, sym), linOf(a.Y, sym), -1)
			if d.terms["SIZE"] == 0 || d.terms["OFF"] == 0 {
				continue
			}
			hasCap := false
			for k2, v := range d.terms {
				if v != 0 && len(k2) > 5 && k2[:5] == "FILE." {
					hasCap = true
				}
			}
			if !hasCap {
				continue
			}
			n++
			// normalise to (OFF + SIZE - CAP + c) op 0 with positive OFF coefficient
			op, cst := a.Op, d.c
			if d.terms["OFF"] < 0 {
				cst = -cst
				switch op {
				case token.LSS:
					op = token.GTR
				case token.LEQ:
					op = token.GEQ
				case token.GTR:
					op = token.LSS
				case token.GEQ:
					op = token.LEQ
				}
			}
			// which edge rejects? the one from which an error return is reachable without a normal return: approximate by
			// requiring the relation "end > cap" for rejection: accepted forms: (end-cap > 0) true edge / (end-cap <= 0) false edge
			okForm := (op == token.GTR && cst == 0) || (op == token.LEQ && cst == 0) || (op == token.GEQ && cst == -1) || (op == token.LSS && cst == -1)
			if !okForm {
				bad++
			}
			c.check(okForm, fnName(f), fmt.Sprintf("fit test #%d accepts a record that ends exactly at the capacity", n), c.P.ipos(ifi), d.String(),
				"a test in the entry decoder compares offset+size with the capacity non-strictly ("+d.String()+" "+a.Op.String()+" 0): a record that ends exactly on the last byte of its segment — which Commit produces, it rotates only when the record would NOT fit — is refused, so Open fails on an exactly full segment")
		}
	}
	c.Sites += n + len(subjects)
	if n == 0 {
		c.ok(fnName(readAt), "the entry decoder applies no fit test of its own", "", fmt.Sprintf("%d functions examined", len(subjects)))
	}
}

// ---------------------------------------------------------------------------
// R-OPEN-ALLSEGS (C11 C10 C09): recovery indexes every listed segment. In the function that drives the
// rebuild, every success return is preceded by the call that parses the data files, unless the
// directory listing came back empty (no segment at all). A short cut keyed on anything else (e.g.
// "the active file is empty") skips the older segments when the newest one holds no durable record.

func ruleOpenAllSegs(c *Ctx) {
	open := c.P.MustFunc("Open")
	// the driver: the function in the open cone that calls both the lister and (transitively) the segment parser
	var driver *ssa.Function
	var parseCall ssa.CallInstruction
	var listed ssa.Value
	scanFns := map[*ssa.Function]bool{}
	for _, sl := range findScanLoops(c.P) {
		scanFns[sl.fn] = true
	}
	for _, f := range c.P.ModCone(open) {
		var lister, parser ssa.CallInstruction
		calls(f, func(ci ssa.CallInstruction) {
			cal := ci.Common().StaticCallee()
			if cal == nil || !c.P.inModule(cal) {
				return
			}
			// the lister returns a []int of segment ids
			res := cal.Signature.Results()
			for i := 0; i < res.Len(); i++ {
				if sl, ok := res.At(i).Type().Underlying().(*types.Slice); ok {
					if b, ok := sl.Elem().Underlying().(*types.Basic); ok && b.Kind() == types.Int {
						lister = ci
					}
				}
			}
			// the parser: takes the []int and reaches a scan loop over ids
			for _, a := range ci.Common().Args {
				if sl, ok := a.Type().Underlying().(*types.Slice); ok {
					if b, ok := sl.Elem().Underlying().(*types.Basic); ok && b.Kind() == types.Int {
						for g := range c.P.Cone(nil, cal) {
							if scanFns[g] {
								parser = ci
							}
						}
					}
				}
			}
		})
		if lister != nil && parser != nil && lister != parser {
			driver, parseCall = f, parser
			if lv, ok := lister.(ssa.Value); ok {
				for _, r := range *lv.Referrers() {
					if ex, ok := r.(*ssa.Extract); ok {
						if _, isSl := ex.Type().Underlying().(*types.Slice); isSl {
							listed = ex
						}
					}
				}
			}
		}
	}
	if driver == nil || listed == nil {
		c.undecided("Open", "index rebuild driver", "", "no function in the cone of Open both lists the segment ids and hands them to the segment parser")
		return
	}
	c.touch(driver)
	ei := errResultIndex(driver)
	emptyEdges := nilEdges(driver, true, func(x ssa.Value) bool { return sameValue(x, listed) })
	// also len(ids) == 0
	emptyEdges = append(emptyEdges, eqEdges(driver, true, func(x, y ssa.Value) bool {
		k, ok := constInt(y)
		if !ok || k != 0 {
			return false
		}
		call, ok := resolve1(x).(*ssa.Call)
		if !ok {
			return false
		}
		bi, ok := call.Call.Value.(*ssa.Builtin)
		return ok && bi.Name() == "len" && sameValue(call.Call.Args[0], listed)
	})...)
	prune := func(b *ssa.BasicBlock, si int) bool {
		for _, e := range emptyEdges {
			if e.b == b && e.si == si {
				return true
			}
		}
		return false
	}
	succ := func(in ssa.Instruction) bool {
		r, ok := in.(*ssa.Return)
		return ok && (ei < 0 || classifyRetOperand(r, ei) != retNonNil)
	}
	w := findPath(driver, nil, func(in ssa.Instruction) bool {
		if !succ(in) {
			return false
		}
		// a return whose error operand is the parse call's own result passes it by construction
		return true
	}, func(in ssa.Instruction) bool { return in == ssa.Instruction(parseCall) }, prune)
	if w != nil {
		c.bad(fnName(driver), "every success path parses the listed segments (unless none is listed)", c.P.ipos(w[len(w)-1]),
			"the index rebuild can return success without parsing the data files although segments are listed: whatever the short cut is keyed on (for instance an empty active file after a crash during rotation), every committed transaction in the older segments is invisible after Open", c.witnessOf(w)...)
	} else {
		c.ok(fnName(driver), "every success path parses the listed segments (unless none is listed)", c.P.ipos(parseCall), "")
	}
}

// ---------------------------------------------------------------------------
// R-APPLY-ALL (C05 C06 C07 C08): at commit time and on reopen every record of a committed transaction is
// applied. Whether a record's applier runs may depend on the record itself (its ds / Flag, the shape of
// its key) and, on reopen, on the committed-id test — not on a side table computed from OTHER records
// (a map keyed by position or member, a counter). Skipping "redundant" records changes the result
// whenever an operation between them observes the skipped one.

func controllingIfs(fn *ssa.Function, b *ssa.BasicBlock) []*ssa.If {
	var out []*ssa.If
	for _, ifi := range ifsOf(fn) {
		found := false
		for si := range ifi.Block().Succs {
			if edgesDominate(fn, []succEdge{{ifi.Block(), si}}, b) {
				found = true
				break
			}
		}
		if !found && ifi.Block() != b {
			// control dependence proper: one side can still get to b, the other cannot (without coming back to the test)
			ib := ifi.Block()
			// an edge back to the test or to a block that dominates it starts another iteration of an enclosing loop
			skip := func(x *ssa.BasicBlock, si int) bool { return x.Succs[si] == ib || x.Succs[si].Dominates(ib) }
			r0, r1 := reachFrom(ib.Succs[0], skip)[b], reachFrom(ib.Succs[1], skip)[b]
			found = r0 != r1 && fn.Blocks[0] != nil && reachFrom(fn.Blocks[0], nil)[ib]
		}
		if found {
			out = append(out, ifi)
		}
	}
	return out
}

func ruleApplyAll(c *Ctx) {
	n := 0
	perFn := map[*ssa.Function]int{}
	type site struct {
		fn   *ssa.Function
		call ssa.CallInstruction
	}
	for _, root := range []*ssa.Function{c.P.MustFunc("(*Tx).Commit"), c.P.MustFunc("Open")} {
		cone := map[*ssa.Function]bool{}
		for _, f := range c.P.ModCone(root) {
			cone[f] = true
		}
		seen := map[ssa.Instruction]bool{}
		ops := collectAppliers(c, root)
		// the key/value index is applied through (*BPTree).Insert, a method of the main package
		for _, f := range c.P.ModCone(root) {
			if f.Pkg != c.P.Main || isIndexStructRecv(f) {
				continue
			}
			calls(f, func(ci ssa.CallInstruction) {
				if call, ok := ci.(*ssa.Call); ok {
					if cal := call.Call.StaticCallee(); cal != nil && isIndexMutator(cal) && cal.Pkg == c.P.Main {
						ops = append(ops, &applierOp{callee: cal, call: call, fn: f})
					}
				}
			})
		}
		for _, op := range ops {
			// the chain of call sites from the applier call up to a site that sits in a loop
			chain := []site{{op.fn, op.call}}
			cur := op.fn
			for d := 0; d < 4 && !blockInCycle(chain[len(chain)-1].call.Block()); d++ {
				var next *site
				for _, s := range c.P.CallersOf(cur) {
					if cone[s.Parent()] && s.Parent().Pkg == c.P.Main {
						next = &site{s.Parent(), s}
						break
					}
				}
				if next == nil {
					break
				}
				chain = append(chain, *next)
				cur = next.fn
			}
			for _, st := range chain {
				for _, ifi := range controllingIfs(st.fn, st.call.Block()) {
					if seen[ifi] {
						continue
					}
					seen[ifi] = true
					n++
					var offender ssa.Value
					clock := false
					backSlice(ifi.Cond, func(v ssa.Value) {
						if offender != nil {
							return
						}
						switch x := v.(type) {
						case *ssa.Lookup:
							if _, isMap := x.X.Type().Underlying().(*types.Map); isMap {
								if fv, _ := lastField(x.X); fv == nil {
									offender = v // a map that is not a struct field: a side table built from other records
								}
							}
						case *ssa.Call:
							// a query of the index being rebuilt (Find, Size, membership ...): what is applied would depend on what is already indexed
							if cal := x.Call.StaticCallee(); cal != nil && !isIndexMutator(cal) && isIndexStructRecv(cal) && hasNonErrorResult(cal) {
								offender = v
							}
							// the clock: an expired record still supersedes the older records of its key
							if cal := x.Call.StaticCallee(); cal != nil && (cal.String() == "time.Now" || cal.Name() == "IsExpired" && c.P.inModule(cal)) {
								offender = v
								clock = true
							}
						}
					})
					c.touch(st.fn)
					if offender != nil {
						perFn[st.fn]++
						if clock {
							c.bad(fnName(st.fn), fmt.Sprintf("applier selection condition #%d depends only on the record itself", perFn[st.fn]), c.P.ipos(ifi),
								"whether a record of a committed transaction is applied to the index depends on the clock ("+shortInstr(offender.(ssa.Instruction))+"): a record that has expired by the time the log is replayed is skipped, so it no longer supersedes the older records of its key - the overwritten value comes back after a reopen, and differently in the index mode that keeps values in memory")
							continue
						}
						c.bad(fnName(st.fn), fmt.Sprintf("applier selection condition #%d depends only on the record itself", perFn[st.fn]), c.P.ipos(ifi),
							"whether a record of a committed transaction is applied to the index depends on "+map[bool]string{true: "the state of the index itself", false: "a side table"}[isCallInstr(offender)]+" ("+shortInstr(offender.(ssa.Instruction))+") computed from other records: records are skipped, and every operation logged between a skipped record and the one that 'supersedes' it sees a different state than at the time it was accepted")
					}
				}
			}
		}
	}
	c.Sites += n
	if n > 0 {
		c.ok("appliers", "selection conditions examined", "", fmt.Sprintf("%d conditions controlling applier calls", n))
	}
	c.minInstances("conditions controlling applier calls", n, 10)
}

// ---------------------------------------------------------------------------
// R-SHORTREAD (C19 C09): FileIO reports a read cut short by the end of the file as io.EOF, MMap as a
// short copy with a nil error; the entry decoder treats both as "what is there is zero" and the scan loops
// accept EOF. The byte count returned by RWManager.ReadAt must therefore not be turned into a different
// error: in the decoder the count is either ignored or only leads to io.EOF.

func ruleShortRead(c *Ctx) {
	readAt := c.P.MustFunc("(*DataFile).ReadAt")
	subjects := []*ssa.Function{readAt}
	calls(readAt, func(ci ssa.CallInstruction) {
		if cal := ci.Common().StaticCallee(); cal != nil && c.P.inModule(cal) && cal.Blocks != nil {
			subjects = append(subjects, cal)
		}
	})
	n := 0
	for _, f := range subjects {
		k := 0
		calls(f, func(ci ssa.CallInstruction) {
			cc := ci.Common()
			if !(cc.IsInvoke() && cc.Method.Name() == "ReadAt" && isRWManager(cc.Value.Type())) {
				return
			}
			n++
			k++
			c.touch(f)
			v, ok := ci.(ssa.Value)
			if !ok {
				return
			}
			var cnt *ssa.Extract
			for _, r := range *v.Referrers() {
				if ex, ok := r.(*ssa.Extract); ok && ex.Index == 0 {
					cnt = ex
				}
			}
			detail := fmt.Sprintf("the byte count of segment read #%d is not turned into an error", k)
			if cnt == nil || !hasRealReferrers(cnt) {
				c.ok(fnName(f), detail, c.P.ipos(ci), "count ignored")
				return
			}
			// the count is used: every If that tests it must not control a return of a non-EOF error
			var offender ssa.Instruction
			ei := errResultIndex(f)
			for _, ifi := range ifsOf(f) {
				uses := false
				backSlice(ifi.Cond, func(x ssa.Value) {
					if x == ssa.Value(cnt) {
						uses = true
					}
				})
				if !uses {
					continue
				}
				for si := range ifi.Block().Succs {
					for _, b := range exclusiveRegion(f, succEdge{ifi.Block(), si}) {
						if r, ok := b.Instrs[len(b.Instrs)-1].(*ssa.Return); ok && ei >= 0 && classifyRetOperand(r, ei) == retNonNil {
							isEOF := true
							for _, ev := range resolve(r.Results[ei]) {
								ld, ok := ev.(*ssa.UnOp)
								g, ok2 := (func() (*ssa.Global, bool) {
									if !ok {
										return nil, false
									}
									gg, ok := ld.X.(*ssa.Global)
									return gg, ok
								})()
								if !ok2 || g.Pkg == nil || g.Pkg.Pkg.Path() != "io" || g.Name() != "EOF" {
									isEOF = false
								}
							}
							if !isEOF && offender == nil {
								offender = r
							}
						}
					}
				}
			}
			c.check(offender == nil, fnName(f), detail, c.P.ipos(ci), "", "a short read (which MMap reports as a short copy with nil error near the end of a segment, FileIO as io.EOF) is turned into an error other than io.EOF: no scan loop treats it as end of data, so Open fails on a segment with fewer free bytes than a header when it is read through MMap, and FileIO and MMap disagree")
		})
	}
	c.Sites += n
	c.minInstances("RWManager.ReadAt calls in the entry decoder", n, 2)
}


func isCallInstr(v ssa.Value) bool { _, ok := v.(*ssa.Call); return ok }

// isIndexStructRecv: a method of one of the in-memory index structures.
func isIndexStructRecv(f *ssa.Function) bool {
	if f.Signature.Recv() == nil {
		return false
	}
	n := namedOf(f.Signature.Recv().Type())
	if n == nil || n.Obj().Pkg() == nil {
		return false
	}
	switch n.Obj().Pkg().Path() + "." + n.Obj().Name() {
	case modPath + ".BPTree", modPath + "/ds/list.List", modPath + "/ds/set.Set", modPath + "/ds/zset.SortedSet":
		return true
	}
	return false
}


func hasNonErrorResult(f *ssa.Function) bool {
	res := f.Signature.Results()
	for i := 0; i < res.Len(); i++ {
		if !isErrorType(res.At(i).Type()) {
			return true
		}
	}
	return false
}
