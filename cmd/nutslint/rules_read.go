package main

import (
	"fmt"
	"go/constant"
	"go/token"
	"go/types"
	"math/big"
	"sort"
	"strings"

	"golang.org/x/tools/go/ssa"
)

// ---------------------------------------------------------------------------
// R-LIVE (C01, C02): everything a KV read API returns passed the tombstone and
// the expiry guard.

// recordBase truncates an access path after its last index part: the identity
// of "the record" a field load or a derived value belongs to.
func recordBase(path string) string {
	if i := strings.LastIndexByte(path, ']'); i >= 0 {
		return path[:i+1]
	}
	if i := strings.IndexByte(path, '.'); i >= 0 {
		return path[:i]
	}
	return path
}

// subjectsOf: the record bases a value is derived from (itself, or the
// arguments of the call that produced it, e.g. df.ReadAt(int(r.H.dataPos))).
func subjectsOf(v ssa.Value) []string {
	v = resolve1(v)
	out := []string{recordBase(pathOf(v))}
	root, _ := splitPath(v)
	if ex, ok := root.(*ssa.Extract); ok {
		if call, ok := ex.Tuple.(*ssa.Call); ok {
			for _, a := range call.Call.Args {
				r, sfx := splitPath(a)
				if sfx != "" {
					_ = r
					out = append(out, recordBase(pathOf(a)))
				}
			}
		}
	}
	return out
}

type liveGuards struct {
	fn      *ssa.Function
	notDel  map[string][]succEdge // record base -> edges where Flag != DataDeleteFlag
	notExp  map[string][]succEdge // record base -> edges where !IsExpired
	delFlag int64
}

func liveGuardsOf(p *Prog, fn *ssa.Function) *liveGuards {
	g := &liveGuards{fn: fn, notDel: map[string][]succEdge{}, notExp: map[string][]succEdge{}}
	g.delFlag, _ = constIntVal(p.Const("DataDeleteFlag"))
	for _, i := range ifsOf(fn) {
		ca := decomposeIf(i)
		switch ca.Op {
		case token.EQL, token.NEQ:
			var fl ssa.Value
			if k, ok := constInt(ca.Y); ok && k == g.delFlag && isFieldLoad(ca.X, "MetaData", "Flag") {
				fl = ca.X
			} else if k, ok := constInt(ca.X); ok && k == g.delFlag && isFieldLoad(ca.Y, "MetaData", "Flag") {
				fl = ca.Y
			}
			if fl == nil {
				continue
			}
			eq := ca.Op == token.EQL
			if ca.Neg {
				eq = !eq
			}
			si := 1 // edge on which Flag != Delete
			if !eq {
				si = 0
			}
			b := recordBase(pathOf(fl))
			g.notDel[b] = append(g.notDel[b], succEdge{i.Block(), si})
		case token.ILLEGAL:
			call, ok := resolve1(ca.X).(*ssa.Call)
			if !ok {
				continue
			}
			var base string
			switch {
			case calleeIs(&call.Call, modPath, "", "IsExpired"):
				if !isFieldLoad(call.Call.Args[0], "MetaData", "TTL") || !isFieldLoad(call.Call.Args[1], "MetaData", "timestamp") {
					continue
				}
				b0, b1 := recordBase(pathOf(call.Call.Args[0])), recordBase(pathOf(call.Call.Args[1]))
				if b0 != b1 {
					continue
				}
				base = b0
			case calleeIs(&call.Call, modPath, "Record", "IsExpired"):
				base = recordBase(pathOf(call.Call.Args[0]))
			default:
				// a predicate that is true whenever its record is a tombstone or expired
				// (isDeletedOrExpired(e)): its false edge establishes both guards
				if cal := call.Call.StaticCallee(); cal != nil && len(call.Call.Args) == 1 && deadPredicate(p, cal) {
					b := recordBase(pathOf(call.Call.Args[0]))
					si := 1
					if ca.Neg {
						si = 0
					}
					g.notDel[b] = append(g.notDel[b], succEdge{i.Block(), si})
					g.notExp[b] = append(g.notExp[b], succEdge{i.Block(), si})
				}
				continue
			}
			si := 1 // edge on which IsExpired is false
			if ca.Neg {
				si = 0
			}
			g.notExp[base] = append(g.notExp[base], succEdge{i.Block(), si})
		}
	}
	return g
}

// guarded: blk is reached only after both guards held for one of the subjects.
func (g *liveGuards) guarded(v ssa.Value, blk *ssa.BasicBlock, prune func(*ssa.BasicBlock, int) bool) (bool, string) {
	subs := subjectsOf(v)
	for _, s := range subs {
		d := g.notDel[s]
		e := g.notExp[s]
		if len(d) > 0 && len(e) > 0 && domWithPrune(g.fn, d, blk, prune) && domWithPrune(g.fn, e, blk, prune) {
			return true, ""
		}
	}
	var missing []string
	for _, s := range subs {
		if !(len(g.notDel[s]) > 0 && domWithPrune(g.fn, g.notDel[s], blk, prune)) {
			missing = append(missing, "tombstone test (Flag != DataDeleteFlag) on "+s)
		}
		if !(len(g.notExp[s]) > 0 && domWithPrune(g.fn, g.notExp[s], blk, prune)) {
			missing = append(missing, "expiry test (!IsExpired) on "+s)
		}
		break
	}
	return false, strings.Join(missing, " and ")
}

func domWithPrune(fn *ssa.Function, edges []succEdge, sink *ssa.BasicBlock, prune func(*ssa.BasicBlock, int) bool) bool {
	if len(edges) == 0 {
		return false
	}
	r := reachFrom(fn.Blocks[0], func(b *ssa.BasicBlock, si int) bool {
		if prune != nil && prune(b, si) {
			return true
		}
		for _, e := range edges {
			if e.b == b && e.si == si {
				return true
			}
		}
		return false
	})
	return !r[sink]
}

func isEntrySliceType(t types.Type) bool {
	sl, ok := t.Underlying().(*types.Slice)
	if !ok {
		return false
	}
	return namedIs(sl.Elem(), "Entry")
}

func isEntryPtr(t types.Type) bool {
	_, ok := t.Underlying().(*types.Pointer)
	return ok && namedIs(t, "Entry")
}

// ---- no-limit specialisation -------------------------------------------------

// noLimitSpec binds the offset/limit parameters of the scan APIs to
// (0, ScanNoLimit) and prunes branches that are infeasible under that binding.
type noLimitSpec struct {
	p     *Prog
	bound map[*ssa.Parameter]int64
}

func newNoLimitSpec(c *Ctx, apis []*ssa.Function) *noLimitSpec {
	s := &noLimitSpec{p: c.P, bound: map[*ssa.Parameter]int64{}}
	noLimit, _ := constIntVal(c.P.Const("ScanNoLimit"))
	for _, m := range apis {
		// the last two int parameters of PrefixScan / PrefixSearchScan are (offsetNum, limitNum)
		var ints []*ssa.Parameter
		for _, p := range m.Params {
			if b, ok := p.Type().Underlying().(*types.Basic); ok && b.Kind() == types.Int {
				ints = append(ints, p)
			}
		}
		if len(ints) == 2 && (m.Name() == "PrefixScan" || m.Name() == "PrefixSearchScan") {
			s.bound[ints[0]] = 0
			s.bound[ints[1]] = noLimit
		}
	}
	cone := c.P.ModCone(apis...)
	inCone := map[*ssa.Function]bool{}
	for _, f := range cone {
		inCone[f] = true
	}
	for changed := true; changed; {
		changed = false
		for _, f := range cone {
			isAPI := false
			for _, m := range apis {
				if m == f {
					isAPI = true
				}
			}
			if isAPI {
				continue
			}
			for i, p := range f.Params {
				if _, done := s.bound[p]; done {
					continue
				}
				if b, ok := p.Type().Underlying().(*types.Basic); !ok || b.Kind() != types.Int {
					continue
				}
				var val *int64
				okAll := true
				nSites := 0
				for _, site := range c.P.CallersOf(f) {
					if !inCone[site.Parent()] {
						continue
					}
					nSites++
					args := site.Common().Args
					if site.Common().IsInvoke() || i >= len(args) {
						okAll = false
						break
					}
					v, ok := s.valueOf(args[i])
					if !ok || (val != nil && *val != v) {
						okAll = false
						break
					}
					val = &v
				}
				if okAll && nSites > 0 && val != nil {
					s.bound[p] = *val
					changed = true
				}
			}
		}
	}
	return s
}

func (s *noLimitSpec) valueOf(v ssa.Value) (int64, bool) {
	v = resolve1(v)
	if k, ok := constInt(v); ok {
		if _, isC := stripConv(v).(*ssa.Const); isC {
			return k, true
		}
	}
	if p, ok := v.(*ssa.Parameter); ok {
		k, ok := s.bound[p]
		return k, ok
	}
	return 0, false
}

// prune: edges infeasible under the binding. Facts used: len(x) >= 0.
func (s *noLimitSpec) prune(b *ssa.BasicBlock, si int) bool {
	if len(b.Instrs) == 0 {
		return false
	}
	i, ok := b.Instrs[len(b.Instrs)-1].(*ssa.If)
	if !ok {
		return false
	}
	ca := decomposeIf(i)
	if ca.Op == token.ILLEGAL {
		return false
	}
	val, known := s.evalCmp(ca.Op, ca.X, ca.Y)
	if !known {
		return false
	}
	if ca.Neg {
		val = !val
	}
	if val {
		return si == 1
	}
	return si == 0
}

type ival struct {
	lo, hi int64
	ok     bool
}

func (s *noLimitSpec) rangeOf(v ssa.Value) ival {
	if k, ok := s.valueOf(v); ok {
		return ival{k, k, true}
	}
	v = stripConv(resolve1(v))
	if call, ok := v.(*ssa.Call); ok {
		if bi, ok := call.Call.Value.(*ssa.Builtin); ok && bi.Name() == "len" {
			return ival{0, 1 << 60, true}
		}
	}
	return ival{}
}

func (s *noLimitSpec) evalCmp(op token.Token, x, y ssa.Value) (bool, bool) {
	a, b := s.rangeOf(x), s.rangeOf(y)
	if !a.ok || !b.ok {
		return false, false
	}
	switch op {
	case token.EQL:
		if a.hi < b.lo || b.hi < a.lo {
			return false, true
		}
		if a.lo == a.hi && b.lo == b.hi && a.lo == b.lo {
			return true, true
		}
	case token.NEQ:
		if a.hi < b.lo || b.hi < a.lo {
			return true, true
		}
		if a.lo == a.hi && b.lo == b.hi && a.lo == b.lo {
			return false, true
		}
	case token.LSS:
		if a.hi < b.lo {
			return true, true
		}
		if a.lo >= b.hi {
			return false, true
		}
	case token.LEQ:
		if a.hi <= b.lo {
			return true, true
		}
		if a.lo > b.hi {
			return false, true
		}
	case token.GTR:
		if a.lo > b.hi {
			return true, true
		}
		if a.hi <= b.lo {
			return false, true
		}
	case token.GEQ:
		if a.lo >= b.hi {
			return true, true
		}
		if a.hi < b.lo {
			return false, true
		}
	}
	return false, false
}

// ---- the rule ----------------------------------------------------------------

type liveAnalysis struct {
	c      *Ctx
	spec   *noLimitSpec
	memo   map[*ssa.Function]int // 1 live, 2 not, 3 in progress
	why    map[*ssa.Function]string
	filter map[*ssa.Function]bool
	// committed: judge the committed-transaction guard instead of the tombstone/expiry guards
	committed bool
}

// guardedAt dispatches to the guard family of this analysis.
func (a *liveAnalysis) guardedAt(fn *ssa.Function, v ssa.Value, blk *ssa.BasicBlock) (bool, string) {
	if a.committed {
		es := committedGuardEdges(fn)
		if len(es) > 0 && domWithPrune(fn, es, blk, a.spec.prune) {
			return true, ""
		}
		return false, "committed-transaction test on " + dispPath(v)
	}
	return liveGuardsOf(a.c.P, fn).guarded(v, blk, a.spec.prune)
}

// isLiveFilter: fn returns a []*Entry all of whose appended elements passed both guards.
func (a *liveAnalysis) appendsGuarded(fn *ssa.Function) (bool, int, string, ssa.Instruction) {
	n := 0
	reach := reachFrom(fn.Blocks[0], a.spec.prune)
	var bad string
	var badIn ssa.Instruction
	instrs(fn, func(in ssa.Instruction) {
		call, ok := in.(*ssa.Call)
		if !ok || !reach[in.Block()] {
			return
		}
		bi, ok := call.Call.Value.(*ssa.Builtin)
		if !ok || bi.Name() != "append" || !isEntrySliceType(call.Type()) {
			return
		}
		n++
		// the appended elements
		var elems []ssa.Value
		if sl, ok := call.Call.Args[1].(*ssa.Slice); ok {
			if arr, ok := sl.X.(*ssa.Alloc); ok {
				for _, r := range *arr.Referrers() {
					if ia, ok := r.(*ssa.IndexAddr); ok {
						for _, rr := range *ia.Referrers() {
							if st, ok := rr.(*ssa.Store); ok && st.Addr == ssa.Value(ia) {
								elems = append(elems, st.Val)
							}
						}
					}
				}
			}
		}
		if len(elems) == 0 {
			// append(a, b...): b must itself be live
			if ok, why := a.valueLive(fn, call.Call.Args[1], in.Block(), 0); !ok && bad == "" {
				bad, badIn = "appends a slice that is not known to be filtered: "+why, in
			}
			return
		}
		for _, e := range elems {
			if ok, why := a.guardedAt(fn, e, in.Block()); !ok && bad == "" {
				// the element belongs to a record this function is handed: the guards may be at the call sites
				if a.guardedAtCallers(fn, e, 0) {
					continue
				}
				bad, badIn = "appends an entry without the "+why, in
			}
		}
	})
	return bad == "", n, bad, badIn
}

// valueLive: v (an *Entry or []*Entry reaching block blk of fn) is nil, guarded, or comes from a live source.
func (a *liveAnalysis) valueLive(fn *ssa.Function, v ssa.Value, blk *ssa.BasicBlock, depth int) (bool, string) {
	if depth > 8 {
		return false, "too deep"
	}
	for _, r := range resolve(v) {
		if isNilConst(r) {
			continue
		}
		switch x := r.(type) {
		case *ssa.Parameter:
			// an entry handed in and checked here (a "return it if it is live" helper)
			if !isEntrySliceType(x.Type()) {
				if ok, _ := a.guardedAt(fn, x, blk); ok {
					continue
				}
			}
			// the caller's slice being extended: judged at the call site (callers pass nil / live values)
			if isEntrySliceType(x.Type()) {
				ok := true
				for _, s := range a.c.P.CallersOf(fn) {
					i := paramIndex(fn, x)
					if i < len(s.Common().Args) {
						if l, _ := a.valueLive(s.Parent(), s.Common().Args[i], s.Block(), depth+1); !l {
							ok = false
						}
					}
				}
				if ok {
					continue
				}
			}
			return false, "parameter " + x.Name()
		case *ssa.Call:
			if bi, isB := x.Call.Value.(*ssa.Builtin); isB && bi.Name() == "append" {
				// appends inside fn are judged by appendsGuarded(fn)
				if ok, _, why, _ := a.appendsGuarded(fn); ok {
					continue
				} else {
					return false, why
				}
			}
			if cal := x.Call.StaticCallee(); cal != nil && a.returnsLive(cal) {
				continue
			}
			return false, "result of " + calleeName(&x.Call)
		case *ssa.Extract:
			if call, ok := x.Tuple.(*ssa.Call); ok {
				if cal := call.Call.StaticCallee(); cal != nil && a.c.P.inModule(cal) && (isEntryPtr(x.Type()) || isEntrySliceType(x.Type())) {
					if a.returnsLive(cal) {
						continue
					}
					return false, "result of " + fnName(cal) + ", which can return an unfiltered entry (" + a.why[cal] + ")"
				}
			}
			// individually guarded value
			if ok, why := a.guardedAt(fn, x, blk); ok {
				continue
			} else {
				return false, "value " + dispPath(x) + " lacks the " + why
			}
		case *ssa.MakeSlice, *ssa.Alloc:
			continue
		case *ssa.Slice:
			if l, why := a.valueLive(fn, x.X, blk, depth+1); l {
				continue
			} else {
				return false, why
			}
		default:
			if ok, why := a.guardedAt(fn, r, blk); ok {
				continue
			} else {
				return false, "value " + dispPath(r) + " lacks the " + why
			}
		}
	}
	return true, ""
}

// returnsLive: every *Entry / []*Entry result of fn on every feasible return is live.
func (a *liveAnalysis) returnsLive(fn *ssa.Function) bool {
	if fn.Blocks == nil {
		return false
	}
	switch a.memo[fn] {
	case 1:
		return true
	case 2:
		return false
	case 3:
		return true
	}
	a.memo[fn] = 3
	res := true
	reach := reachFrom(fn.Blocks[0], a.spec.prune)
	for _, r := range returnsOf(fn) {
		if !reach[r.Block()] {
			continue
		}
		for i, rv := range r.Results {
			if !(isEntryPtr(rv.Type()) || isEntrySliceType(rv.Type())) {
				continue
			}
			_ = i
			if ok, why := a.valueLive(fn, rv, r.Block(), 0); !ok {
				res = false
				a.why[fn] = fmt.Sprintf("%s: %s", a.c.P.ipos(r), why)
			}
		}
	}
	if res {
		a.memo[fn] = 1
	} else {
		a.memo[fn] = 2
	}
	return res
}

func kvReadAPIs(c *Ctx) []*ssa.Function {
	var out []*ssa.Function
	for _, n := range []string{"Get", "GetAll", "RangeScan", "PrefixScan", "PrefixSearchScan"} {
		out = append(out, c.P.MustFunc("(*Tx)."+n))
	}
	return out
}

func ruleLive(c *Ctx) {
	apis := kvReadAPIs(c)
	a := &liveAnalysis{c: c, spec: newNoLimitSpec(c, apis), memo: map[*ssa.Function]int{}, why: map[*ssa.Function]string{}}
	// (a) every append of an entry in the read cone is guarded or appends a live slice
	nApp := 0
	for _, f := range c.P.ModCone(apis...) {
		if f.Pkg != c.P.Main {
			continue
		}
		ok, n, why, in := a.appendsGuarded(f)
		if n == 0 {
			continue
		}
		nApp += n
		c.touch(f)
		c.Sites += n
		_ = ok
		_ = why
		_ = in
	}
	// (b) per API and per feasible return
	for _, m := range apis {
		c.touch(m)
		reach := reachFrom(m.Blocks[0], a.spec.prune)
		k := 0
		for _, r := range returnsOf(m) {
			if !reach[r.Block()] {
				continue
			}
			for _, rv := range r.Results {
				if !(isEntryPtr(rv.Type()) || isEntrySliceType(rv.Type())) {
					continue
				}
				allNil := true
				for _, v := range resolve(rv) {
					if !isNilConst(v) {
						allNil = false
					}
				}
				if allNil {
					continue
				}
				k++
				ok, why := a.valueLive(m, rv, r.Block(), 0)
				c.check(ok, fnName(m), fmt.Sprintf("result at return #%d passed the tombstone and expiry guards", k), c.P.ipos(r),
					"every entry that can reach this return was individually guarded or produced by a filtering function", "a deleted or expired entry can be returned: "+why)
			}
		}
		c.minInstances("entry-returning paths of "+fnName(m), k, 1)
	}
	c.minInstances("entry appends in the KV read cone", nApp, 8)
	// IsExpired call sites pass (X.TTL, X.timestamp) of one record
	n := 0
	for _, f := range c.P.SrcFuncs {
		calls(f, func(ci ssa.CallInstruction) {
			cc := ci.Common()
			if !calleeIs(cc, modPath, "", "IsExpired") {
				return
			}
			n++
			okb := isFieldLoad(cc.Args[0], "MetaData", "TTL") && isFieldLoad(cc.Args[1], "MetaData", "timestamp") &&
				recordBase(pathOf(cc.Args[0])) == recordBase(pathOf(cc.Args[1]))
			c.check(okb, fnName(f), fmt.Sprintf("IsExpired call #%d receives (TTL, timestamp) of one record", n), c.P.ipos(ci), "", "IsExpired is not called with the TTL and timestamp of the same record, in that order")
		})
	}
	c.minInstances("IsExpired call sites", n, 3)
}

// ---------------------------------------------------------------------------
// R-EXPIRY: the expiry predicate equals the specification on a grid of values
// on both sides of, and exactly at, the expiry instant (Engine G).

func ruleExpiry(c *Ctx) {
	f := c.P.MustFunc("IsExpired")
	c.touch(f)
	if len(f.Params) != 2 {
		c.undecided("IsExpired", "signature", "", "expected IsExpired(ttl, timestamp)")
		return
	}
	rows, bad, und := 0, 0, 0
	var firstBad string
	// The grid has the record's timestamp before, at and after "now" (PutWithTimestamp accepts
	// timestamps ahead of the clock), TTLs up to the largest uint32 and timestamps beyond 2^32,
	// so a predicate that is only right when now >= timestamp, or that narrows an operand,
	// differs from the specification on some row. Integer operations are evaluated with Go's
	// wrap-around semantics at the static type of each SSA value.
	ttls := []int64{0, 1, 3, 10, 4294967295}
	tss := []int64{0, 5, 100, 1700000000, 4294967296 + 5}
	for _, ttl := range ttls {
		for _, ts := range tss {
			nows := []int64{0, 4, 5, 6, 7, 8, 9, 14, 15, 16, 99, 100, 101, 102, 103, 104, 109, 110, 111, 1000, 1699999999, 1700000000, 1700000001,
				ts - 1, ts, ts + 1, ts + ttl - 1, ts + ttl, ts + ttl + 1, ts + 4294967296, ts + ttl + 4294967296}
			for _, now := range nows {
				if now < 0 {
					continue
				}
				env := map[ssa.Value]interface{}{f.Params[0]: normInt(big.NewInt(ttl), f.Params[0].Type()), f.Params[1]: normInt(big.NewInt(ts), f.Params[1].Type())}
				res, ok := evalFunc(f, env, func(call *ssa.Call) (interface{}, bool) {
					if cal := call.Call.StaticCallee(); cal != nil && cal.String() == "(time.Time).Unix" {
						return big.NewInt(now), true
					}
					if cal := call.Call.StaticCallee(); cal != nil && cal.String() == "time.Now" {
						return "now", true
					}
					return nil, false
				})
				rows++
				if !ok {
					und++
					continue
				}
				want := ttl != 0 && now >= ts+ttl
				if res != interface{}(want) {
					bad++
					if firstBad == "" {
						firstBad = fmt.Sprintf("ttl=%d timestamp=%d now=%d: IsExpired returns %v, specification (ttl != 0 && now >= timestamp+ttl) says %v", ttl, ts, now, res, want)
					}
				}
			}
		}
	}
	c.Sites += rows
	switch {
	case und > 0:
		c.undecided("IsExpired", "truth table", c.P.pos(f.Pos()), fmt.Sprintf("%d of %d rows could not be evaluated", und, rows))
	default:
		c.check(bad == 0, "IsExpired", "equals the specification on the grid", c.P.pos(f.Pos()), fmt.Sprintf("%d valuations of (ttl, timestamp, now) including now == timestamp+ttl", rows), firstBad)
	}
	// Record.IsExpired delegates with its own meta
	rf := c.P.MustFunc("(*Record).IsExpired")
	c.touch(rf)
	okb := false
	calls(rf, func(ci ssa.CallInstruction) {
		cc := ci.Common()
		if calleeIs(cc, modPath, "", "IsExpired") {
			r0, _ := splitPath(cc.Args[0])
			okb = isFieldLoad(cc.Args[0], "MetaData", "TTL") && isFieldLoad(cc.Args[1], "MetaData", "timestamp") && r0 == ssa.Value(rf.Params[0])
		}
	})
	c.check(okb, "(*Record).IsExpired", "delegates to IsExpired(r.H.meta.TTL, r.H.meta.timestamp)", c.P.pos(rf.Pos()), "", "Record.IsExpired does not evaluate the expiry predicate on the record's own TTL and timestamp")
}

// evalFunc evaluates a loop-free function over concrete atoms. It follows the
// CFG, evaluating constants, parameters, comparisons, integer arithmetic and
// boolean operators; calls are resolved by the oracle. ok=false if anything
// else is met (never guesses).
func evalFunc(f *ssa.Function, env map[ssa.Value]interface{}, oracle func(*ssa.Call) (interface{}, bool)) (interface{}, bool) {
	vals := map[ssa.Value]interface{}{}
	for k, v := range env {
		vals[k] = v
	}
	var ev func(v ssa.Value) (interface{}, bool)
	ev = func(v ssa.Value) (interface{}, bool) {
		if r, ok := vals[v]; ok {
			return r, true
		}
		switch x := v.(type) {
		case *ssa.Const:
			if b, ok := constBool(x); ok {
				return b, true
			}
			if i, ok := constBig(x); ok {
				return normInt(i, x.Type()), true
			}
			return nil, false
		case *ssa.Convert:
			r, ok := ev(x.X)
			if !ok {
				return nil, false
			}
			if bi, isInt := r.(*big.Int); isInt {
				if !isIntegerType(x.Type()) {
					return nil, false
				}
				return normInt(bi, x.Type()), true
			}
			return r, true
		case *ssa.ChangeType:
			return ev(x.X)
		}
		return nil, false
	}
	b := f.Blocks[0]
	var prev *ssa.BasicBlock
	for steps := 0; steps < 200; steps++ {
		for _, in := range b.Instrs {
			switch x := in.(type) {
			case *ssa.Phi:
				for i, p := range b.Preds {
					if p == prev {
						r, ok := ev(x.Edges[i])
						if !ok {
							return nil, false
						}
						vals[x] = r
					}
				}
			case *ssa.BinOp:
				l, ok1 := ev(x.X)
				r, ok2 := ev(x.Y)
				if !ok1 || !ok2 {
					return nil, false
				}
				li, lok := l.(*big.Int)
				ri, rok := r.(*big.Int)
				lb, lbok := l.(bool)
				rb, rbok := r.(bool)
				switch {
				case lok && rok:
					switch x.Op {
					case token.ADD:
						vals[x] = normInt(new(big.Int).Add(li, ri), x.Type())
					case token.SUB:
						vals[x] = normInt(new(big.Int).Sub(li, ri), x.Type())
					case token.MUL:
						vals[x] = normInt(new(big.Int).Mul(li, ri), x.Type())
					case token.EQL:
						vals[x] = li.Cmp(ri) == 0
					case token.NEQ:
						vals[x] = li.Cmp(ri) != 0
					case token.LSS:
						vals[x] = li.Cmp(ri) < 0
					case token.LEQ:
						vals[x] = li.Cmp(ri) <= 0
					case token.GTR:
						vals[x] = li.Cmp(ri) > 0
					case token.GEQ:
						vals[x] = li.Cmp(ri) >= 0
					default:
						return nil, false
					}
				case lbok && rbok:
					switch x.Op {
					case token.EQL:
						vals[x] = lb == rb
					case token.NEQ:
						vals[x] = lb != rb
					default:
						return nil, false
					}
				default:
					return nil, false
				}
			case *ssa.UnOp:
				if x.Op == token.NOT {
					r, ok := ev(x.X)
					if !ok {
						return nil, false
					}
					vals[x] = !r.(bool)
				} else {
					return nil, false
				}
			case *ssa.Call:
				r, ok := oracle(x)
				if !ok {
					return nil, false
				}
				vals[x] = r
			case *ssa.Convert, *ssa.ChangeType, *ssa.DebugRef:
			case *ssa.If:
				r, ok := ev(x.Cond)
				if !ok {
					return nil, false
				}
				prev = b
				if r.(bool) {
					b = b.Succs[0]
				} else {
					b = b.Succs[1]
				}
			case *ssa.Jump:
				prev = b
				b = b.Succs[0]
			case *ssa.Return:
				if len(x.Results) != 1 {
					return nil, false
				}
				return ev(x.Results[0])
			default:
				return nil, false
			}
		}
	}
	return nil, false
}

var _ = sort.Strings

// constBig returns the exact value of an integer constant.
func constBig(c *ssa.Const) (*big.Int, bool) {
	if c.Value == nil || c.Value.Kind() != constant.Int {
		return nil, false
	}
	bi, ok := new(big.Int).SetString(c.Value.ExactString(), 10)
	return bi, ok
}

// normInt wraps v into the value range of the integer type t (Go's modular arithmetic;
// int/uint/uintptr are taken as 64-bit, the 32-bit configuration is covered by thorough's GOARCH=386 run
// through the type sizes of the loaded program).
func normInt(v *big.Int, t types.Type) *big.Int {
	b, ok := t.Underlying().(*types.Basic)
	if !ok || b.Info()&types.IsInteger == 0 {
		return v
	}
	bits := uint(64)
	switch b.Kind() {
	case types.Int8, types.Uint8:
		bits = 8
	case types.Int16, types.Uint16:
		bits = 16
	case types.Int32, types.Uint32:
		bits = 32
	case types.UntypedInt, types.UntypedRune:
		return v
	}
	mod := new(big.Int).Lsh(big.NewInt(1), bits)
	r := new(big.Int).Mod(v, mod) // Mod is Euclidean: 0 <= r < mod
	if b.Info()&types.IsUnsigned == 0 {
		half := new(big.Int).Rsh(mod, 1)
		if r.Cmp(half) >= 0 {
			r.Sub(r, mod)
		}
	}
	return r
}
