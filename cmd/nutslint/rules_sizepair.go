package main

import (
	"fmt"
	"go/token"
	"strings"

	"golang.org/x/tools/go/ssa"
)

// ---------------------------------------------------------------------------
// R-SIZEPAIR: Tx.Commit decides when to rotate from DataFile.ActualSize and writes at
// DataFile.writeOff. The two counters of the active segment therefore have to move together:
//   (1) every store that advances writeOff by d (x.writeOff = x.writeOff + d) stands next to a
//       store that advances ActualSize of the same object by the same d, and vice versa;
//   (2) when Open restores DB.ActiveFile.writeOff from a scan of the active segment, it also
//       restores DB.ActiveFile.ActualSize (the store is on the DB's active file, not on a
//       temporary handle) with the running scan offset (a value that flows into the returned
//       offset) or with the very value stored into writeOff.
// Otherwise, after a reopen, a segment is filled past its capacity: under MMap the write is
// truncated or refused and the next Open fails; FileIO and MMap disagree.

type fieldStore struct {
	st   *ssa.Store
	fn   *ssa.Function
	base string // access path of the struct the field belongs to
	onAF bool   // the struct is DB.ActiveFile
}

func sizeStores(c *Ctx, field string) []fieldStore {
	var out []fieldStore
	for _, f := range c.P.SrcFuncs {
		if !c.P.inModule(f) {
			continue
		}
		instrs(f, func(in ssa.Instruction) {
			st, ok := in.(*ssa.Store)
			if !ok {
				return
			}
			fa, ok := st.Addr.(*ssa.FieldAddr)
			if !ok {
				return
			}
			fv := fieldVarOf(fa)
			if fv == nil || fv.Name() != field || !namedIs(derefT(fa.X.Type()), "DataFile") {
				return
			}
			if al, ok := resolve1(fa.X).(*ssa.Alloc); ok && al.Comment == "complit" {
				return // constructor literal
			}
			out = append(out, fieldStore{st, f, pathOf(fa.X), isFieldLoad(fa.X, "DB", "ActiveFile") || paramBoundToField(c, fa.X, "DB", "ActiveFile")})
		})
	}
	return out
}

// advanceOf: st stores (load of the same field) + d; returns d.
func advanceOf(st *ssa.Store) ssa.Value {
	b, ok := st.Val.(*ssa.BinOp)
	if !ok || b.Op != token.ADD {
		return nil
	}
	same := func(v ssa.Value) bool {
		ld, ok := v.(*ssa.UnOp)
		if !ok || ld.Op != token.MUL {
			return false
		}
		fa, ok := ld.X.(*ssa.FieldAddr)
		sa := st.Addr.(*ssa.FieldAddr)
		return ok && fa.Field == sa.Field && pathOf(fa.X) == pathOf(sa.X)
	}
	switch {
	case same(b.X):
		return b.Y
	case same(b.Y):
		return b.X
	}
	return nil
}

func ruleSizePair(c *Ctx) {
	w := sizeStores(c, "writeOff")
	a := sizeStores(c, "ActualSize")
	c.Sites += len(w) + len(a)
	nAdv, nRestore := 0, 0
	pair := func(x fieldStore, others []fieldStore, xn, on string) {
		d := advanceOf(x.st)
		if d == nil {
			return
		}
		nAdv++
		c.touch(x.fn)
		okb := false
		for _, o := range others {
			if o.fn != x.fn || o.base != x.base || o.st.Block() != x.st.Block() {
				continue
			}
			if od := advanceOf(o.st); od != nil && sameValue(resolve1(od), resolve1(d)) {
				okb = true
			}
		}
		c.check(okb, fnName(x.fn), fmt.Sprintf("%s of %s advances together with %s", xn, strings.TrimPrefix(x.base, "tx."), on), c.P.ipos(x.st), "same object, same increment, same block",
			fmt.Sprintf("%s is advanced without advancing %s of the same file by the same amount: the rotation test (ActualSize) and the write position (writeOff) drift apart, so a segment is rotated too early or written past its capacity", xn, on))
	}
	for _, x := range w {
		pair(x, a, "writeOff", "ActualSize")
	}
	for _, x := range a {
		pair(x, w, "ActualSize", "writeOff")
	}
	c.minInstances("writeOff/ActualSize advances", nAdv, 2)

	// (2) restores in the open cone
	open := c.P.MustFunc("Open")
	inOpen := map[*ssa.Function]bool{}
	for _, f := range c.P.ModCone(open) {
		inOpen[f] = true
	}
	for _, x := range w {
		if !inOpen[x.fn] || advanceOf(x.st) != nil || !x.onAF {
			continue
		}
		nRestore++
		c.touch(x.fn)
		detail := "restoring ActiveFile.writeOff on open also restores ActiveFile.ActualSize"
		// the value stored: usually the result of the scan function
		val := resolve1(x.st.Val)
		var scanFn *ssa.Function
		if ex, ok := val.(*ssa.Extract); ok {
			val = ex.Tuple
		}
		if call, ok := val.(*ssa.Call); ok {
			scanFn = call.Call.StaticCallee()
		}
		okb, why := false, "no store to DB.ActiveFile.ActualSize accompanies the restored write offset: after a reopen ActualSize restarts at 0 while writeOff continues, the active segment is filled past its capacity (MMap: truncated or refused writes, the next Open fails; FileIO: the file outgrows the segment size)"
		for _, o := range a {
			if !inOpen[o.fn] || (o.fn != x.fn && o.fn != scanFn) {
				continue
			}
			if !o.onAF {
				why = "ActualSize is restored on " + o.base + ", which is not DB.ActiveFile: the database's active file keeps ActualSize 0 after a reopen while its writeOff continues"
				continue
			}
			// value: same as the one stored to writeOff, or flows into the scan function's returned offset
			if o.fn == x.fn && sameValue(resolve1(o.st.Val), resolve1(x.st.Val)) {
				okb = true
				break
			}
			if o.fn == scanFn && flowsToReturn(scanFn, o.st.Val) {
				okb = true
				break
			}
			why = "the value stored into ActualSize is not the running scan offset that becomes the restored writeOff"
		}
		c.check(okb, fnName(x.fn), detail, c.P.ipos(x.st), "", why)
		// the restored offset is the END of the scanned records: the value the scan function returns is the
		// very offset variable it passes to ReadAt (so every record read, committed or not, is stepped over)
		if scanFn != nil && scanFn.Blocks != nil {
			var readOff ssa.Value
			calls(scanFn, func(ci ssa.CallInstruction) {
				if calleeIs(ci.Common(), modPath, "DataFile", "ReadAt") && len(ci.Common().Args) >= 2 {
					readOff = stripConv(resolve1(ci.Common().Args[1]))
				}
			})
			if readOff != nil {
				c.touch(scanFn)
				c.check(flowsToReturn(scanFn, readOff), fnName(scanFn), "the restored write offset is the offset at which the scan stopped reading", c.P.pos(scanFn.Pos()), "",
					"the offset returned for DB.ActiveFile.writeOff is not the offset variable the scan passes to ReadAt: writing resumes before the end of the records already in the segment (e.g. after the last committed record), the next commit overwrites only part of the stale tail, and the bytes behind it are parsed as a record on the next Open")
			}
		}
	}
	c.minInstances("restores of ActiveFile.writeOff in the open cone", nRestore, 1)
}

// flowsToReturn: v reaches result 0 of some return of f through phis only.
func flowsToReturn(f *ssa.Function, v ssa.Value) bool {
	v = resolve1(v)
	for _, r := range returnsOf(f) {
		if len(r.Results) == 0 {
			continue
		}
		seen := map[ssa.Value]bool{}
		var reach func(x ssa.Value) bool
		reach = func(x ssa.Value) bool {
			x = resolve1(x)
			if x == v {
				return true
			}
			if seen[x] {
				return false
			}
			seen[x] = true
			if p, ok := x.(*ssa.Phi); ok {
				for _, e := range p.Edges {
					if reach(e) {
						return true
					}
				}
			}
			return false
		}
		if reach(r.Results[0]) {
			return true
		}
	}
	return false
}
