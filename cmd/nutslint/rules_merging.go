package main

import (
	"fmt"
	"sort"
	"go/token"
	"go/types"

	"golang.org/x/tools/go/ssa"
)

// ---------------------------------------------------------------------------
// R-MERGING-SCOPE (C11 C12 C15 C16 C17 C18): DB.isMerging is set at the start of Merge. Unless every
// exit of Merge clears it again, the flag outlives the merge, and whatever is made conditional on it
// (skipping a sync, an index update, a size check, the write lock, the position of the commit marker)
// silently applies to every later transaction on the handle. So: either no path leads from the store
// of true to a return of Merge without passing a store of false, or every test of the flag controls
// nothing but the choice of a constant (today: the key-count flag).

func ruleMergingScope(c *Ctx) {
	m := c.P.MustFunc("(*DB).Merge")
	c.touch(m)
	var setTrue []*ssa.Store
	isClear := func(in ssa.Instruction) bool {
		st, ok := in.(*ssa.Store)
		if !ok {
			return false
		}
		fa, ok := st.Addr.(*ssa.FieldAddr)
		if !ok || fieldVarOf(fa).Name() != "isMerging" || !namedIs(derefT(fa.X.Type()), "DB") {
			return false
		}
		b, ok := constBool(st.Val)
		return ok && !b
	}
	instrs(m, func(in ssa.Instruction) {
		if st, ok := in.(*ssa.Store); ok {
			if fa, ok := st.Addr.(*ssa.FieldAddr); ok && fieldVarOf(fa).Name() == "isMerging" && namedIs(derefT(fa.X.Type()), "DB") {
				if b, ok := constBool(st.Val); ok && b {
					setTrue = append(setTrue, st)
				}
			}
		}
	})
	if len(setTrue) == 0 {
		c.undecided(fnName(m), "store of true into DB.isMerging", "", "Merge no longer sets DB.isMerging; the rule's anchor moved")
		return
	}
	resetAlways := true
	for _, st := range setTrue {
		if w := findPath(m, st, func(in ssa.Instruction) bool { _, ok := in.(*ssa.Return); return ok }, isClear, nil); w != nil {
			resetAlways = false
		}
	}
	// values that carry the flag: loads of DB.isMerging, phis that merge constants selected under a test of a
	// carrier (countFlag := A; if isMerging { countFlag = B }), conversions/negations, and parameters that
	// receive a carrier at some call site
	carrier := map[ssa.Value]bool{}
	for changed := true; changed; {
		changed = false
		mark := func(v ssa.Value) {
			if v != nil && !carrier[v] {
				carrier[v] = true
				changed = true
			}
		}
		for _, f := range c.P.SrcFuncs {
			if !c.P.inModule(f) || f.Pkg != c.P.Main {
				continue
			}
			instrs(f, func(in ssa.Instruction) {
				switch x := in.(type) {
				case *ssa.UnOp:
					if x.Op == token.MUL && isFieldLoad(x, "DB", "isMerging") {
						mark(x)
					} else if carrier[x.X] && x.Op == token.NOT {
						mark(x)
					}
				case *ssa.Phi:
					// a phi of constants placed where the arms of a carrier test join
					for _, e := range x.Edges {
						if carrier[e] {
							mark(x)
						}
					}
					if bt, ok := x.Type().Underlying().(*types.Basic); ok && bt.Info()&types.IsBoolean != 0 {
						for _, pb := range x.Block().Preds {
							for _, ifi := range ifsOf(f) {
								if !carrier[ifi.Cond] {
									continue
								}
								for si := range ifi.Block().Succs {
									if ifi.Block().Succs[si] == pb || ifi.Block() == pb {
										mark(x)
									}
								}
							}
						}
					}
				case ssa.CallInstruction:
					for _, cal := range c.P.Callees(x) {
						if !c.P.inModule(cal) || cal.Blocks == nil {
							continue
						}
						params := cal.Params
						args := x.Common().Args
						if x.Common().IsInvoke() && len(params) > 0 {
							params = params[1:]
						}
						for ai, a := range args {
							if carrier[a] && ai < len(params) {
								mark(params[ai])
							}
						}
					}
				}
			})
		}
	}
	n := 0
	var fns []*ssa.Function
	for _, f := range c.P.SrcFuncs {
		if c.P.inModule(f) && f.Pkg == c.P.Main {
			fns = append(fns, f)
		}
	}
	sort.Slice(fns, func(i, j int) bool { return fnKey(fns[i]) < fnKey(fns[j]) })
	for _, f := range fns {
		k := 0
		for _, ifi := range ifsOf(f) {
			uses := carrier[ifi.Cond]
			if b, ok := ifi.Cond.(*ssa.BinOp); ok && (b.Op == token.EQL || b.Op == token.NEQ) && (carrier[b.X] || carrier[b.Y]) {
				uses = true
			}
			if !uses {
				continue
			}
			n++
			k++
			c.touch(f)
			detail := fmt.Sprintf("test #%d of DB.isMerging (or of a flag derived from it) controls nothing that outlives the merge", k)
			if resetAlways {
				c.ok(fnName(f), detail, c.P.ipos(ifi), "Merge clears the flag on every exit")
				continue
			}
			var offender ssa.Instruction
			for si := range ifi.Block().Succs {
				for _, b := range exclusiveRegion(f, succEdge{ifi.Block(), si}) {
					for _, in := range b.Instrs {
						switch x := in.(type) {
						case *ssa.Store:
							if al, ok := x.Addr.(*ssa.Alloc); ok && !al.Heap {
								continue
							}
							// the one thing the flag is for: the valid-key counter of a B+ tree
							if fa, ok := x.Addr.(*ssa.FieldAddr); ok && fieldVarOf(fa).Name() == "ValidKeyCount" {
								continue
							}
							if offender == nil {
								offender = in
							}
						case *ssa.MapUpdate, *ssa.Return, *ssa.Go, *ssa.Defer, *ssa.Panic:
							if offender == nil {
								offender = in
							}
						case ssa.CallInstruction:
							if _, isB := x.Common().Value.(*ssa.Builtin); isB {
								continue
							}
							// a helper whose only effect is the valid-key counter
							if onlyWritesValidKeyCount(c, x) {
								continue
							}
							if offender == nil {
								offender = in
							}
						}
					}
				}
			}
			if offender == nil {
				c.ok(fnName(f), detail, c.P.ipos(ifi), "the test only selects a constant or adjusts the valid-key counter")
			} else {
				c.bad(fnName(f), detail, c.P.ipos(offender),
					"behaviour is made conditional on DB.isMerging (directly or through a flag computed from it, such as the count flag handed to BPTree.Insert), but Merge does not clear DB.isMerging on its success path: after the first successful Merge the flag stays set, so this branch ("+shortInstr(offender)+") applies to every later transaction on the handle, not only to the merge rewrite")
			}
		}
	}
	c.Sites += n
	c.minInstances("tests of DB.isMerging", n, 1)
}

// ---------------------------------------------------------------------------
// R-STATUS-USE (C10 C22): only the LAST record of a transaction carries status == Committed on disk.
// The only sound uses of a decoded record's status are the recovery guard that registers the
// transaction id and stores of the constant. A read path that filters on status hides every
// non-final record of a committed multi-record transaction (in key-only mode, where values are
// read back from the segment), so the two RAM index modes disagree.

func ruleStatusUse(c *Ctx) {
	cv, _ := constIntVal(c.P.Const("Committed"))
	open := c.P.MustFunc("Open")
	inOpen := map[*ssa.Function]bool{}
	for _, f := range c.P.ModCone(open) {
		inOpen[f] = true
	}
	n := 0
	for _, f := range c.P.SrcFuncs {
		if !c.P.inModule(f) || f.Pkg != c.P.Main {
			continue
		}
		k := 0
		for _, ifi := range ifsOf(f) {
			a := decomposeIf(ifi)
			if a.Op != token.EQL && a.Op != token.NEQ {
				continue
			}
			var st ssa.Value
			for _, p := range [][2]ssa.Value{{a.X, a.Y}, {a.Y, a.X}} {
				if p[0] != nil && isFieldLoad(p[0], "MetaData", "status") {
					if kv, ok := constInt(p[1]); ok && kv == cv {
						st = p[0]
					}
				}
			}
			if st == nil {
				continue
			}
			n++
			k++
			c.touch(f)
			detail := fmt.Sprintf("test #%d of a record's status is the recovery guard of a committed-id registration", k)
			// accepted: the equal edge dominates an insertion into a committed-id set keyed by the same record's txID
			okb := false
			if inOpen[f] {
				eq := eqEdges(f, true, func(x, y ssa.Value) bool {
					kv, ok := constInt(y)
					return ok && kv == cv && sameValue(x, st)
				})
				instrs(f, func(in ssa.Instruction) {
					if mu, ok := in.(*ssa.MapUpdate); ok && isFieldLoad(mu.Key, "MetaData", "txID") && edgesDominate(f, eq, mu.Block()) {
						okb = true
					}
				})
			}
			// ... and it guards nothing else: any other update made only for records stamped Committed leaves out
			// every earlier record of a multi-record transaction
			if okb {
				eq := eqEdges(f, true, func(x, y ssa.Value) bool {
					kv, ok := constInt(y)
					return ok && kv == cv && sameValue(x, st)
				})
				for _, b := range f.Blocks {
					if !edgesDominate(f, eq, b) {
						continue
					}
					for _, in := range b.Instrs {
						other := ""
						switch x := in.(type) {
						case *ssa.MapUpdate:
							if !isFieldLoad(x.Key, "MetaData", "txID") {
								other = "an update of " + dispPath(x.Map)
							}
						case *ssa.Store:
							switch x.Addr.(type) {
							case *ssa.FieldAddr, *ssa.IndexAddr:
								if root, _ := splitPath(x.Addr); root != nil {
									if _, fresh := root.(*ssa.Alloc); fresh {
										continue // initialising an object built here
									}
								}
								other = "a store to " + dispPath(x.Addr)
							}
						}
						if other != "" {
							c.bad(fnName(f), fmt.Sprintf("test #%d of a record's status guards only the committed-id registration", k), c.P.ipos(in),
								other+" happens only for records whose on-disk status is Committed: only the LAST record of a transaction carries that stamp, so every earlier record of a committed multi-record transaction is left out of it (e.g. its position is missing from the table the next rotation serialises, and the sealed segment's index points the key at offset 0)")
						}
					}
				}
			}
			c.check(okb, fnName(f), detail, c.P.ipos(ifi), "",
				"a record's on-disk status is tested outside the recovery guard: only the last record of a transaction is stamped Committed, so filtering on it rejects every earlier record of a committed multi-record transaction (whether a transaction committed is decided by its id in DB.committedTxIds)")
		}
	}
	c.Sites += n
	c.minInstances("tests of MetaData.status against Committed", n, 1)
}

// ---------------------------------------------------------------------------
// R-COMMITSET-ALWAYS (C10 C15 C16): the commit-time registration of the transaction id in
// DB.committedTxIds is controlled only by "this is the marker record", by the index mode, and by
// error tests: every transaction that commits in a RAM index mode is registered. Merge keeps only
// records whose id is registered, so a transaction left out (say, one without key/value records)
// loses its records at the next Merge.

func ruleCommitSetAlways(c *Ctx) {
	wl := findWriteLoop(c)
	f := wl.fn
	c.touch(f)
	n := 0
	sym := func(v ssa.Value) string {
		if sameValue(v, wl.idx) {
			return "IDX"
		}
		if isFieldLoad(v, "Tx", "pendingWrites") {
			return "PW"
		}
		return pathOf(v)
	}
	// offendingControl: an If of fn that controls block b and is not one of the accepted kinds
	offendingControl := func(fn *ssa.Function, b *ssa.BasicBlock) *ssa.If {
		for _, ifi := range ifsOf(fn) {
			controls := false
			for si := range ifi.Block().Succs {
				if edgesDominate(fn, []succEdge{{ifi.Block(), si}}, b) {
					controls = true
				}
			}
			if !controls {
				continue
			}
			a := decomposeIf(ifi)
			okc := false
			switch {
			case a.Op == token.EQL || a.Op == token.NEQ:
				if isNilConst(a.Y) || isNilConst(a.X) {
					okc = true
				}
				for _, v := range []ssa.Value{a.X, a.Y} {
					if v != nil && isFieldLoad(v, "Options", "EntryIdxMode") {
						okc = true
					}
				}
				d := linAdd(linOf(a.X, sym), linOf(a.Y, sym), -1)
				if _, hasIdx := d.terms["IDX"]; hasIdx {
					okc = true
				}
				if _, hasPW := d.terms["len(PW)"]; hasPW {
					okc = true // the empty-transaction early exit
				}
			case a.Op == token.LSS || a.Op == token.LEQ || a.Op == token.GTR || a.Op == token.GEQ:
				d := linAdd(linOf(a.X, sym), linOf(a.Y, sym), -1)
				if _, hasIdx := d.terms["IDX"]; hasIdx {
					okc = true // the loop condition
				}
				for _, v := range []ssa.Value{a.X, a.Y} {
					backSlice(v, func(x ssa.Value) {
						if isFieldLoad(x, "Options", "SegmentSize") {
							okc = true
						}
					})
				}
				if _, hasPW := d.terms["len(PW)"]; hasPW {
					okc = true
				}
			case a.Op == token.ILLEGAL:
				if a.X != nil && (isFieldLoad(a.X, "Options", "SyncEnable") || isFieldLoad(a.X, "DB", "isMerging")) {
					okc = true
				}
			}
			if t, ok := ifi.Cond.Type().Underlying().(*types.Basic); ok && t.Kind() == types.Bool && !okc {
				return ifi
			}
		}
		return nil
	}
	report := func(pos string, offender *ssa.If) {
		if offender == nil {
			c.ok(fnName(f), "every transaction committing in a RAM index mode registers its id", pos, "controlled only by the marker-record test, the index mode and error tests")
		} else {
			c.bad(fnName(f), "every transaction committing in a RAM index mode registers its id", c.P.ipos(offender),
				"the registration of the transaction id in DB.committedTxIds depends on an additional condition ("+shortInstr(offender)+"): transactions for which it is false commit without being registered, and Merge, which keeps only records of registered transactions, drops their records from disk")
		}
	}
	isReg := func(in ssa.Instruction) bool {
		mu, ok := in.(*ssa.MapUpdate)
		return ok && isFieldLoad(mu.Map, "DB", "committedTxIds")
	}
	instrs(f, func(in ssa.Instruction) {
		if isReg(in) {
			n++
			report(c.P.ipos(in), offendingControl(f, in.Block()))
			return
		}
		// a helper called from the write-loop function that performs the registration
		ci, ok := in.(ssa.CallInstruction)
		if !ok {
			return
		}
		cal := ci.Common().StaticCallee()
		if cal == nil || !c.P.inModule(cal) || cal.Blocks == nil || cal.Pkg != c.P.Main {
			return
		}
		instrs(cal, func(in2 ssa.Instruction) {
			if !isReg(in2) {
				return
			}
			n++
			c.touch(cal)
			off := offendingControl(f, in.Block())
			if off == nil {
				// inside the helper the loop index is not visible: only mode, error and nil tests are accepted there
				off = offendingControl(cal, in2.Block())
			}
			report(c.P.ipos(in2), off)
		})
	})
	c.Sites += n
	c.minInstances("commit-time registrations in DB.committedTxIds", n, 1)
}

// onlyWritesValidKeyCount: every callee of the call is a module function whose transitive effect summary writes
// nothing but BPTree.ValidKeyCount (and fresh objects) and touches no file.
func onlyWritesValidKeyCount(c *Ctx, ci ssa.CallInstruction) bool {
	fx := getEffects(c)
	cals := c.P.Callees(ci)
	if len(cals) == 0 {
		return false
	}
	for _, cal := range cals {
		if !c.P.inModule(cal) || cal.Blocks == nil {
			return false
		}
		sm := fx.sum[cal]
		if sm == nil {
			return false
		}
		for _, ev := range sm.writes {
			if ev.Root == "F" {
				continue
			}
			if ev.Loc != "BPTree.ValidKeyCount" {
				return false
			}
		}
		if len(fsSitesIn(c.P, cal)) > 0 {
			return false
		}
	}
	return true
}
