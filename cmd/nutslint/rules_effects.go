package main

import (
	"fmt"
	"go/token"
	"go/types"
	"sort"
	"strings"

	"golang.org/x/tools/go/ssa"
)

// ---------------------------------------------------------------------------
// R-RO / R-OWN / R-VISIBLE / backup / globals (Engine A clients)

func exportedMethods(c *Ctx, typ string) []*ssa.Function {
	var out []*ssa.Function
	for _, m := range c.P.Methods(c.P.Named("", typ)) {
		if isExported(m) {
			out = append(out, m)
		}
	}
	sort.Slice(out, func(i, j int) bool { return fnKey(out[i]) < fnKey(out[j]) })
	return out
}

func reachesFn(p *Prog, from, to *ssa.Function) bool {
	return p.Cone(nil, from)[to]
}

func (c *Ctx) describe(ev *effEvent) string {
	s := fmt.Sprintf("%s (root %s) written at %s in %s", ev.Loc, ev.Root, c.P.pos(ev.Pos), fnName(ev.Fn))
	if ev.Via != "" {
		s += " via " + ev.Via
	}
	if ev.CondPar >= 0 {
		s += fmt.Sprintf(" [only when parameter #%d is %v]", ev.CondPar, ev.CondVal)
	}
	return s
}

// groupEvents groups events by the function that contains the primitive.
func groupByFn(evs []*effEvent) map[string][]*effEvent {
	out := map[string][]*effEvent{}
	for _, e := range evs {
		out[fnName(e.Fn)] = append(out[fnName(e.Fn)], e)
	}
	return out
}

// isRWCtor: function constructs an RWManager implementation (opens a segment file).
func isRWCtor(c *Ctx, f *ssa.Function) bool {
	if f.Signature.Results().Len() == 0 {
		return false
	}
	t := f.Signature.Results().At(0).Type()
	n := namedOf(t)
	if n == nil || n.Obj().Pkg() == nil || n.Obj().Pkg().Path() != modPath {
		return false
	}
	for _, m := range c.P.Methods(n) {
		if m.Name() == "Sync" {
			// has the RWManager method set (checked precisely by R-SYNCIMPL)
			return strings.HasSuffix(n.Obj().Name(), "RWManager")
		}
	}
	return false
}

// ruleRO: read APIs are effect free.
func ruleRO(c *Ctx)   { roRule(c, true) }
func ruleROIO(c *Ctx) { roRule(c, false) }

func roRule(c *Ctx, withMem bool) {
	fx := getEffects(c)
	gate, _, _ := findPutGate(c)
	n := 0
	for _, m := range exportedMethods(c, "Tx") {
		if m.Name() == "Commit" || m.Name() == "Rollback" {
			continue
		}
		if reachesFn(c.P, m, gate) {
			continue
		}
		n++
		c.touch(m)
		sw := fx.sharedWrites(m)
		if !withMem {
			sw = nil
		}
		if !withMem {
		} else if len(sw) == 0 {
			c.ok(fnName(m), "no write to shared state", c.P.pos(m.Pos()), "the cone of this read API writes only fresh objects")
		} else {
			for fn, evs := range groupByFn(sw) {
				locs := map[string]bool{}
				var w []string
				for _, e := range evs {
					locs[e.Loc] = true
					w = append(w, c.describe(e))
				}
				c.bad(fnName(m), "no write to shared state | "+fn+" writes "+strings.Join(sortedKeys(locs), ","), c.P.pos(evs[0].Pos),
					"a read API mutates state that outlives the call (shared with other transactions)", w...)
			}
		}
		// I/O half
		ioBad := 0
		for _, s := range fsSitesIn(c.P, m) {
			if isRWCtor(c, s.fn) || s.fn.Name() == "Truncate" {
				continue // opening an existing segment through NewDataFile (checked below)
			}
			ioBad++
			c.bad(fnName(m), "no file creation or modification | "+s.eff.desc+" in "+fnName(s.fn), c.P.ipos(s.in),
				"a read API can create or modify a file ("+s.eff.desc+")")
		}
		if ioBad == 0 {
			c.ok(fnName(m), "no file creation or modification", c.P.pos(m.Pos()), "only existing segments are opened (through the RWManager constructors)")
		}
	}
	c.minInstances("read-only Tx APIs", n, 30)
	// side condition of the accepted idiom: NewDataFile in read cones opens getDataPath(id)
	k := 0
	var readers []*ssa.Function
	for _, m := range exportedMethods(c, "Tx") {
		if m.Name() != "Commit" && m.Name() != "Rollback" && !reachesFn(c.P, m, gate) {
			readers = append(readers, m)
		}
	}
	for _, f := range c.P.ModCone(readers...) {
		calls(f, func(ci ssa.CallInstruction) {
			cc := ci.Common()
			if !calleeIs(cc, modPath, "", "NewDataFile") {
				return
			}
			k++
			pathArg := resolve1(cc.Args[0])
			okb := false
			if call, ok := pathArg.(*ssa.Call); ok && calleeIs(&call.Call, modPath, "DB", "getDataPath") {
				okb = true
			}
			c.check(okb, fnName(f), fmt.Sprintf("NewDataFile #%d in a read path opens an existing segment (getDataPath(id))", k), c.P.ipos(ci), "", "a read path opens (and creates if missing) a file whose name is not a data segment path derived from an index hint")
		})
	}
}

func sortedKeys(m map[string]bool) []string {
	var out []string
	for k := range m {
		out = append(out, k)
	}
	sort.Strings(out)
	return out
}

// ruleOwn: mutating APIs only enqueue; index mutators are called only from the commit / open cones.
func ruleOwn(c *Ctx) {
	fx := getEffects(c)
	gate, _, _ := findPutGate(c)
	commit := c.P.MustFunc("(*Tx).Commit")
	open := c.P.MustFunc("Open")
	allowed := map[*ssa.Function]bool{}
	for _, f := range c.P.ModCone(commit, open) {
		allowed[f] = true
	}
	// (a) exported mutating Tx APIs write only Tx-private state
	n := 0
	for _, m := range exportedMethods(c, "Tx") {
		if m.Name() == "Commit" || m.Name() == "Rollback" || !reachesFn(c.P, m, gate) {
			continue
		}
		n++
		c.touch(m)
		sw := fx.sharedWrites(m)
		if len(sw) == 0 {
			c.ok(fnName(m), "mutating API only enqueues pending writes", c.P.pos(m.Pos()), "its cone writes only Tx.pendingWrites and fresh objects")
			continue
		}
		for fn, evs := range groupByFn(sw) {
			var w []string
			locs := map[string]bool{}
			for _, e := range evs {
				w = append(w, c.describe(e))
				locs[e.Loc] = true
			}
			c.bad(fnName(m), "mutating API only enqueues pending writes | "+fn+" writes "+strings.Join(sortedKeys(locs), ","), c.P.pos(evs[0].Pos),
				"an API call mutates the committed in-memory state directly instead of logging a record", w...)
		}
	}
	c.minInstances("mutating Tx APIs", n, 15)
	// (b) every call of an index mutator is inside the commit or open cone (or inside the ds packages themselves)
	k := 0
	ord := map[string]int{}
	for _, f := range c.P.SrcFuncs {
		if f.Pkg != c.P.Main {
			continue
		}
		calls(f, func(ci ssa.CallInstruction) {
			cc := ci.Common()
			cal := cc.StaticCallee()
			if cal == nil || !isIndexMutator(cal) {
				return
			}
			if cal.Name() == "GetByRankRange" || cal.Name() == "GetByRank" {
				if b, ok := constBool(cc.Args[len(cc.Args)-1]); ok && !b {
					return
				}
			}
			k++
			c.Sites++
			key := fnName(f) + ">" + fnName(cal)
			ord[key]++
			c.check(allowed[f], fnName(f), fmt.Sprintf("call of index mutator %s #%d lies in the commit/open cone", fnName(cal), ord[key]), c.P.ipos(ci),
				"", "an index mutator is called from a function that is reachable neither from Tx.Commit nor from Open: the mutation is not a logged record")
		})
	}
	c.minInstances("index-mutator call sites", k, 30)
	// (c) Rollback and the error path of managed reach no index write
	rb := c.P.MustFunc("(*Tx).Rollback")
	c.touch(rb)
	sw := fx.sharedWrites(rb)
	c.check(len(sw) == 0, fnName(rb), "rollback writes no shared state", c.P.pos(rb.Pos()), "Rollback only clears the transaction's own fields", fmt.Sprintf("Rollback writes shared state (%d events)", len(sw)))
	c.check(len(fsSitesIn(c.P, rb)) == 0, fnName(rb), "rollback touches no file", c.P.pos(rb.Pos()), "", "Rollback creates or modifies files")
}

// ruleMutatorsLogged: every exported mutating set/list/zset API reaches the put gate.
func ruleSetLogged(c *Ctx) {
	gate, _, _ := findPutGate(c)
	n := 0
	for _, name := range []string{"SAdd", "SRem", "SPop", "SMoveByOneBucket", "SMoveByTwoBuckets"} {
		m := c.P.Func("(*Tx)." + name)
		if m == nil {
			continue
		}
		n++
		c.touch(m)
		c.check(reachesFn(c.P, m, gate), fnName(m), "set mutation is a logged record", c.P.pos(m.Pos()), "reaches the pending-write gate", "this set mutation never enqueues a record: it is not rolled back with the transaction, not refused in read-only transactions and not replayed on open")
	}
	c.minInstances("mutating set APIs", n, 5)
}

// ruleVisible: non-interference between mutators and readers inside one transaction.
func ruleVisible(c *Ctx) {
	fx := getEffects(c)
	gate, _, _ := findPutGate(c)
	fam := map[string][2][]string{
		"list":       {{"RPush", "LPush", "LPop", "RPop", "LRem", "LSet", "LTrim"}, {"LPeek", "RPeek", "LRange", "LSize", "LPop", "RPop"}},
		"set":        {{"SAdd", "SRem", "SPop"}, {"SMembers", "SIsMember", "SCard", "SPop", "SHasKey"}},
		"sorted set": {{"ZAdd", "ZRem", "ZRemRangeByRank", "ZPopMax", "ZPopMin"}, {"ZMembers", "ZPeekMax", "ZPeekMin", "ZRangeByRank", "ZPopMax", "ZPopMin", "ZScore"}},
		"key/value":  {{"Put", "Delete", "PutWithTimestamp"}, {"Get", "RangeScan", "PrefixScan", "GetAll"}},
	}
	var fams []string
	for k := range fam {
		fams = append(fams, k)
	}
	sort.Strings(fams)
	for _, fname := range fams {
		wl := map[string]bool{}
		rl := map[string]bool{}
		nm, nr := 0, 0
		for _, n := range fam[fname][0] {
			if m := c.P.Func("(*Tx)." + n); m != nil {
				nm++
				c.touch(m)
				for l := range fx.writeLocs(m) {
					wl[l] = true
				}
			}
		}
		for _, n := range fam[fname][1] {
			if m := c.P.Func("(*Tx)." + n); m != nil {
				nr++
				c.touch(m)
				for _, ev := range fx.sum[m].reads {
					// the gate itself reads the queue it appends to; that is not an observation
					if ev.Root != "F" && ev.Fn != gate {
						rl[ev.Loc] = true
					}
				}
			}
		}
		if nm == 0 || nr == 0 {
			c.undecided(fname, "family", "", "API methods of this family not found")
			continue
		}
		var inter []string
		for l := range wl {
			if rl[l] {
				inter = append(inter, l)
			}
		}
		sort.Strings(inter)
		c.Sites += nm * nr
		c.check(len(inter) > 0, fname, "mutators and readers of one transaction share state", "",
			"readers read what earlier mutators of the same transaction write: "+strings.Join(inter, ","),
			fmt.Sprintf("the %d mutators write only {%s}; the %d readers (including the peek inside the pops) read none of it: an operation can never observe an earlier operation of its own transaction, so per-operation results cannot equal a serial execution", nm, strings.Join(sortedKeys(wl), ","), nr))
	}
}

// ruleBackup (C18)
func ruleBackup(c *Ctx) {
	fx := getEffects(c)
	bk := c.P.MustFunc("(*DB).Backup")
	c.touch(bk)
	var copySites []ssa.CallInstruction
	var copyFn *ssa.Function
	for _, f := range c.P.ModCone(bk) {
		calls(f, func(ci ssa.CallInstruction) {
			if e := fsEffectOf(ci.Common()); e != nil && e.kind == "copydir" {
				copySites = append(copySites, ci)
				copyFn = f
			}
		})
	}
	// every copy of database files runs with the database lock held: it is not reachable from Backup
	// without passing through the db.View/db.Update call
	isTxCall := func(ci ssa.CallInstruction) bool {
		cc := ci.Common()
		return (calleeIs(cc, modPath, "DB", "View") || calleeIs(cc, modPath, "DB", "Update") || calleeIs(cc, modPath, "DB", "managed")) && ci.Parent() == bk
	}
	txClosures := map[*ssa.Function]bool{}
	calls(bk, func(ci ssa.CallInstruction) {
		if !isTxCall(ci) || !sameValue(capturedParam(ci.Common().Args[0]), bk.Params[0]) {
			return
		}
		for _, a := range ci.Common().Args[1:] {
			if mc, ok := a.(*ssa.MakeClosure); ok {
				if fn, ok := mc.Fn.(*ssa.Function); ok {
					txClosures[fn] = true
				}
			}
		}
	})
	outside := map[*ssa.Function]bool{bk: true}
	for work := []*ssa.Function{bk}; len(work) > 0; {
		f := work[len(work)-1]
		work = work[:len(work)-1]
		var next []*ssa.Function
		for _, an := range f.AnonFuncs {
			if !txClosures[an] {
				next = append(next, an)
			}
		}
		if n := c.P.CG.Nodes[f]; n != nil {
			for _, e := range n.Out {
				if e.Site != nil && isTxCall(e.Site) {
					continue
				}
				next = append(next, e.Callee.Func)
			}
		}
		for _, g := range next {
			if !outside[g] {
				outside[g] = true
				work = append(work, g)
			}
		}
	}
	nOut := 0
	for i, cs := range copySites {
		if outside[cs.Parent()] {
			nOut++
			c.bad(fnName(bk), fmt.Sprintf("file copy #%d (%s) runs inside a transaction on the same DB", i+1, calleeName(cs.Common())), c.P.ipos(cs),
				"database files are copied outside db.View/db.Update: a commit (and a segment rotation) can land between this copy and the rest of the backup, so the copy is a state the database never had")
		}
	}
	if nOut > 0 {
		return
	}
	if len(copySites) != 1 {
		c.undecided(fnName(bk), "copy call", "", fmt.Sprintf("expected exactly one directory-copy call in the cone of Backup, found %d", len(copySites)))
		return
	}
	cs := copySites[0]
	c.touch(copyFn)
	// (1) the copy runs inside a function literal passed to db.View / db.Update on the same db (lock held)
	inTx := len(txClosures) > 0 && !outside[copyFn]
	c.check(inTx, fnName(bk), "directory copy runs inside a transaction on the same DB", c.P.ipos(cs), "the copy is the body of a function passed to db.View/db.Update, so the database lock is held for its whole duration", "the directory copy is not inside db.View/db.Update: a commit can land between the first and the last file copied")
	// (2) the source is Options.Dir of the same db
	src := cs.Common().Args[0]
	okSrc := isFieldLoad(src, "Options", "Dir")
	if okSrc {
		root, _ := splitPath(src)
		switch r := root.(type) {
		case *ssa.Parameter:
			okSrc = r == bk.Params[0]
			if !okSrc && r.Parent() == copyFn && copyFn != bk {
				// a helper that runs inside the transaction: every caller passes the database Backup was called on
				idx := paramIndex(copyFn, r)
				callers := c.P.CallersOf(copyFn)
				okSrc = len(callers) > 0
				for _, s := range callers {
					if idx >= len(s.Common().Args) {
						okSrc = false
						continue
					}
					a := resolve1(s.Common().Args[idx])
					isDB := false
					switch y := a.(type) {
					case *ssa.Parameter:
						isDB = y == bk.Params[0]
					case *ssa.FreeVar:
						cl := s.Parent()
						for i, fv := range cl.FreeVars {
							if fv == y {
								calls(bk, func(ci ssa.CallInstruction) {
									for _, arg := range ci.Common().Args {
										if mc, ok := arg.(*ssa.MakeClosure); ok && mc.Fn == ssa.Value(cl) && i < len(mc.Bindings) && sameValue(capturedParam(mc.Bindings[i]), bk.Params[0]) {
											isDB = true
										}
									}
								})
							}
						}
					case *ssa.UnOp:
						// load of the captured variable
						if fv, ok := y.X.(*ssa.FreeVar); ok {
							cl := s.Parent()
							for i, f2 := range cl.FreeVars {
								if f2 == fv {
									calls(bk, func(ci ssa.CallInstruction) {
										for _, arg := range ci.Common().Args {
											if mc, ok := arg.(*ssa.MakeClosure); ok && mc.Fn == ssa.Value(cl) && i < len(mc.Bindings) && sameValue(capturedParam(mc.Bindings[i]), bk.Params[0]) {
												isDB = true
											}
										}
									})
								}
							}
						}
					}
					if !isDB {
						okSrc = false
					}
				}
			}
		case *ssa.FreeVar:
			// captured db
			okSrc = false
			for i, fv := range copyFn.FreeVars {
				if fv == r {
					calls(bk, func(ci ssa.CallInstruction) {
						for _, a := range ci.Common().Args {
							if mc, ok := a.(*ssa.MakeClosure); ok && mc.Fn == ssa.Value(copyFn) && i < len(mc.Bindings) {
								if sameValue(capturedParam(mc.Bindings[i]), bk.Params[0]) {
									okSrc = true
								}
							}
						}
					})
				}
			}
		default:
			okSrc = false
		}
	}
	c.check(okSrc, fnName(bk), "copy source is the database's own Options.Dir", c.P.ipos(cs), "", "the backup does not copy the whole database directory (source is "+dispPath(src)+")")
	// (3) the closure and Backup itself write no shared state
	sw := fx.sharedWrites(copyFn)
	c.check(len(sw) == 0, fnName(copyFn), "backup body writes no shared state", c.P.pos(copyFn.Pos()), "", fmt.Sprintf("the backup body writes shared state (%d events)", len(sw)))
}

// ruleGlobals: no package-level variable is written by a function reachable from an API entry point.
func ruleGlobals(c *Ctx) {
	var entries []*ssa.Function
	entries = append(entries, exportedMethods(c, "Tx")...)
	entries = append(entries, exportedMethods(c, "DB")...)
	entries = append(entries, c.P.MustFunc("Open"))
	cone := c.P.ModCone(entries...)
	n := 0
	type gw struct {
		g  string
		fn string
	}
	seen := map[gw]bool{}
	for _, f := range cone {
		if f.Name() == "init" {
			continue
		}
		c.touch(f)
		instrs(f, func(in ssa.Instruction) {
			var addr ssa.Value
			switch x := in.(type) {
			case *ssa.Store:
				addr = x.Addr
			case *ssa.MapUpdate:
				addr = x.Map
			default:
				return
			}
			n++
			root, _ := splitPath(addr)
			g, ok := root.(*ssa.Global)
			if !ok || g.Pkg == nil || !strings.HasPrefix(g.Pkg.Pkg.Path(), modPath) {
				return
			}
			k := gw{g.Name(), fnName(f)}
			if seen[k] {
				return
			}
			seen[k] = true
			c.bad("global "+g.Name(), "written by "+fnName(f), c.P.ipos(in), "a package-level variable is written by code reachable from the API: it is shared by every DB in the process and protected by no per-database lock")
		})
	}
	// package-level variables that hold a mutable reference (pointer, map, slice, channel) and are handed
	// to a call from API-reachable code: the callee can mutate the shared object (e.g. a *rand.Rand)
	nRef := 0
	for _, f := range cone {
		if f.Name() == "init" {
			continue
		}
		calls(f, func(ci ssa.CallInstruction) {
			all := append([]ssa.Value{}, ci.Common().Args...)
			if ci.Common().IsInvoke() {
				all = append(all, ci.Common().Value)
			}
			for _, a := range all {
				var g *ssa.Global
				switch x := resolve1(a).(type) {
				case *ssa.UnOp:
					if x.Op != token.MUL {
						continue
					}
					gg, ok := x.X.(*ssa.Global)
					if !ok {
						continue
					}
					switch derefT(gg.Type()).Underlying().(type) {
					case *types.Pointer, *types.Map, *types.Slice, *types.Chan:
					default:
						continue
					}
					g = gg
				case *ssa.Slice:
					// a slice of a package-level array: the callee writes/reads the shared storage
					if gg, ok := x.X.(*ssa.Global); ok {
						g = gg
					}
				case *ssa.Global:
					// the address of a package-level variable itself
					if _, isErr := derefT(x.Type()).Underlying().(*types.Interface); !isErr {
						g = x
					}
				}
				if g == nil || g.Pkg == nil || !strings.HasPrefix(g.Pkg.Pkg.Path(), modPath) {
					continue
				}
				nRef++
				k := gw{g.Name(), fnName(f)}
				if seen[k] {
					continue
				}
				seen[k] = true
				c.bad("global "+g.Name(), "used through a call by "+fnName(f), c.P.ipos(ci), "a package-level variable holding a mutable object ("+derefT(g.Type()).String()+") is passed to "+calleeName(ci.Common())+" from code reachable from the API: every DB of the process shares it and no per-database lock protects it")
			}
		})
	}
	c.Sites += n
	if len(seen) == 0 {
		c.ok("package-level variables", "none written from API cones", "", fmt.Sprintf("%d stores in %d functions examined", n, len(cone)))
	}
	c.minInstances("stores examined in API cones", n, 100)
	// no go statements in the library
	goes := 0
	for _, f := range c.P.SrcFuncs {
		instrs(f, func(in ssa.Instruction) {
			if _, ok := in.(*ssa.Go); ok {
				goes++
				c.bad(fnName(f), "no go statement", c.P.ipos(in), "the library starts a goroutine; the lock discipline is analysed under the assumption that it does not")
			}
		})
	}
	if goes == 0 {
		c.ok("library", "no go statement", "", fmt.Sprintf("%d functions scanned", len(c.P.SrcFuncs)))
	}
}

// capturedParam: v is (a load of, or the address of) a local variable cell that
// was created for a parameter captured by a closure and is only ever assigned
// that parameter. Returns the parameter, or v.
func capturedParam(v ssa.Value) ssa.Value {
	var a *ssa.Alloc
	switch x := v.(type) {
	case *ssa.Alloc:
		a = x
	case *ssa.UnOp:
		if al, ok := x.X.(*ssa.Alloc); ok {
			a = al
		}
	}
	if a == nil {
		return v
	}
	var stored ssa.Value
	for _, r := range *a.Referrers() {
		switch x := r.(type) {
		case *ssa.Store:
			if x.Addr == ssa.Value(a) {
				if stored != nil {
					return v
				}
				stored = x.Val
			}
		case *ssa.MakeClosure:
			// the closure must not assign the captured variable
			fn := x.Fn.(*ssa.Function)
			for i, b := range x.Bindings {
				if b == ssa.Value(a) && i < len(fn.FreeVars) {
					for _, rr := range *fn.FreeVars[i].Referrers() {
						if st, ok := rr.(*ssa.Store); ok && st.Addr == ssa.Value(fn.FreeVars[i]) {
							return v
						}
					}
				}
			}
		}
	}
	if p, ok := stored.(*ssa.Parameter); ok {
		return p
	}
	return v
}
