package main

import (
	"encoding/json"
	"fmt"
	"io"
	"os"
	"os/exec"
	"path/filepath"
	"regexp"
	"runtime/debug"
	"sort"
	"strings"
	"sync"
	"time"
)

// ---------------------------------------------------------------------------
// Thorough tier: the same rules under several build / call-graph
// configurations, plus the checker self-test (mutants must be caught, benign
// variants must stay silent) on throw-away copies of the tree.

type tConfig struct {
	name, goarch, goos, cg string
}

var thoroughConfigs = []tConfig{
	{"default (linux/amd64, VTA call graph)", "", "", "vta"},
	{"CHA call graph (more call edges)", "", "", "cha"},
	{"GOARCH=386 (32-bit int)", "386", "", "vta"},
	{"GOOS=windows (other mmap/os variants)", "", "windows", "vta"},
}

type corpusEntry struct {
	Kind  string `json:"kind"`
	Name  string `json:"name"`
	Rules string `json:"rules"`
	File  string `json:"file"`
	Desc  string `json:"desc"`
}

type selfResult struct {
	Entry   corpusEntry `json:"entry"`
	Outcome string      `json:"outcome"` // caught | silent | MISSED | NOISY | skipped
	Detail  string      `json:"detail,omitempty"`
}

func statusRank(s string) int {
	switch s {
	case "violated":
		return 3
	case "undecided":
		return 2
	case "discharged":
		return 1
	}
	return 0
}

func runThorough(id, repo string, noEvid, verbose bool) int {
	code := 0
	for _, pr := range selectProps(id) {
		if c := thoroughProperty(pr, repo, noEvid, verbose); c > code {
			code = c
		}
	}
	return code
}

func thoroughProperty(pr *Property, repo string, noEvid, verbose bool) int {
	start := time.Now()
	merged := &Ctx{Funcs: map[string]bool{}, Tier: "thorough", counts: map[string]int{}}
	byKey := map[string]*Obligation{}
	var perCfg []map[string]interface{}
	var lastProg *Prog
	baseViol := map[string]bool{}
	for i, cfg := range thoroughConfigs {
		var c *Ctx
		func() {
			defer func() {
				if e := recover(); e != nil {
					c = &Ctx{Funcs: map[string]bool{}}
					c.rule = "load"
					msg := fmt.Sprint(e)
					if u, ok := e.(undecided); ok {
						msg = u.msg
					} else {
						msg += "\n" + string(debug.Stack())
					}
					c.undecided("load", cfg.name, "", msg)
				}
			}()
			p := getProg(repo, cfg.goarch, cfg.goos, cfg.cg)
			lastProg = p
			resetMemos()
			c = runRules(p, pr.Rules, "thorough")
		}()
		nd, nv, nu := 0, 0, 0
		for _, o := range c.Obs {
			switch o.Status {
			case "discharged":
				nd++
			case "violated":
				nv++
			default:
				nu++
			}
			k := o.Key()
			if old, ok := byKey[k]; !ok || statusRank(o.Status) > statusRank(old.Status) {
				if ok && i > 0 {
					o.Msg = "[" + cfg.name + "] " + o.Msg
				}
				byKey[k] = o
			}
			if i == 0 && o.Status == "violated" {
				baseViol[k] = true
			}
		}
		for f := range c.Funcs {
			merged.Funcs[f] = true
		}
		merged.Sites += c.Sites
		perCfg = append(perCfg, map[string]interface{}{"config": cfg.name, "obligations": len(c.Obs), "discharged": nd, "violated": nv, "undecided": nu})
		fmt.Printf("  config %-45s obligations=%d discharged=%d violated=%d undecided=%d\n", cfg.name, len(c.Obs), nd, nv, nu)
	}
	for _, o := range byKey {
		merged.Obs = append(merged.Obs, o)
	}
	// self-test
	self, selfSummary := runSelfTest(pr, repo, baseViol)
	extra := &runExtra{config: "thorough: 4 configurations + self-test", selftest: map[string]interface{}{
		"configurations": perCfg, "selftest": self, "selftest_summary": selfSummary,
	}}
	code := report(pr, merged, lastProg, repo, "thorough", "", "", "", noEvid, verbose, time.Since(start).Seconds(), extra)
	fmt.Printf("  self-test: %s\n", selfSummary)
	bad := 0
	for _, r := range self {
		if r.Outcome == "MISSED" || r.Outcome == "NOISY" {
			bad++
			fmt.Printf("SELFTEST-FAIL property=%s %s %s: %s (%s)\n", pr.ID, r.Entry.Kind, r.Entry.Name, r.Outcome, r.Detail)
		}
	}
	if bad > 0 && code == 0 {
		// a blind or noisy checker is a broken checker, not a property violation
		return 2
	}
	return code
}

// resetMemos clears the memo tables that are keyed by SSA objects of a previous program.
func resetMemos() {
	guarantorMemo = map[*ssaFunction]int{}
	idxMutMemo = map[*ssaFunction]bool{}
	fsConeMemo = map[*ssaFunction][]fsSite{}
	bucketGuarMemo = map[string]bool{}
	derefParamMemo = map[*ssaParameter]int{}
	condMemo = map[*ssaBasicBlock][2]int{}
	immDBMemo = nil
}

func copyTree(src, dst string) error {
	return filepath.Walk(src, func(path string, info os.FileInfo, err error) error {
		if err != nil {
			return err
		}
		rel, _ := filepath.Rel(src, path)
		if rel == ".git" || strings.HasPrefix(rel, ".git"+string(os.PathSeparator)) {
			if info.IsDir() {
				return filepath.SkipDir
			}
			return nil
		}
		target := filepath.Join(dst, rel)
		if info.IsDir() {
			return os.MkdirAll(target, 0o755)
		}
		if !info.Mode().IsRegular() {
			return nil
		}
		in, err := os.Open(path)
		if err != nil {
			return err
		}
		defer in.Close()
		out, err := os.Create(target)
		if err != nil {
			return err
		}
		defer out.Close()
		_, err = io.Copy(out, in)
		return err
	})
}

func runSelfTest(pr *Property, repo string, baseViol map[string]bool) ([]selfResult, string) {
	vdir := verifDir()
	b, err := os.ReadFile(filepath.Join(vdir, "selftest", "corpus.json"))
	if err != nil {
		return nil, "no self-test corpus found (" + err.Error() + ")"
	}
	var corpus []corpusEntry
	if err := json.Unmarshal(b, &corpus); err != nil {
		return nil, "corpus unreadable: " + err.Error()
	}
	ruleSet := map[string]bool{}
	for _, r := range pr.Rules {
		ruleSet[r] = true
	}
	var todo []corpusEntry
	for _, e := range corpus {
		if e.Kind == "benign" {
			todo = append(todo, e)
			continue
		}
		for _, r := range strings.Split(e.Rules, ",") {
			if ruleSet[r] {
				todo = append(todo, e)
				break
			}
		}
	}
	exe, _ := os.Executable()
	results := make([]selfResult, len(todo))
	var wg sync.WaitGroup
	sem := make(chan struct{}, 8)
	for i, e := range todo {
		wg.Add(1)
		go func(i int, e corpusEntry) {
			defer wg.Done()
			sem <- struct{}{}
			defer func() { <-sem }()
			results[i] = selfOne(exe, vdir, repo, pr, e, baseViol)
		}(i, e)
	}
	wg.Wait()
	cnt := map[string]int{}
	for _, r := range results {
		cnt[r.Entry.Kind+":"+r.Outcome]++
	}
	var ks []string
	for k := range cnt {
		ks = append(ks, fmt.Sprintf("%s=%d", k, cnt[k]))
	}
	sort.Strings(ks)
	return results, strings.Join(ks, " ")
}

func selfOne(exe, vdir, repo string, pr *Property, e corpusEntry, baseViol map[string]bool) selfResult {
	res := selfResult{Entry: e}
	dir, err := os.MkdirTemp("", "nutslint-self-")
	if err != nil {
		res.Outcome, res.Detail = "skipped", err.Error()
		return res
	}
	defer os.RemoveAll(dir)
	if err := copyTree(repo, dir); err != nil {
		res.Outcome, res.Detail = "skipped", "copy failed: "+err.Error()
		return res
	}
	patch := filepath.Join(vdir, "selftest", e.Kind, e.Name+".diff")
	cmd := exec.Command("patch", "-p1", "-s", "--no-backup-if-mismatch", "-i", patch)
	cmd.Dir = dir
	if out, err := cmd.CombinedOutput(); err != nil {
		res.Outcome, res.Detail = "skipped", "anchor moved (patch does not apply): "+firstLine(string(out))
		return res
	}
	jf := filepath.Join(dir, ".nutslint-self.json")
	run := exec.Command(exe, "-repo", dir, "-rules", strings.Join(pr.Rules, ","), "-json", jf)
	run.Env = append(os.Environ(), "VERIF_DIR="+vdir)
	out, _ := run.CombinedOutput()
	jb, err := os.ReadFile(jf)
	if err != nil {
		res.Outcome, res.Detail = "skipped", "variant does not type-check or analysis aborted: "+firstLine(string(out))
		return res
	}
	var obs []*Obligation
	if err := json.Unmarshal(jb, &obs); err != nil {
		res.Outcome, res.Detail = "skipped", "unreadable result"
		return res
	}
	want := map[string]bool{}
	for _, r := range strings.Split(e.Rules, ",") {
		want[r] = true
	}
	var newViol, newUnd []string
	loadFail := false
	for _, o := range obs {
		if o.Status == "violated" && !baseViol[o.Key()] && !matchesKnownPattern(vdir, o.Key()) {
			newViol = append(newViol, o.Key())
		}
		if o.Status == "undecided" {
			newUnd = append(newUnd, o.Key())
			if o.Construct == "engine" && strings.Contains(o.Msg, "type-check") {
				loadFail = true
			}
		}
	}
	if loadFail {
		res.Outcome, res.Detail = "skipped", "variant does not type-check"
		return res
	}
	if e.Kind == "benign" {
		if len(newViol) == 0 && len(newUnd) == 0 {
			res.Outcome = "silent"
		} else {
			res.Outcome = "NOISY"
			res.Detail = strings.Join(append(newViol, newUnd...), " ; ")
		}
		return res
	}
	hit := ""
	for _, k := range newViol {
		if want[strings.SplitN(k, " | ", 2)[0]] {
			hit = k
		}
	}
	if hit != "" {
		res.Outcome, res.Detail = "caught", hit
	} else if len(newUnd) > 0 {
		res.Outcome, res.Detail = "caught", "reported as undecided: "+newUnd[0]
	} else {
		res.Outcome, res.Detail = "MISSED", fmt.Sprintf("expected a new violation of %s; new violations: %v", e.Rules, newViol)
	}
	return res
}

var knownPatCache []*regexp.Regexp
var knownPatLoaded bool
var knownPatMu sync.Mutex

// matchesKnownPattern: the key falls under a key pattern of a finding listed as known (a relocated
// obligation of the same design-level defect is not a new violation).
func matchesKnownPattern(vdir, key string) bool {
	knownPatMu.Lock()
	if !knownPatLoaded {
		knownPatLoaded = true
		for _, f := range loadFindings(filepath.Join(vdir, "known_findings.json")) {
			if f.Status != "known" {
				continue
			}
			for _, ps := range f.KeyPatterns {
				if re, err := regexp.Compile(ps); err == nil {
					knownPatCache = append(knownPatCache, re)
				}
			}
		}
	}
	pats := knownPatCache
	knownPatMu.Unlock()
	for _, re := range pats {
		if re.MatchString(key) {
			return true
		}
	}
	return false
}
