package main

import (
	"fmt"
	"go/token"

	"golang.org/x/tools/go/ssa"
)

// orderEdges returns the edges of fn on which lo < hi (strict=true) or lo <= hi (strict=false,
// which includes the strict ones) is known to hold, for If conditions that compare a pair accepted by match.
func orderEdges(fn *ssa.Function, strict bool, match func(lo, hi ssa.Value) bool) []succEdge {
	var out []succEdge
	for _, ifi := range ifsOf(fn) {
		a := decomposeIf(ifi)
		// normalise to X op Y on successor 0, !(X op Y) on successor 1
		type rel struct {
			lo, hi ssa.Value
			strict bool
			si     int
		}
		var rels []rel
		add := func(lo, hi ssa.Value, st bool, si int) { rels = append(rels, rel{lo, hi, st, si}) }
		t, f := 0, 1
		if a.Neg {
			t, f = 1, 0
		}
		switch a.Op {
		case token.LSS: // X < Y true-edge; X >= Y false-edge
			add(a.X, a.Y, true, t)
			add(a.Y, a.X, false, f)
		case token.LEQ:
			add(a.X, a.Y, false, t)
			add(a.Y, a.X, true, f)
		case token.GTR:
			add(a.Y, a.X, true, t)
			add(a.X, a.Y, false, f)
		case token.GEQ:
			add(a.Y, a.X, false, t)
			add(a.X, a.Y, true, f)
		default:
			continue
		}
		for _, r := range rels {
			if strict && !r.strict {
				continue
			}
			if match(r.lo, r.hi) {
				out = append(out, succEdge{ifi.Block(), r.si})
			}
		}
	}
	return out
}

// ---------------------------------------------------------------------------
// R-ZSCORE (C07): the position of a skiplist node is fixed when it is linked, by (score, key).
// A store to the score (or key) of a node that is not freshly created in the same function
// changes its ordering key in place. That is only order-preserving when the new score lies
// STRICTLY between the scores of the two level-0 neighbours (or the neighbour is absent): with a
// tie the order is decided by the keys, which the in-place update does not look at.

func ruleZScore(c *Ctx) {
	n, inPlace := 0, 0
	for _, f := range c.P.SrcFuncs {
		if f.Pkg == nil || f.Pkg.Pkg.Path() != modPath+"/ds/zset" {
			continue
		}
		k := 0
		instrs(f, func(in ssa.Instruction) {
			st, ok := in.(*ssa.Store)
			if !ok {
				return
			}
			fa, ok := st.Addr.(*ssa.FieldAddr)
			if !ok {
				return
			}
			fv := fieldVarOf(fa)
			nm := namedOf(derefT(fa.X.Type()))
			if fv == nil || nm == nil || nm.Obj().Name() != "SortedSetNode" || (fv.Name() != "score" && fv.Name() != "key") {
				return
			}
			n++
			base := resolve1(fa.X)
			if al, ok := base.(*ssa.Alloc); ok && al.Heap {
				return // construction of a fresh node
			}
			if _, ok := base.(*ssa.Alloc); ok {
				return
			}
			inPlace++
			k++
			c.touch(f)
			detail := fmt.Sprintf("in-place %s update #%d keeps the node strictly between its neighbours", fv.Name(), k)
			if fv.Name() == "key" {
				c.bad(fnName(f), detail, c.P.ipos(st), "the member key of a linked skiplist node is overwritten: the dictionary and the (score,key) order no longer describe the node")
				return
			}
			s := resolve1(st.Val)
			nodePath := pathOf(fa.X)
			neighbourScore := func(v ssa.Value, link string) bool {
				// v is a load of <node>.<link>...score
				if !isFieldLoad(v, "SortedSetNode", "score") {
					return false
				}
				_, b := lastField(v)
				p := pathOf(b)
				switch link {
				case "backward":
					return p == nodePath+".backward"
				default:
					return len(p) > len(nodePath) && p[:len(nodePath)] == nodePath && (containsStr(p, ".forward")) && !containsStr(p, ".backward")
				}
			}
			check := func(link string) (strictOK, anyCmp bool) {
				nilE := nilEdges(f, true, func(x ssa.Value) bool {
					p := pathOf(x)
					if link == "backward" {
						return p == nodePath+".backward"
					}
					return len(p) > len(nodePath) && p[:len(nodePath)] == nodePath && containsStr(p, ".forward") && !containsStr(p, ".backward")
				})
				var m func(lo, hi ssa.Value) bool
				if link == "backward" {
					m = func(lo, hi ssa.Value) bool { return neighbourScore(lo, link) && sameValue(resolve1(hi), s) }
				} else {
					m = func(lo, hi ssa.Value) bool { return sameValue(resolve1(lo), s) && neighbourScore(hi, link) }
				}
				strictE := append(append([]succEdge{}, nilE...), orderEdges(f, true, m)...)
				weakE := append(append([]succEdge{}, nilE...), orderEdges(f, false, m)...)
				return len(strictE) > 0 && edgesDominate(f, strictE, st.Block()), len(weakE) > 0 && edgesDominate(f, weakE, st.Block())
			}
			bs, bw := check("backward")
			fs, fw := check("forward")
			switch {
			case bs && fs:
				c.ok(fnName(f), detail, c.P.ipos(st), "dominated by backward.score < new < forward.score (or absent neighbours)")
			case bw && fw:
				c.bad(fnName(f), detail, c.P.ipos(st), "the score of a linked node is changed in place when the new score is only known to lie between the neighbours' scores INCLUSIVELY: if it ties a neighbour whose key sorts on the other side, the list is no longer ordered by (score, key); ranks, range queries, PopMax and Remove then disagree with the model")
			default:
				c.bad(fnName(f), detail, c.P.ipos(st), "the score of a linked skiplist node is overwritten without relinking it and without establishing that the new score lies strictly between its neighbours' scores")
			}
		})
	}
	c.Sites += n
	c.minInstances("stores to SortedSetNode.score/key", n, 2)
	if inPlace == 0 {
		c.ok("ds/zset", "ordering keys are written only while a node is constructed", "", fmt.Sprintf("%d stores, all on fresh nodes", n))
	}
}

func containsStr(s, sub string) bool {
	for i := 0; i+len(sub) <= len(s); i++ {
		if s[i:i+len(sub)] == sub {
			return true
		}
	}
	return false
}
