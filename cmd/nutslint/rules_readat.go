package main

import (
	"fmt"
	"go/token"
	"go/types"
	"strings"

	"golang.org/x/tools/go/ssa"
)

// ---------------------------------------------------------------------------
// R-READAT-SPEC (C09 C19 C01 C08): the two RWManager.ReadAt implementations are small, loop-free
// functions of three integers: the size L of the file/region, the offset and the length of the buffer.
// They are evaluated (from their SSA form, never run) on every combination of small values, which
// covers every ordering of off, off+len(b) and L including the equalities, against what the entry
// decoder and the recovery scans rely on:
//   (a) a read that lies inside the region, 0 <= off and off+len(b) <= L — this includes the empty
//       read at off == L that decodes the empty value of a record filling its segment — returns
//       len(b) bytes and a nil error;
//   (b) a read that starts inside the region and runs past its end returns the L-off bytes that are
//       there and either nil or io.EOF (the only error every scan loop takes for "end of data").

type mvSlice struct {
	n     int64
	isNil bool
}
type mvErr string  // "" = nil, else the name of the error value
type mvAddr string // address of receiver field
type mvTuple []interface{}

type miniEval struct {
	p      *Prog
	fields map[string]interface{} // receiver field name -> value
	osRead func(lb, off int64) (int64, mvErr)
	depth  int
	why    string
}

func (m *miniEval) fail(format string, a ...interface{}) (mvTuple, bool) {
	if m.why == "" {
		m.why = fmt.Sprintf(format, a...)
	}
	return nil, false
}

func (m *miniEval) run(f *ssa.Function, args []interface{}) (mvTuple, bool) {
	if m.depth > 3 || len(f.Blocks) == 0 {
		return m.fail("cannot enter %s", f.Name())
	}
	m.depth++
	defer func() { m.depth-- }()
	vals := map[ssa.Value]interface{}{}
	for i, p := range f.Params {
		if i < len(args) {
			vals[p] = args[i]
		}
	}
	var ev func(v ssa.Value) (interface{}, bool)
	ev = func(v ssa.Value) (interface{}, bool) {
		if r, ok := vals[v]; ok {
			return r, true
		}
		switch x := v.(type) {
		case *ssa.Const:
			if x.Value == nil {
				if isErrorType(x.Type()) {
					return mvErr(""), true
				}
				if _, ok := x.Type().Underlying().(*types.Slice); ok {
					return mvSlice{0, true}, true
				}
				return nil, false
			}
			if b, ok := constBool(x); ok {
				return b, true
			}
			if i, ok := constInt(x); ok {
				return i, true
			}
		case *ssa.Global:
			return mvAddr("global:" + x.Name()), true
		}
		return nil, false
	}
	b := f.Blocks[0]
	var prev *ssa.BasicBlock
	for steps := 0; steps < 300; steps++ {
		for _, in := range b.Instrs {
			switch x := in.(type) {
			case *ssa.DebugRef:
			case *ssa.Phi:
				for i, p := range b.Preds {
					if p == prev {
						r, ok := ev(x.Edges[i])
						if !ok {
							return m.fail("phi operand")
						}
						vals[x] = r
					}
				}
			case *ssa.FieldAddr:
				if _, ok := x.X.(*ssa.Parameter); !ok {
					return m.fail("field of a non-receiver value")
				}
				vals[x] = mvAddr(fieldVarOf(x).Name())
			case *ssa.UnOp:
				r, ok := ev(x.X)
				if !ok {
					return m.fail("operand of %s", x.Op)
				}
				switch x.Op {
				case token.MUL:
					a, isAddr := r.(mvAddr)
					if !isAddr {
						return m.fail("load through a computed address")
					}
					if len(a) > 7 && a[:7] == "global:" {
						if !isErrorType(x.Type()) {
							return m.fail("load of global %s", a)
						}
						vals[x] = mvErr(a[7:])
					} else if fv, ok := m.fields[string(a)]; ok {
						vals[x] = fv
					} else {
						return m.fail("receiver field %s is not modelled", a)
					}
				case token.NOT:
					bv, ok := r.(bool)
					if !ok {
						return m.fail("! of a non-bool")
					}
					vals[x] = !bv
				case token.SUB:
					iv, ok := r.(int64)
					if !ok {
						return m.fail("- of a non-int")
					}
					vals[x] = -iv
				default:
					return m.fail("operator %s", x.Op)
				}
			case *ssa.Convert:
				r, ok := ev(x.X)
				if !ok {
					return m.fail("conversion operand")
				}
				if _, isInt := r.(int64); isInt && !isIntegerType(x.Type()) {
					return m.fail("conversion of an integer to %s", x.Type())
				}
				vals[x] = r
			case *ssa.ChangeType:
				r, ok := ev(x.X)
				if !ok {
					return m.fail("conversion operand")
				}
				vals[x] = r
			case *ssa.MakeInterface:
				r, ok := ev(x.X)
				if !ok {
					return m.fail("interface operand")
				}
				vals[x] = r
			case *ssa.BinOp:
				l, ok1 := ev(x.X)
				r, ok2 := ev(x.Y)
				if !ok1 || !ok2 {
					return m.fail("operand of %s", x.Op)
				}
				switch lv := l.(type) {
				case int64:
					rv, ok := r.(int64)
					if !ok {
						return m.fail("mixed operands")
					}
					switch x.Op {
					case token.ADD:
						vals[x] = lv + rv
					case token.SUB:
						vals[x] = lv - rv
					case token.MUL:
						vals[x] = lv * rv
					case token.EQL:
						vals[x] = lv == rv
					case token.NEQ:
						vals[x] = lv != rv
					case token.LSS:
						vals[x] = lv < rv
					case token.LEQ:
						vals[x] = lv <= rv
					case token.GTR:
						vals[x] = lv > rv
					case token.GEQ:
						vals[x] = lv >= rv
					default:
						return m.fail("operator %s", x.Op)
					}
				case bool:
					rv, ok := r.(bool)
					if !ok {
						return m.fail("mixed operands")
					}
					switch x.Op {
					case token.EQL:
						vals[x] = lv == rv
					case token.NEQ:
						vals[x] = lv != rv
					default:
						return m.fail("operator %s on bools", x.Op)
					}
				case mvSlice:
					rv, ok := r.(mvSlice)
					if !ok || !(lv.isNil || rv.isNil) {
						return m.fail("slice comparison")
					}
					eq := lv.isNil == rv.isNil
					switch x.Op {
					case token.EQL:
						vals[x] = eq
					case token.NEQ:
						vals[x] = !eq
					default:
						return m.fail("operator %s on slices", x.Op)
					}
				case mvErr:
					rv, ok := r.(mvErr)
					if !ok {
						return m.fail("mixed operands")
					}
					switch x.Op {
					case token.EQL:
						vals[x] = lv == rv
					case token.NEQ:
						vals[x] = lv != rv
					default:
						return m.fail("operator %s on errors", x.Op)
					}
				default:
					return m.fail("operands of %s", x.Op)
				}
			case *ssa.Slice:
				r, ok := ev(x.X)
				sv, isSl := r.(mvSlice)
				if !ok || !isSl || x.Max != nil {
					return m.fail("slice expression")
				}
				lo, hi := int64(0), sv.n
				if x.Low != nil {
					lv, ok := ev(x.Low)
					li, isI := lv.(int64)
					if !ok || !isI {
						return m.fail("slice bound")
					}
					lo = li
				}
				if x.High != nil {
					hv, ok := ev(x.High)
					hi2, isI := hv.(int64)
					if !ok || !isI {
						return m.fail("slice bound")
					}
					hi = hi2
				}
				if lo < 0 || hi < lo || hi > sv.n {
					return mvTuple{"panic"}, true
				}
				vals[x] = mvSlice{hi - lo, false}
			case *ssa.Extract:
				r, ok := ev(x.Tuple)
				tv, isT := r.(mvTuple)
				if !ok || !isT || x.Index >= len(tv) {
					return m.fail("extract")
				}
				vals[x] = tv[x.Index]
			case *ssa.Call:
				var as []interface{}
				for _, a := range x.Call.Args {
					r, ok := ev(a)
					if !ok {
						// the receiver of a method call is passed through untouched
						if _, isP := a.(*ssa.Parameter); isP {
							as = append(as, nil)
							continue
						}
						return m.fail("argument of %s", calleeName(&x.Call))
					}
					as = append(as, r)
				}
				if bi, ok := x.Call.Value.(*ssa.Builtin); ok {
					switch bi.Name() {
					case "len":
						sv, ok := as[0].(mvSlice)
						if !ok {
							return m.fail("len of a non-slice")
						}
						vals[x] = sv.n
					case "copy":
						d, ok1 := as[0].(mvSlice)
						s, ok2 := as[1].(mvSlice)
						if !ok1 || !ok2 {
							return m.fail("copy operands")
						}
						n := d.n
						if s.n < n {
							n = s.n
						}
						vals[x] = n
					default:
						return m.fail("builtin %s", bi.Name())
					}
					continue
				}
				cal := x.Call.StaticCallee()
				if cal == nil {
					return m.fail("dynamic call")
				}
				if cal.String() == "(*os.File).ReadAt" && m.osRead != nil {
					bv, ok1 := as[1].(mvSlice)
					ov, ok2 := as[2].(int64)
					if !ok1 || !ok2 {
						return m.fail("arguments of os.File.ReadAt")
					}
					n, e := m.osRead(bv.n, ov)
					vals[x] = mvTuple{n, e}
					continue
				}
				if !m.p.inModule(cal) {
					return m.fail("call of %s", cal.String())
				}
				r, ok := m.run(cal, as)
				if !ok {
					return nil, false
				}
				if len(r) == 1 && r[0] == interface{}("panic") {
					return r, true
				}
				if cal.Signature.Results().Len() == 1 {
					vals[x] = r[0]
				} else {
					vals[x] = r
				}
			case *ssa.If:
				r, ok := ev(x.Cond)
				bv, isB := r.(bool)
				if !ok || !isB {
					return m.fail("condition")
				}
				prev = b
				if bv {
					b = b.Succs[0]
				} else {
					b = b.Succs[1]
				}
			case *ssa.Jump:
				prev = b
				b = b.Succs[0]
			case *ssa.Return:
				var out mvTuple
				for _, rv := range x.Results {
					r, ok := ev(rv)
					if !ok {
						return m.fail("returned value")
					}
					out = append(out, r)
				}
				return out, true
			default:
				return m.fail("instruction %T", in)
			}
		}
	}
	return m.fail("too many steps")
}

func ruleReadAtSpec(c *Ctx) {
	n := 0
	for _, impl := range []struct{ typ, field string }{{"MMapRWManager", "m"}, {"FileIORWManager", ""}} {
		f := c.P.Func("(*" + impl.typ + ").ReadAt")
		if f == nil || len(f.Params) != 3 {
			continue
		}
		n++
		c.touch(f)
		// integer fields of the manager that only ever receive the capacity argument of its constructor hold L
		capFields := map[string]bool{}
		if nt := c.P.Named("", impl.typ); nt != nil {
			if st, ok := nt.Underlying().(*types.Struct); ok {
				for i := 0; i < st.NumFields(); i++ {
					if !isIntegerType(st.Field(i).Type()) {
						continue
					}
					fld := st.Field(i)
					stores, okAll := 0, true
					for _, g := range c.P.ModCone(c.P.MustFunc("Open")) {
						instrs(g, func(in ssa.Instruction) {
							sto, ok := in.(*ssa.Store)
							if !ok {
								return
							}
							fa, ok := sto.Addr.(*ssa.FieldAddr)
							if !ok || fieldVarOf(fa) != fld {
								return
							}
							stores++
							prm, isP := resolve1(stripConv(sto.Val)).(*ssa.Parameter)
							if !isP || !isIntegerType(prm.Type()) || !strings.HasPrefix(prm.Parent().Name(), "New") {
								okAll = false
							}
						})
					}
					if stores > 0 && okAll {
						capFields[fld.Name()] = true
					}
				}
			}
		}
		rows, und := 0, 0
		var badA, badB, why string
		for _, L := range []int64{1, 2, 3, 5} {
			for off := int64(0); off <= L+1; off++ {
				for lb := int64(0); lb <= L+2; lb++ {
					inside := off+lb <= L
					runsPast := off < L && off+lb > L
					if !inside && !runsPast {
						continue
					}
					rows++
					me := &miniEval{p: c.P, fields: map[string]interface{}{}}
					if impl.field != "" {
						me.fields[impl.field] = mvSlice{L, false}
					} else {
						// the receiver's file: any field holding it is opaque, only os.File.ReadAt is modelled
						me.fields["fd"] = "file"
					}
					for cf := range capFields {
						me.fields[cf] = L
					}
					me.osRead = func(lb, off int64) (int64, mvErr) {
						avail := L - off
						if avail < 0 {
							avail = 0
						}
						if lb <= avail {
							return lb, ""
						}
						return avail, "EOF"
					}
					res, ok := me.run(f, []interface{}{nil, mvSlice{lb, false}, off})
					if !ok {
						und++
						why = me.why
						continue
					}
					desc := fmt.Sprintf("region of %d bytes, ReadAt(buffer of %d, offset %d)", L, lb, off)
					if len(res) == 1 {
						if badA == "" {
							badA = desc + " panics"
						}
						continue
					}
					nv, _ := res[0].(int64)
					ev, _ := res[1].(mvErr)
					if inside {
						if (ev != "" || nv != lb) && badA == "" {
							badA = fmt.Sprintf("%s returns (%d, %s)", desc, nv, errName(ev))
						}
					} else {
						if (ev != "" && ev != "EOF" || nv != L-off) && badB == "" {
							badB = fmt.Sprintf("%s returns (%d, %s)", desc, nv, errName(ev))
						}
					}
				}
			}
		}
		c.Sites += rows
		pos := c.P.pos(f.Pos())
		if und > 0 {
			c.undecided(fnName(f), "evaluation on the grid of (region size, offset, buffer length)", pos, fmt.Sprintf("%d of %d rows could not be evaluated: %s", und, rows, why))
			continue
		}
		c.check(badA == "", fnName(f), "a read that lies inside the region returns all its bytes and no error", pos,
			fmt.Sprintf("%d rows, including reads that end exactly at the end of the region and the empty read at the end", rows),
			badA+": the decoder reads bucket, key and value with one call each, so a record that fills its segment to the last byte (with an empty value, an empty read at offset == size) cannot be read back and Open fails or drops it")
		c.check(badB == "", fnName(f), "a read that runs past the end of the region returns what is there with nil or io.EOF", pos,
			fmt.Sprintf("%d rows", rows),
			badB+": the header probe of the recovery scans starts inside the segment and may extend past its end; only a short zero-padded result or io.EOF is taken as end of data")
	}
	c.minInstances("RWManager.ReadAt implementations evaluated", n, 2)
}

func errName(e mvErr) string {
	if e == "" {
		return "nil"
	}
	return string(e)
}
