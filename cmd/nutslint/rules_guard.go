package main

import (
	"fmt"
	"go/token"
	"go/types"
	"sort"

	"golang.org/x/tools/go/ssa"
)

// ---------------------------------------------------------------------------
// closed-guard (C20, C12): every dereference of tx.db in the cone of an
// exported Tx method is dominated by a closed guard.

func isExported(f *ssa.Function) bool {
	return f.Object() != nil && f.Object().Exported()
}

// txParamOf returns the parameter of f that is a *Tx (receiver or argument).
func txParamsOf(f *ssa.Function) []*ssa.Parameter {
	var out []*ssa.Parameter
	for _, p := range f.Params {
		if _, ok := p.Type().Underlying().(*types.Pointer); ok && namedIs(p.Type(), "Tx") {
			out = append(out, p)
		}
	}
	return out
}

type closedAnalysis struct {
	p    *Prog
	memo map[*ssa.Parameter]int // 1 guarded-by-callers, 2 not, 3 in progress
}

// guardedByCallers: f is unexported and every call site passes, for parameter
// tp, the caller's own *Tx parameter at a point where that parameter is known
// open (dominated by a closed guard in the caller, or the caller is itself
// guarded by its callers).
func (a *closedAnalysis) guardedByCallers(f *ssa.Function, tp *ssa.Parameter) bool {
	if isExported(f) && f.Parent() == nil {
		return false
	}
	switch a.memo[tp] {
	case 1:
		return true
	case 2:
		return false
	case 3:
		return true // optimistic on recursion
	}
	a.memo[tp] = 3
	idx := paramIndex(f, tp)
	sites := a.p.CallersOf(f)
	res := len(sites) > 0
	for _, s := range sites {
		cc := s.Common()
		if cc.IsInvoke() || idx >= len(cc.Args) {
			res = false
			break
		}
		arg := resolve1(cc.Args[idx])
		g := s.Parent()
		gp, ok := arg.(*ssa.Parameter)
		if !ok || gp.Parent() != g {
			// a tx produced locally (e.g. by Begin): open if the site is dominated by Begin's err == nil
			if a.freshOpenTx(g, arg, s.Block()) {
				continue
			}
			if ex, ok := arg.(*ssa.Extract); ok {
				if call, ok := ex.Tuple.(*ssa.Call); ok {
					if cal := call.Call.StaticCallee(); cal != nil && a.returnsFreshTx(cal) {
						continue // value straight from the constructor
					}
				}
			}
			res = false
			break
		}
		if edgesDominate(g, closedGuardEdges(a.p, g, gp), s.Block()) {
			continue
		}
		if a.guardedByCallers(g, gp) {
			continue
		}
		res = false
		break
	}
	if res {
		a.memo[tp] = 1
	} else {
		a.memo[tp] = 2
	}
	return res
}

// freshOpenTx: v is the *Tx result of a call to DB.Begin whose error was tested nil on every path to blk.
func (a *closedAnalysis) freshOpenTx(g *ssa.Function, v ssa.Value, blk *ssa.BasicBlock) bool {
	ex, ok := v.(*ssa.Extract)
	if !ok {
		return false
	}
	call, ok := ex.Tuple.(*ssa.Call)
	if !ok || !calleeIs(&call.Call, modPath, "DB", "Begin") {
		return false
	}
	edges := nilEdges(g, true, func(x ssa.Value) bool {
		e2, ok := resolve1(x).(*ssa.Extract)
		return ok && e2.Tuple == ex.Tuple && isErrorType(e2.Type())
	})
	return edgesDominate(g, edges, blk)
}

// dbDerefs lists instructions of f that dereference the value loaded from tp.db.
func dbDerefs(f *ssa.Function, tp *ssa.Parameter) []ssa.Instruction {
	var out []ssa.Instruction
	instrs(f, func(in ssa.Instruction) {
		fa, ok := in.(*ssa.FieldAddr)
		if !ok {
			return
		}
		// fa.X must be a load of tp.db
		fv, base := lastField(fa.X)
		if fv == nil || fv.Name() != "db" || !namedIs(base.Type(), "Tx") {
			return
		}
		if !sameValue(base, tp) {
			return
		}
		if _, isLoad := resolve1(fa.X).(*ssa.UnOp); !isLoad {
			return
		}
		out = append(out, in)
	})
	// the loaded *DB handed to a module function that dereferences it
	calls(f, func(ci ssa.CallInstruction) {
		cc := ci.Common()
		cal := cc.StaticCallee()
		if cal == nil || cal.Blocks == nil || cc.IsInvoke() {
			return
		}
		for i, a := range cc.Args {
			fv, base := lastField(a)
			if fv == nil || fv.Name() != "db" || !namedIs(base.Type(), "Tx") || !sameValue(base, tp) {
				continue
			}
			if _, isLoad := resolve1(a).(*ssa.UnOp); !isLoad {
				continue
			}
			if i < len(cal.Params) && derefsParam(cal, cal.Params[i], 0) {
				out = append(out, ci)
			}
		}
	})
	return out
}

var derefParamMemo = map[*ssa.Parameter]int{}

// derefsParam: fn dereferences its pointer parameter p (directly or in a callee).
func derefsParam(fn *ssa.Function, p *ssa.Parameter, depth int) bool {
	switch derefParamMemo[p] {
	case 1:
		return true
	case 2, 3:
		return false
	}
	derefParamMemo[p] = 3
	res := false
	if p.Referrers() != nil && depth < 8 {
		for _, r := range *p.Referrers() {
			switch x := r.(type) {
			case *ssa.FieldAddr:
				if x.X == ssa.Value(p) {
					res = true
				}
			case *ssa.UnOp:
				if x.Op == token.MUL {
					res = true
				}
			case ssa.CallInstruction:
				cc := x.Common()
				if cal := cc.StaticCallee(); cal != nil && cal.Blocks != nil {
					for i, a := range cc.Args {
						if a == ssa.Value(p) && i < len(cal.Params) && derefsParam(cal, cal.Params[i], depth+1) {
							res = true
						}
					}
				}
			}
		}
	}
	if res {
		derefParamMemo[p] = 1
	} else {
		derefParamMemo[p] = 2
	}
	return res
}

func ruleClosedGuard(c *Ctx) {
	a := &closedAnalysis{p: c.P, memo: map[*ssa.Parameter]int{}}
	txT := c.P.Named("", "Tx")
	var entries []*ssa.Function
	for _, m := range c.P.Methods(txT) {
		if isExported(m) {
			entries = append(entries, m)
		}
	}
	c.minInstances("exported Tx methods", len(entries), 50)
	cone := map[*ssa.Function]bool{}
	for _, f := range c.P.ModCone(entries...) {
		cone[f] = true
	}
	var fs []*ssa.Function
	for f := range cone {
		fs = append(fs, f)
	}
	sort.Slice(fs, func(i, j int) bool { return fnKey(fs[i]) < fnKey(fs[j]) })
	nDeref := 0
	for _, f := range fs {
		for _, tp := range txParamsOf(f) {
			ders := dbDerefs(f, tp)
			if len(ders) == 0 {
				continue
			}
			c.touch(f)
			nDeref += len(ders)
			c.Sites += len(ders)
			// Begin-side construction (lock, newTx, getTxID) runs on a fresh, open tx
			edges := closedGuardEdges(c.P, f, tp)
			var unguarded []ssa.Instruction
			for _, d := range ders {
				if !edgesDominate(f, edges, d.Block()) {
					unguarded = append(unguarded, d)
				}
			}
			det := fmt.Sprintf("%d dereferences of %s.db", len(ders), tp.Name())
			det = "dereferences of " + tp.Name() + ".db are behind a closed guard"
			if len(unguarded) == 0 {
				c.ok(fnName(f), det, c.P.pos(f.Pos()), fmt.Sprintf("all %d dereferences dominated by tx.db != nil (directly or through a guarantor call)", len(ders)))
				continue
			}
			if a.guardedByCallers(f, tp) {
				c.ok(fnName(f), det, c.P.pos(f.Pos()), fmt.Sprintf("%d dereferences; every call site passes an open transaction", len(ders)))
				continue
			}
			if a.onFreshTx(f, tp) {
				c.ok(fnName(f), det, c.P.pos(f.Pos()), "only called on a freshly constructed transaction whose db field was just set")
				continue
			}
			var w []string
			for i, u := range unguarded {
				if i < 4 {
					w = append(w, c.P.ipos(u)+": "+shortInstr(u))
				}
			}
			c.bad(fnName(f), det, c.P.ipos(unguarded[0]),
				fmt.Sprintf("%d of %d dereferences of %s.db can execute on a finished transaction (tx.db == nil): nil-pointer panic instead of an error", len(unguarded), len(ders), tp.Name()), w...)
		}
	}
	c.minInstances("dereferences of tx.db in the Tx API cone", nDeref, 150)
	// no dereference after tx.db is cleared
	for _, f := range fs {
		for _, tp := range txParamsOf(f) {
			instrs(f, func(in ssa.Instruction) {
				st, ok := in.(*ssa.Store)
				if !ok || !isNilConst(st.Val) {
					return
				}
				fa, ok := st.Addr.(*ssa.FieldAddr)
				if !ok || fieldVarOf(fa).Name() != "db" || !sameValue(fa.X, tp) {
					return
				}
				ders := map[ssa.Instruction]bool{}
				for _, d := range dbDerefs(f, tp) {
					ders[d] = true
				}
				// calls that dereference tx.db inside (lock/unlock and friends)
				isDeref := func(x ssa.Instruction) bool {
					if ders[x] {
						return true
					}
					if cc := callOf(x); cc != nil {
						if cal := cc.StaticCallee(); cal != nil && c.P.inModule(cal) && len(cc.Args) > 0 && sameValue(cc.Args[0], tp) {
							for _, q := range txParamsOf(cal) {
								if paramIndex(cal, q) == 0 && len(dbDerefs(cal, q)) > 0 && !edgesDominateAll(cal, closedGuardEdges(c.P, cal, q), dbDerefs(cal, q)) {
									return true
								}
							}
						}
					}
					return false
				}
				reStore := func(x ssa.Instruction) bool {
					s2, ok := x.(*ssa.Store)
					if !ok || s2 == st {
						return false
					}
					fa2, ok := s2.Addr.(*ssa.FieldAddr)
					return ok && fieldVarOf(fa2).Name() == "db" && sameValue(fa2.X, tp)
				}
				p := findPath(f, st, isDeref, reStore, nil)
				c.Sites++
				c.check(p == nil, fnName(f), "no use of tx.db after it is cleared", c.P.ipos(st), "", "tx.db is set to nil and then dereferenced on the same path", c.witnessOf(p)...)
			})
		}
	}
}

func edgesDominateAll(f *ssa.Function, edges []succEdge, ins []ssa.Instruction) bool {
	for _, i := range ins {
		if !edgesDominate(f, edges, i.Block()) {
			return false
		}
	}
	return true
}

// onFreshTx: every call site passes a *Tx that was allocated in the caller
// (construction path of Begin) or the caller's own fresh-tx parameter.
func (a *closedAnalysis) onFreshTx(f *ssa.Function, tp *ssa.Parameter) bool {
	return a.freshDepth(f, tp, 0)
}

func (a *closedAnalysis) freshDepth(f *ssa.Function, tp *ssa.Parameter, d int) bool {
	if d > 4 || (isExported(f) && f.Parent() == nil) {
		return false
	}
	idx := paramIndex(f, tp)
	sites := a.p.CallersOf(f)
	if len(sites) == 0 {
		return false
	}
	for _, s := range sites {
		cc := s.Common()
		if cc.IsInvoke() || idx >= len(cc.Args) {
			return false
		}
		arg := cc.Args[idx]
		root, sfx := splitPath(arg)
		if sfx != "" {
			return false
		}
		switch r := root.(type) {
		case *ssa.Alloc:
			if !namedIs(r.Type(), "Tx") {
				return false
			}
		case *ssa.Extract:
			// result of the constructor, used before anything could finish it
			call, ok := r.Tuple.(*ssa.Call)
			if !ok {
				return false
			}
			cal := call.Call.StaticCallee()
			if cal == nil || !a.returnsFreshTx(cal) {
				return false
			}
		case *ssa.Parameter:
			if !a.freshDepth(s.Parent(), r, d+1) {
				return false
			}
		default:
			return false
		}
	}
	return true
}

func (a *closedAnalysis) returnsFreshTx(f *ssa.Function) bool {
	if f.Blocks == nil {
		return false
	}
	for _, r := range returnsOf(f) {
		for _, res := range r.Results {
			if !namedIs(res.Type(), "Tx") {
				continue
			}
			for _, v := range resolve(res) {
				if isNilConst(v) {
					continue
				}
				if al, ok := v.(*ssa.Alloc); ok && namedIs(al.Type(), "Tx") {
					continue
				}
				return false
			}
		}
	}
	return true
}

// ---------------------------------------------------------------------------
// db-closed guard (C20): exported DB methods touch index state / ActiveFile
// only behind the db.closed test or through Begin.

func ruleDBClosedGuard(c *Ctx) {
	dbT := c.P.Named("", "DB")
	n := 0
	for _, m := range c.P.Methods(dbT) {
		if !isExported(m) {
			continue
		}
		n++
		c.touch(m)
		recv := m.Params[0]
		// guard edges: db.closed == false, or err == nil of a Begin/managed/View/Update call on recv
		edges := boolEdges(m, false, func(x ssa.Value) bool {
			fv, base := lastField(x)
			return fv != nil && fv.Name() == "closed" && sameValue(base, recv)
		})
		edges = append(edges, nilEdges(m, true, func(x ssa.Value) bool {
			x = resolve1(x)
			var call *ssa.Call
			switch v := x.(type) {
			case *ssa.Call:
				call = v
			case *ssa.Extract:
				call, _ = v.Tuple.(*ssa.Call)
				if !isErrorType(v.Type()) {
					return false
				}
			}
			return call != nil && calleeIs(&call.Call, modPath, "DB", "Begin") && sameValue(call.Call.Args[0], recv)
		})...)
		// sinks: accesses to DB fields holding index state or the active file, in m and in unexported
		// DB-receiver helpers called with the same receiver outside any guard
		var sinks []ssa.Instruction
		var collect func(f *ssa.Function, r *ssa.Parameter, depth int, guardedHere func(*ssa.BasicBlock) bool)
		seen := map[*ssa.Function]bool{}
		collect = func(f *ssa.Function, r *ssa.Parameter, depth int, guarded func(*ssa.BasicBlock) bool) {
			if seen[f] || depth > 6 {
				return
			}
			seen[f] = true
			instrs(f, func(in ssa.Instruction) {
				if guarded(in.Block()) {
					return
				}
				if fa, ok := in.(*ssa.FieldAddr); ok && sameValue(fa.X, r) && namedIs(fa.X.Type(), "DB") {
					switch fieldVarOf(fa).Name() {
					case "opt", "mu", "closed", "isMerging":
					default:
						// only dereferencing uses matter for panics: a nil map read is fine, a nil *BPTree / *DataFile method call is not
						if derefsPointerField(fa) {
							sinks = append(sinks, in)
						}
					}
				}
				if cc := callOf(in); cc != nil {
					if cal := cc.StaticCallee(); cal != nil && c.P.inModule(cal) && cal.Signature.Recv() != nil && namedIs(cal.Signature.Recv().Type(), "DB") &&
						len(cc.Args) > 0 && sameValue(cc.Args[0], r) && !isExported(cal) {
						collect(cal, cal.Params[0], depth+1, func(*ssa.BasicBlock) bool { return false })
					}
				}
			})
		}
		collect(m, recv, 0, func(b *ssa.BasicBlock) bool { return len(edges) > 0 && edgesDominate(m, edges, b) })
		c.Sites += len(sinks)
		if len(sinks) == 0 {
			c.ok(fnName(m), "index state / active file touched only behind the closed check", c.P.pos(m.Pos()), "")
			continue
		}
		var w []string
		for i, s := range sinks {
			if i < 6 {
				w = append(w, c.P.ipos(s)+": "+fnName(s.Parent())+": "+shortInstr(s))
			}
		}
		c.bad(fnName(m), "index state / active file touched only behind the closed check", c.P.ipos(sinks[0]),
			fmt.Sprintf("%d accesses to pointer-valued database state (index objects, active file) can run after Close (which sets them to nil) without a db.closed test or a successful Begin", len(sinks)), w...)
	}
	c.minInstances("exported DB methods", n, 6)
}

// derefsPointerField: the loaded field value (a pointer) is dereferenced: used
// as the base of a FieldAddr or as receiver of a method call.
func derefsPointerField(fa *ssa.FieldAddr) bool {
	ft := fieldVarOf(fa).Type()
	_, isPtr := ft.Underlying().(*types.Pointer)
	_, isMap := ft.Underlying().(*types.Map)
	if !isPtr && !isMap {
		return false
	}
	res := false
	var uses func(v ssa.Value, depth int)
	uses = func(v ssa.Value, depth int) {
		if v.Referrers() == nil || depth > 4 {
			return
		}
		for _, r := range *v.Referrers() {
			switch x := r.(type) {
			case *ssa.UnOp:
				if x.Op == token.MUL {
					uses(x, depth+1)
				}
			case *ssa.FieldAddr:
				if x.X == v && depth > 0 {
					res = true
				}
			case *ssa.Lookup:
				// element of a map of pointers: follow
				if x.X == v {
					uses(x, depth+1)
				}
			case *ssa.Extract:
				uses(x, depth+1)
			case ssa.CallInstruction:
				cc := x.Common()
				if !cc.IsInvoke() && len(cc.Args) > 0 && cc.Args[0] == v && cc.StaticCallee() != nil && cc.StaticCallee().Signature.Recv() != nil {
					if _, isP := v.Type().Underlying().(*types.Pointer); isP && depth > 0 {
						res = true
					}
				}
			}
		}
	}
	uses(fa, 0)
	return res
}

// ---------------------------------------------------------------------------
// map-ok (C20, C15): method calls / field accesses on the result of
// XIdx[bucket] are dominated by the comma-ok test, the ensure idiom or a
// guarantor call.

var bucketMaps = map[string]bool{"BPTreeIdx": true, "SetIdx": true, "SortedSetIdx": true, "ListIdx": true}

func bucketMapOf(v ssa.Value) string {
	fv, base := lastField(v)
	if fv != nil && bucketMaps[fv.Name()] && namedIs(base.Type(), "DB") {
		return fv.Name()
	}
	return ""
}

// presentEdgesAndStores: edges on which m[k] is known present and MapUpdate
// instructions that make it present, for map field `mapName` and key path `key`.
func presentFacts(p *Prog, f *ssa.Function, mapName, key string) ([]succEdge, map[ssa.Instruction]bool) {
	edges := boolEdges(f, true, func(x ssa.Value) bool {
		ex, ok := x.(*ssa.Extract)
		if !ok || ex.Index != 1 {
			return false
		}
		lk, ok := ex.Tuple.(*ssa.Lookup)
		return ok && lk.CommaOk && bucketMapOf(lk.X) == mapName && pathOf(lk.Index) == key
	})
	// guarantor: err == nil of a call g(…bucket…) where g guarantees presence of m[param]
	edges = append(edges, nilEdges(f, true, func(x ssa.Value) bool {
		x = resolve1(x)
		var call *ssa.Call
		switch v := x.(type) {
		case *ssa.Call:
			call = v
		case *ssa.Extract:
			call, _ = v.Tuple.(*ssa.Call)
			if !isErrorType(v.Type()) {
				return false
			}
		}
		if call == nil {
			return false
		}
		cal := call.Call.StaticCallee()
		if cal == nil || !p.inModule(cal) || cal.Blocks == nil {
			return false
		}
		for i, a := range call.Call.Args {
			if pathOf(a) == key && i < len(cal.Params) && isBucketGuarantor(p, cal, mapName, cal.Params[i], 0) {
				return true
			}
		}
		return false
	})...)
	stores := map[ssa.Instruction]bool{}
	instrs(f, func(in ssa.Instruction) {
		if mu, ok := in.(*ssa.MapUpdate); ok && bucketMapOf(mu.Map) == mapName && pathOf(mu.Key) == key && !isNilConst(mu.Value) {
			stores[in] = true
		}
	})
	return edges, stores
}

var bucketGuarMemo = map[string]bool{}

// isBucketGuarantor: every return of g with a possibly-nil error is reached
// only when m[param] is present.
func isBucketGuarantor(p *Prog, g *ssa.Function, mapName string, param *ssa.Parameter, depth int) bool {
	k := fnName(g) + "|" + mapName + "|" + param.Name()
	if v, ok := bucketGuarMemo[k]; ok {
		return v
	}
	bucketGuarMemo[k] = false
	idx := errResultIndex(g)
	if idx < 0 || depth > 4 {
		return false
	}
	edges, stores := presentFactsDepth(p, g, mapName, pathOf(param), depth+1)
	res := true
	for _, r := range returnsOf(g) {
		if classifyRetOperand(r, idx) == retNonNil {
			continue
		}
		if !presentAt(g, edges, stores, r) {
			res = false
		}
	}
	bucketGuarMemo[k] = res
	return res
}

func presentFactsDepth(p *Prog, f *ssa.Function, mapName, key string, depth int) ([]succEdge, map[ssa.Instruction]bool) {
	return presentFacts(p, f, mapName, key)
}

// presentAt: every path from entry to `at` passes a present-edge or a present-store.
func presentAt(f *ssa.Function, edges []succEdge, stores map[ssa.Instruction]bool, at ssa.Instruction) bool {
	p := findPath(f, nil, func(in ssa.Instruction) bool { return in == at }, func(in ssa.Instruction) bool { return stores[in] }, edgeSet(edges))
	return p == nil
}

func ruleMapOK(c *Ctx) {
	n := 0
	type siteKey struct{ fn, mp string }
	ord := map[siteKey]int{}
	for _, f := range c.P.SrcFuncs {
		if f.Pkg != c.P.Main {
			continue
		}
		instrs(f, func(in ssa.Instruction) {
			lk, ok := in.(*ssa.Lookup)
			if !ok || lk.CommaOk {
				return
			}
			mp := bucketMapOf(lk.X)
			if mp == "" {
				return
			}
			// is the looked-up pointer dereferenced (method call with it as receiver, or field access)?
			deref := false
			var user ssa.Instruction
			for _, r := range *lk.Referrers() {
				switch x := r.(type) {
				case *ssa.FieldAddr:
					deref, user = true, x
				case ssa.CallInstruction:
					cc := x.Common()
					if !cc.IsInvoke() && len(cc.Args) > 0 && cc.Args[0] == ssa.Value(lk) && cc.StaticCallee() != nil && cc.StaticCallee().Signature.Recv() != nil {
						deref, user = true, x
					}
				}
			}
			if !deref {
				return
			}
			n++
			c.touch(f)
			c.Sites++
			k := siteKey{fnName(f), mp}
			ord[k]++
			key := pathOf(lk.Index)
			edges, stores := presentFacts(c.P, f, mp, key)
			det := fmt.Sprintf("%s[%s] use #%d", mp, dispPath(lk.Index), ord[k])
			if presentAt(f, edges, stores, lk) {
				c.ok(fnName(f), det, c.P.ipos(lk), "bucket presence established (comma-ok, ensure idiom or guarantor) before the index object is used")
			} else {
				c.bad(fnName(f), det, c.P.ipos(user), "the index object of a bucket is used without establishing that the bucket exists: for a missing bucket the map yields nil and the method call panics")
			}
		})
	}
	c.minInstances("uses of per-bucket index objects", n, 20)
}
