package main

import "sort"

func addRules(id string, rs ...string) {
	for i := range properties {
		if properties[i].ID == id {
			for _, r := range rs {
				dup := false
				for _, x := range properties[i].Rules {
					if x == r {
						dup = true
					}
				}
				if !dup {
					properties[i].Rules = append(properties[i].Rules, r)
				}
			}
			return
		}
	}
	panic("addRules: unknown property " + id)
}

func setExplain(id, explain, notCov string) {
	for i := range properties {
		if properties[i].ID == id {
			properties[i].Explain = explain
			if notCov != "" {
				properties[i].NotCov = notCov
			}
		}
	}
}

func init() {
	properties = append(properties,
		Property{ID: "C03", Rules: []string{"R-COUNT"},
			Explain: "Decides the clause 'deleted or expired keys neither appear nor consume offset or limit': every counter compared with the offset/limit arguments is incremented only behind the tombstone and expiry tests, and every limit applied to a list length uses a list of live entries.",
			NotCov:  "the paging arithmetic itself (off-by-one in the offset/limit comparisons), regular-expression semantics, ascending order - runtime values."},
		Property{ID: "C04", Rules: []string{"R-BUCKETKEY", "R-OWN", "R-COMPOSITE"},
			Explain: "Decides that every per-bucket index map is addressed only with the operation's own bucket (API parameter, or the record's own bucket during apply/replay/merge), that two-bucket methods pair each structure with its own key parameter, that API calls cannot touch index objects except through logged records, and that sparse-mode composite keys are injective.",
			NotCov:  "isolation inside the sparse on-disk index files beyond key injectivity."},
		Property{ID: "C07", Rules: []string{"R-SENT", "R-REPLAY-ZSET"},
			Explain: "Decides the clause 'no query ever returns a node that is not a member' by value-flow of the skiplist header sentinel (payload reads, result appends, link stores and returns of a possibly-header value need a dominating != header test), and that sorted-set op codes are applied identically at commit and on reopen.",
			NotCov:  "skiplist ordering, rank and span correctness under random levels; equality with a (score,key)-ordered model - runtime values, not applicable to static analysis."},
		Property{ID: "C12", Rules: []string{"R-ATOMIC", "R-PUT", "R-RO", "R-OWN", "R-CLOSED", "R-TXID", "R-COMMITTED-READ", "R-COMMIT-EMPTY"},
			Explain: "Decides that a failing Commit publishes nothing reader-visible before its last fallible step (one obligation per publication/error-exit pair), that only writable open transactions can enqueue writes and no API bypasses the queue, that Rollback and read APIs write nothing shared and touch no file, that calls on a finished transaction hit the closed guard before dereferencing tx.db, that a failed transaction cannot share its id with a committed one, that Get shows only committed data, and that an empty commit changes nothing.",
			NotCov:  "outcomes of injected I/O faults beyond 'nothing published before the fault point'; the in-doubt case after a sync error."},
		Property{ID: "C15", Rules: []string{"R-MERGE-ORDER", "R-ACTIVEFILE", "R-MERGE-COMMITTED", "R-MERGE-IDEMP", "R-MERGE-CLASSIFY", "R-MAPOK", "R-DBCLOSED"},
			Explain: "Decides the merge protocol: a segment is removed only after its rewrite reported success (and the rewrite reports a failed commit), the output goes to a fresh highest segment whose id is recorded in the new active file, only records of committed transactions are kept, records already in the in-memory index are not re-applied, every emitted op code is classified as dead or live-if-present, and index objects are used only after the bucket was found.",
			NotCov:  "whether keeping 'push records whose value is still present' is a faithful compaction of a list (a semantic question about runtime values)."},
		Property{ID: "C16", Rules: []string{"R-MERGE-ORDER", "R-ORDER", "R-MERGE-IDEMP", "R-SYNC"},
			Explain: "Decides the ordering facts a crash during Merge relies on: old segment removed only after its rewrite committed (through the same Commit whose sync-after-write protocol R-SYNC decides), output segment id above all existing ids, replay in ascending id order, and no re-application of non-idempotent operations while both copies exist.",
			NotCov:  "enumeration of crash points inside Merge."},
		Property{ID: "C19", Rules: []string{"R-FLAGUSE", "R-RWPARITY", "R-SCANEND", "R-POS", "R-ACTIVEFILE", "R-SYNCIMPL"},
			Explain: "Decides that SyncEnable can influence nothing but whether a sync runs and RWMode/StartFileLoadingMode nothing but which RWManager runs (uses classified from what each flag test controls), that both RWManager implementations open and size the segment identically, that scan loops tolerate both implementations' end-of-data signalling, and that key-only mode reads the position key-value mode cached.",
			NotCov:  "equality of results across option sets as such (runtime behaviour)."},
	)
	addRules("C01", "R-COMMITTED-READ", "R-LEAFCHAIN")
	addRules("C03", "R-LEAFCHAIN", "R-REGEX-REMAINDER")
	addRules("C02", "R-METARANGE", "R-LEAFCHAIN")
	addRules("C13", "R-LOCKMAP", "R-TXPAIR", "R-LOGPURE", "R-LOGGED")
	addRules("C05", "R-LOGPURE", "R-LOGGED")
	addRules("C06", "R-LOGGED", "R-LOGPURE")
	addRules("C07", "R-LOGGED", "R-LOGPURE")
	addRules("C12", "R-LOGGED")
	addRules("C10", "R-RECOVER-ORDER")
	addRules("C09", "R-ENTRY-PRESENT", "R-SIZEPAIR")
	addRules("C19", "R-SIZEPAIR")
	addRules("C20", "R-TXPAIR")
	addRules("C21", "R-RAWREAD", "R-GLOBALS", "R-SIZEPAIR")
	addRules("C19", "R-SHORTREAD")
	addRules("C09", "R-SHORTREAD")
	// round 4
	for _, pid := range []string{"C01", "C02", "C05", "C06", "C08", "C09", "C10", "C19"} {
		addRules(pid, "R-READAT-SPEC")
	}
	addRules("C01", "R-APPLY-ALL", "R-CODEC")
	addRules("C05", "R-CODEC", "R-RECKEY")
	addRules("C06", "R-CODEC", "R-RECKEY")
	addRules("C07", "R-CODEC", "R-RECKEY")
	addRules("C08", "R-CODEC")
	addRules("C02", "R-EXPIRY")
	addRules("C03", "R-EXPIRY")
	addRules("C10", "R-SYNCIMPL")
	addRules("C15", "R-COMMITSET-MONO")
	addRules("C16", "R-COMMITSET-MONO")
	addRules("C17", "R-COMMITSET-MONO", "R-MERGE-ORDER")
	addRules("C12", "R-MERGE-COMMITTED")
	addRules("C18", "R-RECOVER-ORDER", "R-ORDER")
	addRules("C21", "R-READAT-SPEC")
	addRules("C20", "R-CONSTINDEX", "R-SLICE-LOW")
	addRules("C05", "R-SLICE-LOW", "R-NEGATE")
	addRules("C20", "R-NEGATE")
	// round 5
	reg("R-NILNODE", "In the main package a node handed out by a data-structure package that may be absent (the tail / first link of an empty skiplist, a failed dictionary lookup, an explicit nil, also through wrappers that return it with a nil error) is dereferenced - field read, or passed to a method that reads it - only behind a != nil test.", ruleNilNode)
	addRules("C20", "R-NILNODE")
	addRules("C07", "R-NILNODE")
	// round 5 wiring: rules that decided a round-5 seed written against another property that rests on the same clause
	addRules("C03", "R-LOGGED")
	addRules("C05", "R-ERRPOLICY")
	addRules("C06", "R-ERRPOLICY", "R-BUCKETKEY")
	addRules("C07", "R-ERRPOLICY")
	addRules("C09", "R-ORDER")
	addRules("C10", "R-RWPARITY")
	addRules("C11", "R-RECOVER", "R-RECOVER-ORDER")
	addRules("C13", "R-REPLAY", "R-MERGE-KEEPORDER")
	addRules("C01", "R-MERGE-KEEPORDER")
	addRules("C16", "R-MERGE-NEWER")
	reg("R-LOCKPAIR", "Every direct acquisition of DB.mu outside the transaction lock functions (Lock/RLock not reached through a Tx) is followed on every path to a return by the matching Unlock/RUnlock call or a deferred one.", ruleLockPair)
	addRules("C14", "R-LOCKPAIR")
	addRules("C17", "R-LOCKPAIR")
	addRules("C20", "R-LOCKPAIR")
	reg("R-CLOSE-KEEP", "The cone of DB.Close reaches no file-removing, -resizing, -renaming or -creating primitive: Close leaves the directory exactly as the writes produced it.", ruleCloseKeep)
	addRules("C22", "R-CLOSE-KEEP", "R-APPLY-ALL")
	addRules("C08", "R-CLOSE-KEEP")
	addRules("C09", "R-CLOSE-KEEP")
	addRules("C19", "R-APPLY-ALL")
	reg("R-NILMAP", "Every store into a map-valued field of DB that some function sets to nil (Open drops DB.committedTxIds after the sparse-mode rebuild) is behind a test of Options.EntryIdxMode that excludes the dropping mode, behind a != nil test of the field, or after a make() in the same function.", ruleNilMap)
	addRules("C20", "R-NILMAP")
	reg("R-ACTIVE-RESUME", "Every call of a function that installs an existing segment (getDataPath(MaxFileID), not MaxFileID+k) as DB.ActiveFile is followed on every path to a successful return - except behind an empty segment listing - by a store that restores DB.ActiveFile.writeOff.", ruleActiveResume)
	for _, id := range []string{"C09", "C10", "C15", "C08"} {
		addRules(id, "R-ACTIVE-RESUME")
	}
	reg("R-MERGE-KVONLY", "Every comparison in Merge of the scan position with the Hint of the record the key/value index holds for the scanned bucket and key is dominated by ds == DataStructureBPTree of the scanned entry: only key/value records can be superseded through that index.", ruleMergeKVOnly)
	for _, id := range []string{"C15", "C04", "C05", "C06", "C07"} {
		addRules(id, "R-MERGE-KVONLY")
	}
	addRules("C21", "R-CAPACITY-AGREE")
	addRules("C19", "R-NEWEST")
	reg("R-META-THROUGH", "On the commit path every store into DB.bucketMetas has a write of the bucket meta file on every path before it, or on every path from it to a successful return, in the same function (the cache is written through, not flushed later).", ruleMetaThrough)
	for _, id := range []string{"C18", "C08", "C10", "C02"} {
		addRules(id, "R-META-THROUGH")
	}
	addRules("C02", "R-STATUS-USE")
	reg("R-DESCENT", "Every comparison of the searched key with Keys[i] made while the current node is known not to be a leaf (in-memory FindLeaf, on-disk FindLeafOnDisk, FindTxIDOnDisk), evaluated for key == separator, takes the branch that advances the child index: descents agree with the split, which copies the first key of the right node up.", ruleDescent)
	for _, id := range []string{"C01", "C02", "C10", "C12"} {
		addRules(id, "R-DESCENT")
	}
	reg("R-MERGE-KEEPACTIVE", "Every os.Remove in the per-segment loop of Merge is dominated by the not-equal edge of a comparison of the scanned segment id with DB.ActiveFile.fileID (directly or through a predicate helper): the segment that is still the active file is never unlinked.", ruleMergeKeepActive)
	for _, id := range []string{"C15", "C10", "C11"} {
		addRules(id, "R-MERGE-KEEPACTIVE")
	}
	reg("R-MEMBER-NEG", "The membership predicates of ds/set (methods of *Set whose first result is a bool) return false only on a path on which one of their map lookups missed or the looked-up map is empty.", ruleMemberNeg)
	addRules("C06", "R-MEMBER-NEG")
	addRules("C16", "R-MERGE-PRESERVE")
	addRules("C08", "R-HINTKEY", "R-INSERT-TOTAL")
	addRules("C09", "R-INSERT-TOTAL")
	addRules("C02", "R-HINTKEY")
	addRules("C03", "R-APPLY-ALL")
	addRules("C16", "R-RWPARITY", "R-ERRPOLICY")
	addRules("C09", "R-RWPARITY")
	addRules("C17", "R-RO")
	addRules("C18", "R-SYNCIMPL", "R-RO-IO")
	addRules("C20", "R-GLOBALS")
	addRules("C22", "R-POS", "R-UPDATE", "R-MERGING-SCOPE")
	addRules("C01", "R-MERGING-SCOPE")
	reg("R-SHORTREAD", "In the entry decoder the byte count returned by RWManager.ReadAt is ignored, or the tests on it control no return of an error other than io.EOF.", ruleShortRead)
	for _, id := range []string{"C05", "C06", "C07", "C08", "C13"} {
		addRules(id, "R-APPLY-ALL")
	}
	reg("R-APPLY-ALL", "No condition that controls a commit-time or open-time applier call (in the applier or along its call chain up to the record loop) reads a map that is not a struct field: whether a committed record is applied depends on the record itself, not on a side table computed from other records.", ruleApplyAll)
	addRules("C04", "R-EOD-SIGNAL")
	addRules("C09", "R-EOD-SIGNAL", "R-TRUNC-GROW", "R-CAPACITY-AGREE", "R-OPEN-ALLSEGS")
	addRules("C05", "R-TRUNC-GROW")
	addRules("C08", "R-TRUNC-GROW", "R-EOD-SIGNAL")
	addRules("C19", "R-TRUNC-GROW", "R-CAPACITY-AGREE")
	addRules("C10", "R-OPEN-ALLSEGS")
	addRules("C11", "R-OPEN-ALLSEGS")
	reg("R-EOD-SIGNAL", "Every (nil entry, nil error) return of DataFile.ReadAt is dominated by the true edge of Entry.IsZero on the decoded header: only the all-zero header means end of data.", ruleEODSignal)
	reg("R-TRUNC-GROW", "Every (*os.File).Truncate(capacity) call in the module is dominated by size < capacity (size from FileInfo.Size): opening a segment only grows it.", ruleTruncGrow)
	reg("R-CAPACITY-AGREE", "A comparison in the entry decoder (or a helper it calls) whose linear form is offset + Entry.Size() - <DataFile field> rejects only on > 0: a record may end exactly at the capacity, as the writer's rotation test allows.", ruleCapacityAgree)
	reg("R-OPEN-ALLSEGS", "In the function of Open's cone that lists the segment ids and hands them to the segment parser, no path reaches a success return without the parser call unless it passes the edge on which the listing is nil/empty.", ruleOpenAllSegs)
	addRules("C15", "R-MERGE-PRESERVE", "R-MERGE-KEEPORDER")
	addRules("C03", "R-MERGE-PRESERVE")
	addRules("C01", "R-MERGE-PRESERVE")
	addRules("C07", "R-MERGE-KEEPORDER")
	addRules("C05", "R-MERGE-KEEPORDER")
	reg("R-MERGE-PRESERVE", "Every argument of the pending-write gate call in the merge rewrite step is a load of the corresponding stored field (bucket, key, value, TTL, flag, timestamp, ds) of the one entry being rewritten.", ruleMergePreserve)
	reg("R-MERGE-KEEPORDER", "In the cone of Merge (outside the commit path) entry slices are only appended to: no store replaces an element already collected, so rewritten records keep log order.", ruleMergeKeepOrder)
	addRules("C01", "R-SIZEPAIR")
	addRules("C02", "R-CODEC")
	addRules("C03", "R-ORDER")
	addRules("C04", "R-LOGGED")
	addRules("C05", "R-OWN", "R-ATOMIC-DS", "R-MARKER")
	addRules("C06", "R-ATOMIC-DS", "R-MARKER")
	addRules("C07", "R-OWN", "R-ATOMIC-DS", "R-MARKER")
	addRules("C08", "R-RWBOUNDS", "R-SIZEPAIR")
	reg("R-ATOMIC-DS", "R-ATOMIC restricted to publications into the list/set/sorted-set indexes: in Tx.Commit no call that reaches a list/set/sorted-set mutator is followed on a feasible path by a return of a non-nil error.", ruleAtomicDS)
	for _, id := range []string{"C11", "C12", "C15", "C16", "C17", "C18"} {
		addRules(id, "R-MERGING-SCOPE")
	}
	addRules("C10", "R-STATUS-USE", "R-COMMITSET-ALWAYS")
	addRules("C22", "R-STATUS-USE", "R-FILEID-READ")
	addRules("C19", "R-STATUS-USE")
	addRules("C15", "R-COMMITSET", "R-COMMITSET-ALWAYS")
	addRules("C16", "R-COMMITSET", "R-COMMITSET-ALWAYS", "R-MARKER")
	addRules("C17", "R-GLOBALS")
	addRules("C18", "R-LOCKMAP", "R-CODEC")
	addRules("C12", "R-RECOVER", "R-RECOVER-ORDER")
	addRules("C13", "R-ZSCORE")
	addRules("C09", "R-CODEC")
	reg("R-MERGING-SCOPE", "Either every path from the store of true into DB.isMerging to a return of Merge passes a store of false, or every test of DB.isMerging in the module controls no store, call or return (it only selects a constant): a flag that outlives the merge must not switch behaviour.", ruleMergingScope)
	reg("R-STATUS-USE", "Every comparison of a record's MetaData.status with Committed is the recovery guard of an insertion into the committed-id set keyed by the same record's txID; read paths never filter on the on-disk status (only a transaction's last record carries it).", ruleStatusUse)
	reg("R-COMMITSET-ALWAYS", "The commit-time registration in DB.committedTxIds is controlled only by the marker-record test, the index mode, the write loop's own size/loop tests and error tests: no additional condition can leave a committed transaction unregistered.", ruleCommitSetAlways)
	addRules("C01", "R-LOGGED", "R-FILEID-READ", "R-ORDER")
	addRules("C02", "R-LOGGED", "R-BOUNDS-LIVE", "R-ORDER")
	addRules("C03", "R-LIVE", "R-NEWEST", "R-FILEID-READ")
	addRules("C04", "R-FILEID-READ")
	addRules("C05", "R-RECOVER-ORDER")
	addRules("C06", "R-RECOVER-ORDER")
	addRules("C07", "R-RECOVER-ORDER")
	addRules("C09", "R-SIZECHECK")
	addRules("C19", "R-SIZECHECK", "R-FILEID-READ")
	addRules("C10", "R-ADVANCE", "R-COMMITSET")
	addRules("C12", "R-ADVANCE", "R-COMMITSET")
	addRules("C11", "R-MERGE-ORDER", "R-SIZEPAIR")
	addRules("C10", "R-SIZEPAIR")
	addRules("C19", "R-BOUNDS-LIVE")
	reg("R-FILEID-READ", "Every read of DataFile.fileID is on DB.ActiveFile or on a DataFile whose fileID is assigned in the same function: NewDataFile leaves it 0, so any other handle claims to be segment 0.", ruleFileIDRead)
	reg("R-BOUNDS-LIVE", "The functions that write BPTree.FirstKey/LastKey contain no tombstone or expiry test: a delete marker widens the key bounds (which become a sealed segment's lookup range in sparse mode) like any other record.", ruleBoundsLive)
	reg("R-SIZECHECK", "Every comparison in the commit path that relates an Entry.Size() value to Options.SegmentSize compares them with no constant offset or scaling: an entry is accepted only if its encoded size fits into a segment.", ruleSizeCheck)
	reg("R-ADVANCE", "In the commit path every advance of the active file's writeOff / ActualSize is dominated by the nil result of the record's WriteAt: a failed write leaves no hole behind which later commits land.", ruleAdvance)
	reg("R-COMMITSET", "In the commit path a transaction id is put into DB.committedTxIds only under index == len(pendingWrites)-1 and after the nil result of the record's WriteAt.", ruleCommitSet)
	addRules("C07", "R-ZSCORE")
	reg("R-ZSCORE", "In ds/zset the ordering keys (score, key) of a skiplist node are stored only while the node is constructed; an in-place score store on a linked node must be dominated by strict comparisons placing the new score between both level-0 neighbours' scores (or by their absence).", ruleZScore)
	addRules("C20", "R-ALLOC-BOUND", "R-LASTELEM")
	reg("R-LASTELEM", "Every element access or slice start at (S - k), k >= 1, where S is a length (len(...) or a module function returning one), is dominated by a comparison establishing S >= k.", ruleLastElem)
	reg("R-ALLOC-BOUND", "No make() in the module takes a length or capacity that derives (arithmetic, conversions, phis, module calls and their results) from an integer parameter of an exported Tx method or from an integer the appliers decode from a stored record, unless an upper clamp against an untainted bound intervenes.", ruleAllocBound)
	addRules("C15", "R-MERGE-EVERY", "R-MERGE-NEWER")
	addRules("C16", "R-MERGE-EVERY")
	reg("R-MERGE-EVERY", "In DB.Merge no path leads from opening one listed segment to opening the next without passing os.Remove: every listed segment is rewritten and removed in ascending order, none is skipped.", ruleMergeEvery)
	reg("R-MERGE-NEWER", "The index lookup whose result Merge compares with the scan position (to drop superseded records) contains no tombstone or expiry test in its cone: a newest record that is deleted or expired still supersedes the older ones.", ruleMergeNewer)
	addRules("C04", "R-RECKEY")
	addRules("C13", "R-RECKEY")
	reg("R-RECKEY", "Every comparison or map key that matches the elements of a record collection ([]*Entry / []*Record: pending writes, merge rewrite set, scan results) by their key also involves the element's bucket; named exception processEntriesScanOnDisk (input already restricted to one bucket).", ruleRecKey)
	addRules("C09", "R-RWBOUNDS")
	addRules("C19", "R-RWBOUNDS")
	reg("R-RWBOUNDS", "No RWManager.ReadAt implementation that returns one of the module's own errors decides it from a comparison combining the offset with the length of the caller's buffer: a read that starts inside the segment and is cut short by its end is a short read / io.EOF (as FileIO reports it), which is what the segment scan loops tolerate.", ruleRWBounds)
	reg("R-RAWREAD", "Every call of RWManager.ReadAt outside the RWManager implementations sits in a function whose every possibly non-nil record return is dominated by the CRC comparison: segment bytes reach callers only through the verifying decoder.", ruleRawRead)
	addRules("C17", "R-MERGE-COMMITTED")
	reg("R-SIZEPAIR", "DataFile.writeOff (where Commit writes) and DataFile.ActualSize (what Commit tests to rotate) move together: every advance of one stands next to the same advance of the other on the same object, and when Open restores DB.ActiveFile.writeOff from the scan of the active segment it restores DB.ActiveFile.ActualSize (on the database's active file, not a temporary handle) with the running scan offset.", ruleSizePair)
	addRules("C19", "R-ENTRY-PRESENT")
	addRules("C08", "R-ENTRY-PRESENT")
	reg("R-ENTRY-PRESENT", "Every Record built in the cone of Open carries a non-nil entry unless ds == DataStructureBPTree is established on the path that supplies the nil: list, set and sorted-set records are replayed from their payload in every index mode.", ruleEntryPresent)
	addRules("C08", "R-RECOVER-ORDER")
	addRules("C01", "R-RECOVER-ORDER")
	reg("R-RECOVER-ORDER", "In the cone of Open no membership test on the committed-transaction-id set (comma-ok lookup keyed by a record's txID) is followed on any path, including the next iteration of an enclosing loop and through calls, by an insertion into that set: records are judged only after every segment was scanned, because a transaction's commit marker can lie in a later segment than its first records.", ruleRecoverOrder)
	reg("R-LOGGED", "In every Tx method that can reach the pending-write gate (other than the variadic fan-out wrappers), each call site leading to the gate lies on every path from the entry to every return whose error may be nil: no API reports success with its operation, or one record of a multi-record operation, not enqueued.", ruleLogged)
	reg("R-LOGPURE", "The byte/string arguments at every gate-reaching call site of a Tx method depend only on the call's own arguments, not on committed index state (loads through tx.db, results of module calls on the transaction); the pop operations, which log the element they chose, are the named exception.", ruleLogPure)
	reg("R-REGEX-REMAINDER", "Every regular-expression match in the cone of Tx.PrefixSearchScan is applied to the scanned key with the scan's prefix parameter stripped (TrimPrefix(key, prefix) or key[len(prefix):]) and that key is the one tested with HasPrefix against the same prefix.", ruleRegexRemainder)
	reg("R-METARANGE", "The conditional updates of BucketMeta.start (new minimum) and BucketMeta.end (new maximum) of one object are not mutually exclusive: some path performs both.", ruleMetaRange)
	reg("R-LEAFCHAIN", "The B+ tree leaf chain that every scan walks: all walkers advance through one constant slot of Node.pointers, that slot is the last one and above every record slot, and every store that links a node into it is a list splice (fresh node; new.link = old.link or old.link == nil on every path, read before old.link = new); the slot is written nowhere else.", ruleLeafChain)
	addRules("C02", "R-SEGPRED", "R-TOMBSTONE-STOPS", "R-NEWEST", "R-COMMITTED-READ", "R-COMMITTED-SCAN-SPARSE", "R-REPLAY-KV")
	addRules("C12", "R-COMMITTED-SCAN-SPARSE")
	reg("R-COMMITTED-SCAN-SPARSE", "RangeScan, PrefixScan and PrefixSearchScan reach the committed-transaction index (ActiveCommittedTxIdsIdx or FindTxIDOnDisk) in their cones: sparse-mode scan results are filtered by committed transactions.", ruleCommittedScanSparse)
	setExplain("C02", "Decides, for the sparse-mode read paths: every returned entry passed the tombstone and expiry guards; each segment-selection predicate (range, point, prefix) selects every segment that can hold a matching key (all orderings of bounds enumerated); merges are newest-wins (descending file id, first occurrence kept, memory before disk); results belong to committed transactions; the composite index key agrees between commit and reopen.", "")
	sort.Slice(properties, func(i, j int) bool { return properties[i].ID < properties[j].ID })
}
