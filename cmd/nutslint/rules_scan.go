package main

import (
	"fmt"
	"go/token"

	"golang.org/x/tools/go/ssa"
)

// ---------------------------------------------------------------------------
// R-SCANEND / R-TORN: segment-scan loops (C09, C19)

type scanLoop struct {
	fn     *ssa.Function
	read   *ssa.Call // (*DataFile).ReadAt call
	entry  ssa.Value // extracted *Entry
	err    ssa.Value // extracted error
	offPhi *ssa.Phi
	incs   []ssa.Instruction // off + Size() instructions feeding the phi
}

// findScanLoops discovers every loop that walks a segment with
// DataFile.ReadAt(off) where off is a loop-carried variable.
func findScanLoops(p *Prog) []*scanLoop {
	var out []*scanLoop
	for _, f := range p.SrcFuncs {
		calls(f, func(ci ssa.CallInstruction) {
			cc := ci.Common()
			if !calleeIs(cc, modPath, "DataFile", "ReadAt") {
				return
			}
			call, ok := ci.(*ssa.Call)
			if !ok {
				return
			}
			offArg := stripConv(resolve1(cc.Args[1]))
			phi, ok := offArg.(*ssa.Phi)
			if !ok {
				return
			}
			sl := &scanLoop{fn: f, read: call, offPhi: phi}
			for _, e := range phi.Edges {
				if b, ok := e.(*ssa.BinOp); ok && b.Op == token.ADD {
					sl.incs = append(sl.incs, b)
				}
			}
			if len(sl.incs) == 0 {
				return
			}
			for _, r := range *call.Referrers() {
				if ex, ok := r.(*ssa.Extract); ok {
					if ex.Index == 0 {
						sl.entry = ex
					} else {
						sl.err = ex
					}
				}
			}
			if sl.entry == nil || sl.err == nil {
				return
			}
			out = append(out, sl)
		})
	}
	return out
}

func edgeSet(es []succEdge) func(b *ssa.BasicBlock, si int) bool {
	return func(b *ssa.BasicBlock, si int) bool {
		for _, e := range es {
			if e.b == b && e.si == si {
				return true
			}
		}
		return false
	}
}

func isGlobalLoad(v ssa.Value, pkgPath, name string) bool {
	u, ok := resolve1(v).(*ssa.UnOp)
	if !ok || u.Op != token.MUL {
		return false
	}
	g, ok := u.X.(*ssa.Global)
	return ok && g.Name() == name && g.Pkg != nil && g.Pkg.Pkg.Path() == pkgPath
}

// errReturnsCausedBy lists the returns of fn with a possibly non-nil error
// that are dominated by the err != nil edge of the given error value.
func errReturnsCausedBy(fn *ssa.Function, errv ssa.Value) map[ssa.Instruction]bool {
	out := map[ssa.Instruction]bool{}
	ne := nilEdges(fn, false, func(x ssa.Value) bool { return sameValue(x, errv) })
	idx := errResultIndex(fn)
	for _, r := range returnsOf(fn) {
		if idx >= 0 && classifyRetOperand(r, idx) == retNil {
			continue
		}
		if edgesDominate(fn, ne, r.Block()) {
			out[r] = true
		}
	}
	return out
}

func ruleScanEnd(c *Ctx) { scanRules(c, false) }
func ruleTorn(c *Ctx)    { scanRules(c, true) }

func scanRules(c *Ctx, torn bool) {
	loops := findScanLoops(c.P)
	openCone := map[*ssa.Function]bool{}
	for _, f := range c.P.ModCone(c.P.MustFunc("Open")) {
		openCone[f] = true
	}
	n := 0
	perFn := map[string]int{}
	for _, sl := range loops {
		f := sl.fn
		c.touch(f)
		perFn[fnName(f)]++
		name := fnName(f)
		if perFn[name] > 1 {
			name = fmt.Sprintf("%s loop#%d", name, perFn[fnName(f)])
		}
		errRets := errReturnsCausedBy(f, sl.err)
		isErrRet := func(in ssa.Instruction) bool { return errRets[in] }
		errNil := nilEdges(f, true, func(x ssa.Value) bool { return sameValue(x, sl.err) })
		// edges that (re)enter the loop header with a fresh offset start a different scan: never follow them
		hb := sl.offPhi.Block()
		for pi, pred := range hb.Preds {
			isInc := false
			for _, i := range sl.incs {
				if sl.offPhi.Edges[pi] == i.(ssa.Value) {
					isInc = true
				}
			}
			if isInc {
				continue
			}
			for si, s := range pred.Succs {
				if s == hb {
					errNil = append(errNil, succEdge{pred, si})
				}
			}
		}
		if torn {
			if !openCone[f] {
				continue
			}
			n++
			// ErrCrc must not reach an error return of a recovery loop
			notCrc := eqEdges(f, false, func(x, y ssa.Value) bool { return sameValue(x, sl.err) && isGlobalLoad(y, modPath, "ErrCrc") })
			prune := edgeSet(append(append([]succEdge{}, errNil...), notCrc...))
			p := findPath(f, sl.read, isErrRet, nil, prune)
			c.Sites++
			if p == nil {
				c.ok(name, "a CRC mismatch at the tail ends the scan", c.P.ipos(sl.read), "ErrCrc from ReadAt cannot reach an error return of the recovery loop")
			} else {
				c.bad(name, "a CRC mismatch at the tail ends the scan", c.P.ipos(sl.read),
					"a record that was being written when the process died (short or garbled tail) makes ReadAt return ErrCrc, which this recovery loop turns into a failure of Open", c.witnessOf(p)...)
			}
			continue
		}
		n++
		// (s2) io.EOF must not reach an error return
		notEOF := eqEdges(f, false, func(x, y ssa.Value) bool { return sameValue(x, sl.err) && isGlobalLoad(y, "io", "EOF") })
		p := findPath(f, sl.read, isErrRet, nil, edgeSet(append(append([]succEdge{}, errNil...), notEOF...)))
		c.Sites++
		if p == nil {
			c.ok(name, "io.EOF ends the scan", c.P.ipos(sl.read), "io.EOF from ReadAt (FileIO at end of file) cannot reach an error return")
		} else {
			c.bad(name, "io.EOF ends the scan", c.P.ipos(sl.read), "io.EOF from ReadAt is turned into an error instead of ending the scan", c.witnessOf(p)...)
		}
		// (s1) nil entry (zero header) ends the scan: from the entry==nil edge neither an error return nor the offset increment is reachable
		entNil := nilEdges(f, true, func(x ssa.Value) bool { return sameValue(x, sl.entry) })
		entNotNil := nilEdges(f, false, func(x ssa.Value) bool { return sameValue(x, sl.entry) })
		c.Sites++
		if len(entNil) == 0 {
			c.bad(name, "zero header ends the scan", c.P.ipos(sl.read), "the loop never tests the decoded entry for nil (end-of-data marker)")
		} else {
			isInc := func(in ssa.Instruction) bool {
				for _, i := range sl.incs {
					if i == in {
						return true
					}
				}
				return false
			}
			errNotNil := nilEdges(f, false, func(x ssa.Value) bool { return sameValue(x, sl.err) })
			pr := edgeSet(append(append([]succEdge{}, entNotNil...), errNotNil...))
			p := findPath(f, sl.read, func(in ssa.Instruction) bool { return isInc(in) }, nil, pr)
			if p == nil {
				c.ok(name, "zero header ends the scan", c.P.ipos(sl.read), "with a nil entry the loop is left before the offset is advanced")
			} else {
				c.bad(name, "zero header ends the scan", c.P.ipos(sl.read), "a nil entry (zero header) does not end the scan", c.witnessOf(p)...)
			}
		}
		// (s3) capacity: every path from an offset increment to a ReadAt-caused error return passes an edge establishing off < SegmentSize
		inFamily := func(v ssa.Value) bool {
			v = stripConv(resolve1(v))
			if v == ssa.Value(sl.offPhi) {
				return true
			}
			for _, i := range sl.incs {
				if v == i.(ssa.Value) {
					return true
				}
			}
			return false
		}
		var capEdges []succEdge
		for _, i := range ifsOf(f) {
			ca := decomposeIf(i)
			var lessEdge int = -1
			isCap := func(v ssa.Value) bool {
				return isFieldLoad(v, "Options", "SegmentSize") || paramBoundToField(c, v, "Options", "SegmentSize")
			}
			switch {
			case inFamily(ca.X) && isCap(ca.Y):
				switch ca.Op {
				case token.LSS:
					lessEdge = 0
				case token.GEQ:
					lessEdge = 1
				}
			case isCap(ca.X) && inFamily(ca.Y):
				switch ca.Op {
				case token.GTR:
					lessEdge = 0
				case token.LEQ:
					lessEdge = 1
				}
			}
			if lessEdge < 0 {
				continue
			}
			if ca.Neg {
				lessEdge = 1 - lessEdge
			}
			capEdges = append(capEdges, succEdge{i.Block(), lessEdge})
		}
		var bad []ssa.Instruction
		for _, inc := range sl.incs {
			if p := findPath(f, inc, isErrRet, nil, edgeSet(append(append([]succEdge{}, errNil...), capEdges...))); p != nil {
				bad = p
			}
		}
		c.Sites++
		if bad == nil {
			c.ok(name, "reaching the segment capacity ends the scan", c.P.ipos(sl.read), "an error from ReadAt at off >= SegmentSize (exactly full segment; MMap reports ErrIndexOutOfBound there) cannot reach an error return")
		} else {
			c.bad(name, "reaching the segment capacity ends the scan", c.P.ipos(sl.read),
				"after advancing the offset the loop calls ReadAt again without testing off against Options.SegmentSize; on an exactly full segment MMapRWManager.ReadAt returns ErrIndexOutOfBound and the function fails", c.witnessOf(bad)...)
		}
	}
	if torn {
		c.minInstances("recovery scan loops", n, 2)
	} else {
		c.minInstances("segment scan loops", n, 3)
	}
}
