package main

// R-NILNODE: the API layer dereferences a node handed out by a data-structure package only where
// it is known to be non-nil.
//
// The ds packages answer "no such member" / "the structure is empty" with a nil pointer (the tail or
// first-forward link of an empty skiplist, a failed dictionary lookup, an explicit nil). The main
// package wraps those answers (ZPeekMax returns (PeekMax(), nil)). A wrapper or API method that
// reads a field of such a value, or calls a method that does, without a dominating != nil test
// panics for the empty structure - a state ordinary calls produce (pop the last member).
//
// may-nil(result i of f) is computed from the SSA form: a nil constant, a load of a pointer-typed
// field / element / map slot, a phi of those, or the may-nil result of a module callee - at a
// return whose error operand (if any) is not certainly non-nil and that is not dominated by a
// != nil test of the returned value. Parameters and fresh allocations are not may-nil.

import (
	"fmt"
	"go/token"
	"go/types"

	"golang.org/x/tools/go/ssa"
)

type nilRes struct {
	f *ssa.Function
	i int
}

type nilNodeAnalysis struct {
	p    *Prog
	memo map[nilRes]int // 1 may-nil, 2 not, 3 in progress
	why  map[nilRes]string
}

func isDSPointer(p *Prog, t types.Type) bool {
	pt, ok := t.(*types.Pointer)
	if !ok {
		return false
	}
	n := namedOf(pt.Elem())
	if n == nil || n.Obj().Pkg() == nil {
		return false
	}
	if _, ok := n.Underlying().(*types.Struct); !ok {
		return false
	}
	pk := n.Obj().Pkg().Path()
	return pk != p.Main.Pkg.Path() && len(pk) > len(p.Main.Pkg.Path()) && pk[:len(p.Main.Pkg.Path())] == p.Main.Pkg.Path()
}

func (a *nilNodeAnalysis) mayNilResult(f *ssa.Function, i int) bool {
	k := nilRes{f, i}
	switch a.memo[k] {
	case 1:
		return true
	case 2, 3:
		return false
	}
	a.memo[k] = 3
	res := false
	ei := errResultIndex(f)
	for _, r := range returnsOf(f) {
		if i >= len(r.Results) {
			continue
		}
		if ei >= 0 && ei != i && classifyRetOperand(r, ei) == retNonNil {
			continue
		}
		if why, ok := a.mayNilValue(f, r.Results[i], r.Block(), 0, map[ssa.Value]bool{}); ok {
			res = true
			a.why[k] = fmt.Sprintf("%s returns %s at %s", fnName(f), why, a.p.ipos(r))
			break
		}
	}
	if res {
		a.memo[k] = 1
	} else {
		a.memo[k] = 2
	}
	return res
}

// mayNilValue: can v be nil when control is in block at (inside f)?
func (a *nilNodeAnalysis) mayNilValue(f *ssa.Function, v ssa.Value, at *ssa.BasicBlock, depth int, seen map[ssa.Value]bool) (string, bool) {
	if seen[v] || depth > 8 {
		return "", false
	}
	seen[v] = true
	if isNilConst(v) {
		return "nil", true
	}
	if _, ok := v.Type().Underlying().(*types.Pointer); !ok {
		return "", false
	}
	match := func(x ssa.Value) bool { return sameValue(x, v) }
	if edgesDominate(f, nilEdges(f, false, match), at) {
		return "", false
	}
	switch x := v.(type) {
	case *ssa.Phi:
		for _, e := range x.Edges {
			if why, ok := a.mayNilValue(f, e, at, depth+1, seen); ok {
				return why, true
			}
		}
	case *ssa.UnOp:
		if x.Op != token.MUL {
			return "", false
		}
		switch ad := x.X.(type) {
		case *ssa.FieldAddr, *ssa.IndexAddr:
			return "the pointer stored in " + dispPath(x), true
		case *ssa.Alloc:
			_ = ad
			for _, r := range resolve(x) {
				if r == ssa.Value(x) {
					continue
				}
				if why, ok := a.mayNilValue(f, r, at, depth+1, seen); ok {
					return why, true
				}
			}
		}
	case *ssa.Lookup:
		// the per-bucket index maps of the main package are R-MAPOK's subject (comma-ok tests, ensure idiom)
		if f.Pkg != a.p.Main {
			return "a map slot that may be absent", true
		}
	case *ssa.Extract:
		if c, ok := x.Tuple.(*ssa.Call); ok {
			if cal := c.Call.StaticCallee(); cal != nil && cal.Blocks != nil && a.p.inModule(cal) && a.mayNilResult(cal, x.Index) {
				return "the result of " + fnName(cal), true
			}
		}
		if _, ok := x.Tuple.(*ssa.Lookup); ok && x.Index == 0 && f.Pkg != a.p.Main {
			return "a map slot that may be absent", true
		}
	case *ssa.Call:
		if cal := x.Call.StaticCallee(); cal != nil && cal.Blocks != nil && a.p.inModule(cal) && a.mayNilResult(cal, 0) {
			return "the result of " + fnName(cal), true
		}
	}
	return "", false
}

func ruleNilNode(c *Ctx) {
	a := &nilNodeAnalysis{p: c.P, memo: map[nilRes]int{}, why: map[nilRes]string{}}
	sites, srcs := 0, 0
	for _, f := range c.P.SrcFuncs {
		if f.Pkg != c.P.Main || len(f.Blocks) == 0 {
			continue
		}
		k := 0
		instrs(f, func(in ssa.Instruction) {
			v, ok := in.(ssa.Value)
			if !ok || !isDSPointer(c.P, v.Type()) {
				return
			}
			switch x := in.(type) {
			case *ssa.Call:
			case *ssa.Extract:
				// the slots of the per-bucket index maps are R-MAPOK's subject
				if _, ok := x.Tuple.(*ssa.Call); !ok {
					return
				}
			default:
				return
			}
			why, may := a.mayNilValue(f, v, in.Block(), 0, map[ssa.Value]bool{})
			if !may {
				return
			}
			srcs++
			refs := v.Referrers()
			if refs == nil {
				return
			}
			match := func(x ssa.Value) bool { return sameValue(x, v) }
			edges := nilEdges(f, false, match)
			for _, r := range *refs {
				deref := ""
				switch x := r.(type) {
				case *ssa.FieldAddr:
					if x.X == v {
						deref = "reads field " + x.X.Type().Underlying().(*types.Pointer).Elem().Underlying().(*types.Struct).Field(x.Field).Name()
					}
				case *ssa.UnOp:
					if x.Op == token.MUL && x.X == v {
						deref = "loads through it"
					}
				case ssa.CallInstruction:
					cc := x.Common()
					if cal := cc.StaticCallee(); cal != nil && cal.Blocks != nil {
						for i, arg := range cc.Args {
							if arg == v && i < len(cal.Params) && derefsParam(cal, cal.Params[i], 0) {
								deref = "passes it to " + fnName(cal) + ", which dereferences it"
							}
						}
					}
				}
				if deref == "" {
					continue
				}
				sites++
				k++
				c.touch(f)
				c.check(edgesDominate(f, edges, r.Block()), fnName(f), fmt.Sprintf("dereference #%d of a data-structure node that may be absent is behind a nil test", k), c.P.ipos(r), "",
					fmt.Sprintf("%s %s, but the value is %s, which is nil for an empty structure / a missing member: the call panics in a state ordinary use produces (e.g. after the last member was popped)", fnName(f), deref, why))
			}
		})
	}
	c.Sites += srcs
	c.minInstances("values in the API layer that may hold an absent data-structure node", srcs, 4)
	c.ok("API layer", "possibly absent nodes examined", "", fmt.Sprintf("%d possibly-nil node values, %d dereference sites", srcs, sites))
}
