package main

import (
	"fmt"
	"go/token"
	"go/types"
	"strings"

	"golang.org/x/tools/go/ssa"
)

// ---------------------------------------------------------------------------
// shared discovery helpers

// storesToField lists every Store whose address is field owner.name.
func storesToField(p *Prog, owner, name string) []*ssa.Store {
	var out []*ssa.Store
	for _, f := range p.SrcFuncs {
		instrs(f, func(in ssa.Instruction) {
			st, ok := in.(*ssa.Store)
			if !ok {
				return
			}
			fa, ok := st.Addr.(*ssa.FieldAddr)
			if !ok {
				return
			}
			fv := fieldVarOf(fa)
			n := namedOf(fa.X.Type())
			if fv.Name() == name && n != nil && n.Obj().Name() == owner && n.Obj().Pkg().Path() == modPath {
				out = append(out, st)
			}
		})
	}
	return out
}

func isAppendCall(v ssa.Value) *ssa.Call {
	c, ok := v.(*ssa.Call)
	if !ok {
		return nil
	}
	if b, ok := c.Call.Value.(*ssa.Builtin); ok && b.Name() == "append" {
		return c
	}
	return nil
}

// closedGuardEdges returns the edges of fn on which "recv.db != nil" is
// established for the Tx value recv: a direct comparison, or the nil edge of
// the error returned by a guarantor call on recv.
func closedGuardEdges(p *Prog, fn *ssa.Function, recv ssa.Value) []succEdge {
	isRecv := func(x ssa.Value) bool { return sameValue(x, recv) }
	var edges []succEdge
	// direct: recv.db != nil
	edges = append(edges, nilEdges(fn, false, func(x ssa.Value) bool {
		fv, base := lastField(x)
		return fv != nil && fv.Name() == "db" && namedIs(base.Type(), "Tx") && isRecv(base)
	})...)
	// guarantor call: err := recv.G(...); err == nil edge
	edges = append(edges, nilEdges(fn, true, func(x ssa.Value) bool {
		x = resolve1(x)
		var call *ssa.Call
		switch v := x.(type) {
		case *ssa.Call:
			call = v
		case *ssa.Extract:
			if c, ok := v.Tuple.(*ssa.Call); ok {
				call = c
				// must be the error result
				if !isErrorType(v.Type()) {
					return false
				}
			}
		}
		if call == nil {
			return false
		}
		callee := call.Call.StaticCallee()
		if callee == nil || callee.Signature.Recv() == nil || len(call.Call.Args) == 0 {
			return false
		}
		if !isRecv(call.Call.Args[0]) {
			return false
		}
		return isClosedGuarantor(p, callee, 0)
	})...)
	return edges
}

func namedIs(t types.Type, name string) bool {
	n := namedOf(t)
	return n != nil && n.Obj().Name() == name && n.Obj().Pkg() != nil && n.Obj().Pkg().Path() == modPath
}

var guarantorMemo = map[*ssa.Function]int{} // 0 unknown, 1 yes, 2 no, 3 in progress

// isClosedGuarantor: fn is a Tx method that returns a non-nil error (last
// result) whenever tx.db == nil, i.e. every return whose error may be nil is
// dominated by a closed guard on its own receiver.
func isClosedGuarantor(p *Prog, fn *ssa.Function, depth int) bool {
	if fn.Blocks == nil || fn.Signature.Recv() == nil || !namedIs(fn.Signature.Recv().Type(), "Tx") {
		return false
	}
	switch guarantorMemo[fn] {
	case 1:
		return true
	case 2, 3:
		return false
	}
	guarantorMemo[fn] = 3
	idx := errResultIndex(fn)
	res := false
	if idx >= 0 && depth < 6 {
		res = true
		edges := closedGuardEdges(p, fn, fn.Params[0])
		n := 0
		for _, r := range returnsOf(fn) {
			if classifyRetOperand(r, idx) == retNonNil {
				continue
			}
			n++
			if !edgesDominate(fn, edges, r.Block()) {
				res = false
			}
		}
		_ = n
	}
	if res {
		guarantorMemo[fn] = 1
	} else {
		guarantorMemo[fn] = 2
	}
	return res
}

// ---------------------------------------------------------------------------
// R-PUT: single gate for writes

func findPutGate(c *Ctx) (*ssa.Function, *ssa.Store, *ssa.Call) {
	var gate *ssa.Function
	var gateStore *ssa.Store
	var gateAppend *ssa.Call
	n := 0
	for _, st := range storesToField(c.P, "Tx", "pendingWrites") {
		ap := isAppendCall(st.Val)
		if ap == nil {
			continue
		}
		n++
		if gate == nil {
			gate, gateStore, gateAppend = st.Parent(), st, ap
		} else if gate != st.Parent() {
			c.bad("Tx.pendingWrites", "append outside the gate in "+fnName(st.Parent()), c.P.ipos(st), "a second function appends to Tx.pendingWrites; all writes must go through one gate ("+fnName(gate)+")")
		}
	}
	if gate == nil {
		fail("no append to Tx.pendingWrites found (anchor for R-PUT)")
	}
	return gate, gateStore, gateAppend
}

func rulePut(c *Ctx) {
	gate, st, ap := findPutGate(c)
	c.touch(gate)
	name := fnName(gate)
	recv := gate.Params[0]
	c.check(namedIs(recv.Type(), "Tx"), name, "gate is a Tx method", c.P.pos(gate.Pos()), "", "the append gate is not a method of Tx")
	// tail append onto the same field
	tail := len(ap.Call.Args) == 2 && isFieldLoad(ap.Call.Args[0], "Tx", "pendingWrites")
	c.check(tail, name, "append at tail of Tx.pendingWrites", c.P.ipos(st), "append(tx.pendingWrites, e) stored back to tx.pendingWrites", "pending writes are not appended at the tail of the same slice")
	blk := st.Block()
	// closed guard
	c.check(edgesDominate(gate, closedGuardEdges(c.P, gate, recv), blk), name, "append dominated by closed guard", c.P.ipos(st),
		"append only after tx.db != nil was established", "append to pendingWrites is reachable on a finished transaction")
	// writable guard
	wEdges := boolEdges(gate, true, func(x ssa.Value) bool {
		fv, base := lastField(x)
		return fv != nil && fv.Name() == "writable" && sameValue(base, recv)
	})
	c.check(edgesDominate(gate, wEdges, blk), name, "append dominated by tx.writable", c.P.ipos(st),
		"append only when tx.writable is true", "a read-only transaction can enqueue a write")
	// element literal
	var elem ssa.Value
	if len(ap.Call.Args) == 2 {
		// variadic: slice of a 1-element array alloc
		if sl, ok := ap.Call.Args[1].(*ssa.Slice); ok {
			if arr, ok := sl.X.(*ssa.Alloc); ok {
				for _, r := range *arr.Referrers() {
					if ia, ok := r.(*ssa.IndexAddr); ok {
						for _, rr := range *ia.Referrers() {
							if s2, ok := rr.(*ssa.Store); ok && s2.Addr == ia {
								elem = s2.Val
							}
						}
					}
				}
			}
		}
	}
	entryAlloc, _ := elem.(*ssa.Alloc)
	if entryAlloc == nil {
		c.undecided(name, "appended element", c.P.ipos(st), "cannot identify the appended Entry literal")
		return
	}
	fields := allocFieldStores(entryAlloc)
	keyV := fields["Key"]
	var metaAlloc *ssa.Alloc
	if m, ok := fields["Meta"].(*ssa.Alloc); ok {
		metaAlloc = m
	}
	if keyV == nil || metaAlloc == nil {
		c.undecided(name, "appended element", c.P.ipos(st), "Entry literal without Key/Meta initialisers")
		return
	}
	// key non-empty guard
	kEdges := eqEdges(gate, false, func(x, y ssa.Value) bool {
		l := linOf(x, nil)
		if !(len(l.terms) == 1 && l.terms["len("+pathOf(keyV)+")"] == 1 && l.c == 0) {
			return false
		}
		cv, ok := constInt(y)
		return ok && cv == 0
	})
	c.check(edgesDominate(gate, kEdges, blk), name, "append dominated by len(key) != 0", c.P.ipos(st),
		"every logged record has a non-empty key (so a written header is never all zero)", "a record with an empty key can be logged: its header can be mistaken for end-of-data")
	mf := allocFieldStores(metaAlloc)
	// txID from Tx.id
	txid := mf["txID"]
	c.check(txid != nil && isFieldLoad(txid, "Tx", "id") && func() bool { _, b := lastField(txid); return sameValue(b, recv) }(), name, "MetaData.txID = tx.id", c.P.ipos(st),
		"every record is stamped with the transaction's own id", "records are not stamped with Tx.id")
	stv, okc := constInt(mf["status"])
	unc := c.P.Const("UnCommitted")
	uv, _ := constantInt64(unc)
	c.check(mf["status"] != nil && okc && stv == uv, name, "MetaData.status = UnCommitted", c.P.ipos(st),
		"records start uncommitted", "records are not created with status UnCommitted")
	// size fields from len of the payloads actually stored
	sizeOK := func(sizeField string, payload ssa.Value) bool {
		v := mf[sizeField]
		if v == nil || payload == nil {
			return false
		}
		l := linOf(v, nil)
		return len(l.terms) == 1 && l.c == 0 && l.terms["len("+pathOf(payload)+")"] == 1
	}
	c.check(sizeOK("keySize", keyV), name, "keySize = len(Key)", c.P.ipos(st), "", "MetaData.keySize is not the length of the stored key")
	c.check(sizeOK("valueSize", fields["Value"]), name, "valueSize = len(Value)", c.P.ipos(st), "", "MetaData.valueSize is not the length of the stored value")
	bsz := false
	if b := mf["bucket"]; b != nil {
		if v := mf["bucketSize"]; v != nil {
			l := linOf(v, nil)
			bsz = len(l.terms) == 1 && l.c == 0 && l.terms["len("+pathOf(b)+")"] == 1
		}
	}
	c.check(bsz, name, "bucketSize = len(bucket)", c.P.ipos(st), "", "MetaData.bucketSize is not the length of the stored bucket")
	// Tx.id stored only during construction
	for _, s := range storesToField(c.P, "Tx", "id") {
		fa := s.Addr.(*ssa.FieldAddr)
		root, _ := splitPath(fa.X)
		_, isAlloc := root.(*ssa.Alloc)
		c.check(isAlloc, "Tx.id", "stored only at construction in "+fnName(s.Parent()), c.P.ipos(s),
			"Tx.id is assigned on a freshly allocated Tx", "Tx.id is reassigned on an existing transaction")
	}
}

func constantInt64(c *types.Const) (int64, bool) {
	return constIntVal(c)
}

// allocFieldStores maps field name -> stored value for a composite literal alloc.
func allocFieldStores(a *ssa.Alloc) map[string]ssa.Value {
	out := map[string]ssa.Value{}
	for _, r := range *a.Referrers() {
		fa, ok := r.(*ssa.FieldAddr)
		if !ok {
			continue
		}
		for _, rr := range *fa.Referrers() {
			if s, ok := rr.(*ssa.Store); ok && s.Addr == fa {
				out[fieldVarOf(fa).Name()] = s.Val
			}
		}
	}
	return out
}

// ---------------------------------------------------------------------------
// R-TXID

func ruleTxID(c *Ctx) {
	begin := c.P.MustFunc("(*DB).Begin")
	cone := c.P.ModCone(begin)
	found := 0
	for _, f := range cone {
		c.touch(f)
		calls(f, func(ci ssa.CallInstruction) {
			cal := ci.Common().StaticCallee()
			if cal != nil && cal.Pkg != nil && cal.Pkg.Pkg.Path() == "github.com/bwmarrin/snowflake" && cal.Name() == "NewNode" {
				found++
				c.bad("snowflake.NewNode", "reachable from (*DB).Begin via "+fnName(f), c.P.ipos(ci),
					"a new snowflake node is created per transaction: ids are unique only within one long-lived node, so consecutive transactions can share an id")
			}
		})
	}
	// the generator must exist somewhere
	gen := 0
	for _, f := range c.P.SrcFuncs {
		calls(f, func(ci ssa.CallInstruction) {
			cal := ci.Common().StaticCallee()
			if cal != nil && cal.Pkg != nil && cal.Pkg.Pkg.Path() == "github.com/bwmarrin/snowflake" && cal.Name() == "Generate" {
				gen++
				c.Sites++
			}
		})
	}
	if found == 0 {
		c.ok("snowflake.NewNode", "not reachable from (*DB).Begin", "", "the id generator node outlives a transaction")
	}
	c.minInstances("snowflake Generate call sites", gen, 1)
}

// ---------------------------------------------------------------------------
// R-MARKER and R-ORDER

type writeLoop struct {
	fn      *ssa.Function
	encode  *ssa.Call    // (*Entry).Encode call
	entry   ssa.Value    // the entry being written
	idx     ssa.Value    // index into pendingWrites
	idxAddr *ssa.IndexAddr
}

// findWriteLoop locates, in the commit cone, the Encode call whose receiver is
// an element of tx.pendingWrites.
func findWriteLoop(c *Ctx) *writeLoop {
	commit := c.P.MustFunc("(*Tx).Commit")
	var found *writeLoop
	for _, f := range c.P.ModCone(commit) {
		calls(f, func(ci ssa.CallInstruction) {
			cc := ci.Common()
			if !calleeIs(cc, modPath, "Entry", "Encode") {
				return
			}
			call, ok := ci.(*ssa.Call)
			if !ok {
				return
			}
			ent := resolve1(cc.Args[0])
			ld, ok := ent.(*ssa.UnOp)
			if !ok {
				return
			}
			ia, ok := ld.X.(*ssa.IndexAddr)
			if !ok || !isFieldLoad(ia.X, "Tx", "pendingWrites") {
				return
			}
			if found == nil {
				found = &writeLoop{fn: f, encode: call, entry: ent, idx: ia.Index, idxAddr: ia}
			}
		})
	}
	if found == nil {
		// the write step may live in a helper that is handed the element: H(.., tx.pendingWrites[i], ..) with
		// p.Encode() inside H. The call to H then stands for the Encode event in the loop function.
		for _, h := range c.P.ModCone(commit) {
			calls(h, func(ci ssa.CallInstruction) {
				cc := ci.Common()
				if found != nil || !calleeIs(cc, modPath, "Entry", "Encode") {
					return
				}
				p, ok := resolve1(cc.Args[0]).(*ssa.Parameter)
				if !ok {
					return
				}
				pi := paramIndex(h, p)
				for _, s := range c.P.CallersOf(h) {
					call, ok := s.(*ssa.Call)
					if !ok || pi >= len(s.Common().Args) {
						continue
					}
					ent := resolve1(s.Common().Args[pi])
					ld, ok := ent.(*ssa.UnOp)
					if !ok {
						continue
					}
					ia, ok := ld.X.(*ssa.IndexAddr)
					if !ok || !isFieldLoad(ia.X, "Tx", "pendingWrites") {
						continue
					}
					if found == nil {
						found = &writeLoop{fn: s.Parent(), encode: call, entry: ent, idx: ia.Index, idxAddr: ia}
					}
				}
			})
		}
	}
	if found == nil {
		fail("commit write loop not found: no (*Entry).Encode call on an element of tx.pendingWrites in the cone of (*Tx).Commit")
	}
	return found
}

func ruleMarker(c *Ctx) {
	wl := findWriteLoop(c)
	c.touch(wl.fn)
	commit := c.P.MustFunc("(*Tx).Commit")
	cv, _ := constIntVal(c.P.Const("Committed"))
	// all stores of Committed into MetaData.status in the commit cone
	n := 0
	inCone := map[*ssa.Function]bool{}
	for _, f := range c.P.ModCone(commit) {
		inCone[f] = true
	}
	for _, st := range storesToField(c.P, "MetaData", "status") {
		if !inCone[st.Parent()] {
			continue
		}
		v, ok := constInt(st.Val)
		if ok && v != cv {
			continue
		}
		n++
		f := st.Parent()
		c.Sites++
		det := fmt.Sprintf("status store #%d", n)
		if f != wl.fn {
			c.bad(fnName(f), det, c.P.ipos(st), "MetaData.status is set to Committed outside the commit write loop")
			continue
		}
		// the record whose status is stored is pendingWrites[idx]
		fa := st.Addr.(*ssa.FieldAddr)
		_, metaBase := lastField(fa.X) // fa.X is load of entry.Meta
		sameEntry := metaBase != nil && sameValue(metaBase, wl.entry)
		if !sameEntry {
			// maybe another load of pendingWrites[idx]
			if ld, ok := resolve1(metaBase).(*ssa.UnOp); ok {
				if ia, ok := ld.X.(*ssa.IndexAddr); ok && isFieldLoad(ia.X, "Tx", "pendingWrites") && linEq(linOf(ia.Index, nil), linOf(wl.idx, nil)) {
					sameEntry = true
				}
			}
		}
		c.check(sameEntry, fnName(f), det+" targets the record being written", c.P.ipos(st), "", "Committed is stored into a record other than the one being encoded")
		// guard: idx == len(pendingWrites)-1
		sym := func(v ssa.Value) string {
			if sameValue(v, wl.idx) {
				return "IDX"
			}
			if isFieldLoad(v, "Tx", "pendingWrites") {
				return "PW"
			}
			return pathOf(v)
		}
		want := lin{terms: map[string]int64{"IDX": 1, "len(PW)": -1}, c: 1} // idx - (len-1) == 0
		edges := eqEdges(f, true, func(x, y ssa.Value) bool {
			d := linAdd(linOf(x, sym), linOf(y, sym), -1)
			return d.String() == want.String() || linScale(d, -1).String() == want.String()
		})
		c.check(edgesDominate(f, edges, st.Block()), fnName(f), det+" only for the last pending write", c.P.ipos(st),
			"the commit marker is set only under index == len(pendingWrites)-1", "the commit marker can be set on a record that is not the transaction's last")
		// the store precedes the Encode of the same iteration: no path Encode -> store without passing the index increment
		incr := func(in ssa.Instruction) bool {
			b, ok := in.(*ssa.BinOp)
			return ok && b.Op == token.ADD && sameValue(b.X, wl.idx)
		}
		isStore := func(in ssa.Instruction) bool { return in == ssa.Instruction(st) }
		p := findPath(f, wl.encode, isStore, incr, nil)
		c.check(p == nil, fnName(f), det+" precedes Encode", c.P.ipos(st), "the marker is set before the record is encoded", "the record is encoded before the commit marker is set, so the marker never reaches the disk")
		// and the Encode of the last record is reached after the store (store dominates encode on the marker path)
		p2 := findPath(f, st, func(in ssa.Instruction) bool { return in == ssa.Instruction(wl.encode) }, incr, nil)
		c.check(p2 != nil, fnName(f), det+" reaches Encode", c.P.ipos(st), "", "after setting the marker the record is not encoded in the same iteration")
	}
	c.minInstances("stores of Committed on the commit path", n, 1)
	if n > 1 {
		c.bad(fnName(wl.fn), "single marker store", "", fmt.Sprintf("%d stores of Committed on the commit path; exactly one is expected", n))
	}
}

// lenSym renders len(tx.pendingWrites) uniformly.
func lenSym(v ssa.Value) string {
	s := pathOf(v)
	return s
}

func constIntVal(c *types.Const) (int64, bool) {
	if c == nil {
		return 0, false
	}
	s := c.Val().ExactString()
	var v int64
	_, err := fmt.Sscanf(s, "%d", &v)
	return v, err == nil
}

// ascendingIndex: v is a loop induction variable that starts at 0 (or -1 for
// range loops) and is only ever incremented by one.
func ascendingIndex(v ssa.Value) (bool, string) {
	v = resolve1(v)
	phi, ok := v.(*ssa.Phi)
	if !ok {
		// range over slice: index = phi + 1 form
		if b, ok := v.(*ssa.BinOp); ok && b.Op == token.ADD {
			if one, ok := constInt(b.Y); ok && one == 1 {
				if ph, ok := b.X.(*ssa.Phi); ok {
					okp, why := ascendingPhi(ph, -1)
					return okp, why
				}
			}
		}
		return false, "index is not a loop induction variable"
	}
	return ascendingPhi(phi, 0)
}

func ascendingPhi(phi *ssa.Phi, start int64) (bool, string) {
	sawStart, sawInc := false, false
	for _, e := range phi.Edges {
		if cv, ok := constInt(e); ok {
			if cv != start {
				return false, fmt.Sprintf("loop starts at %d", cv)
			}
			sawStart = true
			continue
		}
		b, ok := e.(*ssa.BinOp)
		if ok && b.Op == token.ADD && b.X == ssa.Value(phi) {
			if one, ok := constInt(b.Y); ok && one == 1 {
				sawInc = true
				continue
			}
		}
		return false, "induction variable is updated by something other than +1"
	}
	if sawStart && sawInc {
		return true, ""
	}
	return false, "not a 0..n ascending loop"
}

func ruleOrder(c *Ctx) {
	wl := findWriteLoop(c)
	c.touch(wl.fn)
	okb, why := ascendingIndex(wl.idx)
	c.check(okb, fnName(wl.fn), "pending writes are written in ascending index order", c.P.ipos(wl.encode), "write loop index runs 0,1,2,…", "write loop does not walk pendingWrites in ascending order: "+why)
	// offsets: the write offset passed to WriteAt is the file's own writeOff and writeOff only grows by the entry size
	// (checked in R-POS); here: the apply loop(s)
	commit := c.P.MustFunc("(*Tx).Commit")
	n := 0
	for _, f := range c.P.ModCone(commit) {
		instrs(f, func(in ssa.Instruction) {
			ia, ok := in.(*ssa.IndexAddr)
			if !ok || !isFieldLoad(ia.X, "Tx", "pendingWrites") || ia == wl.idxAddr {
				return
			}
			n++
			c.touch(f)
			okb, why := ascendingIndex(ia.Index)
			c.check(okb, fnName(f), fmt.Sprintf("pendingWrites walk #%d ascending", n), c.P.ipos(ia), "pending writes are applied in call order", "pending writes are not applied in call order: "+why)
		})
	}
	c.minInstances("index-apply loops over pendingWrites", n, 1)
	// replay order: the data file id list is sorted before it is returned/used
	open := c.P.MustFunc("Open")
	ns := 0
	for _, f := range c.P.ModCone(open, c.P.MustFunc("(*DB).Merge")) {
		// functions returning []int that call ioutil.ReadDir
		hasReadDir := false
		var sortCalls []ssa.Instruction
		calls(f, func(ci ssa.CallInstruction) {
			cal := ci.Common().StaticCallee()
			if cal == nil {
				return
			}
			full := cal.String()
			if full == "io/ioutil.ReadDir" || full == "os.ReadDir" {
				hasReadDir = true
			}
			if full == "sort.Ints" || full == "slices.Sort" || isAscendingSortCall(ci) {
				sortCalls = append(sortCalls, ci)
			}
		})
		res := f.Signature.Results()
		ri := -1
		for i := 0; i < res.Len(); i++ {
			if sl, ok := res.At(i).Type().Underlying().(*types.Slice); ok {
				if b, ok := sl.Elem().Underlying().(*types.Basic); ok && b.Kind() == types.Int {
					ri = i
				}
			}
		}
		if hasReadDir && ri < 0 {
			// the listing is consumed in place (no []int result): every element access of an []int in this
			// function that the directory listing can reach has to come after an ascending sort
			var rd ssa.Instruction
			calls(f, func(ci ssa.CallInstruction) {
				if cal := ci.Common().StaticCallee(); cal != nil && (cal.String() == "io/ioutil.ReadDir" || cal.String() == "os.ReadDir") && rd == nil {
					rd = ci
				}
			})
			k := 0
			instrs(f, func(in ssa.Instruction) {
				ia, ok := in.(*ssa.IndexAddr)
				if !ok || k > 0 {
					return
				}
				sl, ok := ia.X.Type().Underlying().(*types.Slice)
				if !ok {
					return
				}
				if b, ok := sl.Elem().Underlying().(*types.Basic); !ok || b.Kind() != types.Int {
					return
				}
				barrier := func(x ssa.Instruction) bool {
					for _, s := range sortCalls {
						if s == x {
							return true
						}
					}
					return false
				}
				if p := findPath(f, rd, func(x ssa.Instruction) bool { return x == in }, barrier, nil); p != nil {
					k++
					ns++
					c.touch(f)
					c.bad(fnName(f), "file ids listed from the directory are sorted before they are used", c.P.ipos(in), "segment ids read from the directory are used in listing order (file-name order: 0, 1, 10, 11, 2 ...), not ascending by id", c.witnessOf(p)...)
				}
			})
		}
		if !hasReadDir || ri < 0 {
			continue
		}
		ns++
		c.touch(f)
		for i, r := range returnsOf(f) {
			if classifyRetOperand(r, ri) == retNil {
				continue
			}
			barrier := func(in ssa.Instruction) bool {
				for _, s := range sortCalls {
					if s == in {
						return true
					}
				}
				return false
			}
			p := findPath(f, nil, func(in ssa.Instruction) bool { return in == ssa.Instruction(r) }, barrier, nil)
			if p == nil {
				c.ok(fnName(f), fmt.Sprintf("file ids sorted before return #%d", i+1), c.P.ipos(r), "segment ids are sorted ascending before use (replay in log order)")
			} else {
				c.bad(fnName(f), fmt.Sprintf("file ids sorted before return #%d", i+1), c.P.ipos(r), "segment ids can be returned unsorted: replay would not follow log order", c.witnessOf(p)...)
			}
		}
	}
	c.minInstances("segment-id listing functions", ns, 1)
	// replay loops over the id list / record list are ascending (range or index loops)
	for _, name := range []string{"(*DB).parseDataFiles", "(*DB).buildHintIdx"} {
		f := c.P.Func(name)
		if f == nil {
			continue
		}
		c.touch(f)
		k := 0
		instrs(f, func(in ssa.Instruction) {
			ia, ok := in.(*ssa.IndexAddr)
			if !ok {
				return
			}
			if _, isSlice := ia.X.Type().Underlying().(*types.Slice); !isSlice {
				return
			}
			if _, isConst := constInt(ia.Index); isConst {
				return
			}
			k++
			okb, why := ascendingIndex(ia.Index)
			c.check(okb, name, fmt.Sprintf("replay walk #%d over %s ascending", k, dispPath(ia.X)), c.P.ipos(ia), "replay follows log order", "replay does not follow log order: "+why)
		})
	}
}

// ---------------------------------------------------------------------------
// R-RECOVER

func ruleRecover(c *Ctx) {
	open := c.P.MustFunc("Open")
	cone := c.P.ModCone(open)
	cv, _ := constIntVal(c.P.Const("Committed"))
	statusEq := func(f *ssa.Function, rec ssa.Value) []succEdge {
		return eqEdges(f, true, func(x, y ssa.Value) bool {
			if !isFieldLoad(x, "MetaData", "status") {
				return false
			}
			k, ok := constInt(y)
			if !ok || k != cv {
				return false
			}
			r1, _ := splitPath(x)
			r2, _ := splitPath(rec)
			return r1 == r2
		})
	}
	nIns := 0
	// (a) insertion into a committed-id set keyed by MetaData.txID
	for _, f := range cone {
		instrs(f, func(in ssa.Instruction) {
			mu, ok := in.(*ssa.MapUpdate)
			if !ok || !isFieldLoad(mu.Key, "MetaData", "txID") {
				return
			}
			nIns++
			c.touch(f)
			c.Sites++
			c.check(edgesDominate(f, statusEq(f, mu.Key), mu.Block()), fnName(f), fmt.Sprintf("committed-id set insertion #%d guarded by status == Committed", nIns), c.P.ipos(mu),
				"a transaction id is believed only when one of its records carries the commit marker", "a transaction id enters the committed set without a commit-marker check on the same record")
		})
		// the sparse-mode committed id index: Insert into ActiveCommittedTxIdsIdx with a key derived from txID
		calls(f, func(ci ssa.CallInstruction) {
			cc := ci.Common()
			if !calleeIs(cc, modPath, "BPTree", "Insert") {
				return
			}
			if !isFieldLoad(cc.Args[0], "DB", "ActiveCommittedTxIdsIdx") {
				return
			}
			// find the txID load feeding the key
			var txv ssa.Value
			walkOperands(cc.Args[1], 6, func(v ssa.Value) {
				if isFieldLoad(v, "MetaData", "txID") {
					txv = v
				}
			})
			if txv == nil {
				return
			}
			nIns++
			c.touch(f)
			c.check(edgesDominate(f, statusEq(f, txv), ci.Block()), fnName(f), fmt.Sprintf("committed-id index insertion #%d guarded by status == Committed", nIns), c.P.ipos(ci),
				"", "a transaction id enters the committed-id index without a commit-marker check on the same record")
		})
	}
	c.minInstances("committed-id insertions in the open cone", nIns, 2)
	// (b) index mutation from a *Record during replay: guarded by membership, or forwarded from a parameter
	nSinks := 0
	recT := c.P.Named("", "Record")
	for _, f := range cone {
		calls(f, func(ci ssa.CallInstruction) {
			cc := ci.Common()
			cal := cc.StaticCallee()
			if cal == nil || !c.P.inModule(cal) {
				return
			}
			// call passes a *Record argument to a function that (transitively) mutates an index
			var rec ssa.Value
			for _, a := range cc.Args {
				if namedOf(a.Type()) == recT {
					if _, isPtr := a.Type().Underlying().(*types.Pointer); isPtr {
						rec = a
					}
				}
			}
			if rec == nil || !reachesIndexMutator(c.P, cal) {
				return
			}
			nSinks++
			c.touch(f)
			c.Sites++
			root, _ := splitPath(rec)
			if _, isParam := root.(*ssa.Parameter); isParam {
				c.ok(fnName(f), fmt.Sprintf("replay call %s forwards its own record parameter", fnName(cal)), c.P.ipos(ci), "obligation is on the callers")
				return
			}
			// membership guard: comma-ok lookup keyed by rec...txID in DB.committedTxIds
			edges := boolEdges(f, true, func(x ssa.Value) bool {
				ex, ok := x.(*ssa.Extract)
				if !ok || ex.Index != 1 {
					return false
				}
				lk, ok := ex.Tuple.(*ssa.Lookup)
				if !ok || !lk.CommaOk {
					return false
				}
				if !isFieldLoad(lk.X, "DB", "committedTxIds") || !isFieldLoad(lk.Index, "MetaData", "txID") {
					return false
				}
				r1, _ := splitPath(lk.Index)
				return r1 == root
			})
			c.check(edgesDominate(f, edges, ci.Block()), fnName(f), fmt.Sprintf("replay call %s guarded by committed-id membership of the record", fnName(cal)), c.P.ipos(ci),
				"a record is replayed only if its transaction id is in the committed set", "a record can be replayed into the index without checking that its transaction committed")
		})
	}
	c.minInstances("replay sinks taking a *Record", nSinks, 4)
}

func walkOperands(v ssa.Value, depth int, f func(ssa.Value)) {
	if v == nil || depth < 0 {
		return
	}
	f(v)
	if in, ok := v.(ssa.Instruction); ok {
		for _, op := range in.Operands(nil) {
			if *op != nil {
				walkOperands(*op, depth-1, f)
			}
		}
	}
}

var idxMutMemo = map[*ssa.Function]bool{}

// indexMutatorNames: exported mutators of the index data structures (ds
// packages and the B+ tree). API-stable exported names.
func isIndexMutator(f *ssa.Function) bool {
	if f.Signature.Recv() == nil {
		return false
	}
	n := namedOf(f.Signature.Recv().Type())
	if n == nil || n.Obj().Pkg() == nil {
		return false
	}
	pk := n.Obj().Pkg().Path()
	switch {
	case pk == modPath && n.Obj().Name() == "BPTree":
		return f.Name() == "Insert"
	case pk == modPath+"/ds/list" && n.Obj().Name() == "List":
		switch f.Name() {
		case "LPush", "RPush", "LPop", "RPop", "LRem", "LSet", "Ltrim":
			return true
		}
	case pk == modPath+"/ds/set" && n.Obj().Name() == "Set":
		switch f.Name() {
		case "SAdd", "SRem", "SPop", "SMove":
			return true
		}
	case pk == modPath+"/ds/zset" && n.Obj().Name() == "SortedSet":
		switch f.Name() {
		case "Put", "Remove", "PopMin", "PopMax", "GetByRankRange", "GetByRank":
			return true
		}
	}
	return false
}

func reachesIndexMutator(p *Prog, f *ssa.Function) bool {
	if v, ok := idxMutMemo[f]; ok {
		return v
	}
	res := false
	for g := range p.Cone(nil, f) {
		if isIndexMutator(g) {
			res = true
			break
		}
	}
	idxMutMemo[f] = res
	return res
}

// ---------------------------------------------------------------------------
// R-CRC

func ruleCRC(c *Ctx) {
	decoders := []string{"(*DataFile).ReadAt", "ReadBPTreeRootIdxAt", "ReadBucketMeta"}
	for _, name := range decoders {
		f := c.P.MustFunc(name)
		c.touch(f)
		// result index of the record (pointer to named struct)
		ri := -1
		res := f.Signature.Results()
		for i := 0; i < res.Len(); i++ {
			if _, ok := res.At(i).Type().Underlying().(*types.Pointer); ok {
				ri = i
			}
		}
		if ri < 0 {
			c.undecided(name, "record result", "", "decoder has no pointer result")
			continue
		}
		// CRC-equal edges: GetCrc(rec, …) == rec.crc
		edges := eqEdges(f, true, func(x, y ssa.Value) bool {
			cx, ok := resolve1(x).(*ssa.Call)
			if !ok {
				return false
			}
			cal := cx.Call.StaticCallee()
			if cal == nil || cal.Name() != "GetCrc" || !c.P.inModule(cal) {
				return false
			}
			fv, base := lastField(y)
			if fv == nil || fv.Name() != "crc" {
				return false
			}
			r1, _ := splitPath(cx.Call.Args[0])
			r2, _ := splitPath(base)
			return r1 == r2
		})
		n := 0
		for i, r := range returnsOf(f) {
			k := classifyRetOperand(r, ri)
			if k == retNil {
				continue
			}
			n++
			c.Sites++
			c.check(len(edges) > 0 && edgesDominate(f, edges, r.Block()), name, fmt.Sprintf("non-nil record return #%d dominated by CRC match", n), c.P.ipos(r),
				"a record is returned only after the stored and recomputed CRC compared equal", "a decoded record can be returned without passing the CRC comparison")
			_ = i
		}
		c.minInstances("non-nil record returns in "+name, n, 1)
		// GetCrc covers header[4:] + payload fields — checked by the codec rules (C21)
	}
}

var _ = strings.HasPrefix


// isAscendingSortCall recognises sort.Slice / sort.SliceStable with a comparator that is literally
// "x[i] < x[j]" (or "x[j] > x[i]") over its two index parameters, and sort.Sort / sort.Stable of a
// sort.IntSlice conversion. Any other comparator is not accepted as an ascending sort.
func isAscendingSortCall(ci ssa.CallInstruction) bool {
	cal := ci.Common().StaticCallee()
	if cal == nil {
		return false
	}
	switch cal.String() {
	case "sort.Slice", "sort.SliceStable":
		if len(ci.Common().Args) != 2 {
			return false
		}
		var less *ssa.Function
		switch v := ci.Common().Args[1].(type) {
		case *ssa.MakeClosure:
			less, _ = v.Fn.(*ssa.Function)
		case *ssa.Function:
			less = v
		}
		if less == nil || len(less.Params) != 2 || len(less.Blocks) == 0 {
			return false
		}
		idxOf := func(v ssa.Value) int {
			u, ok := v.(*ssa.UnOp)
			if !ok || u.Op != token.MUL {
				return -1
			}
			ia, ok := u.X.(*ssa.IndexAddr)
			if !ok {
				return -1
			}
			for i, p := range less.Params {
				if ia.Index == ssa.Value(p) {
					return i
				}
			}
			return -1
		}
		okAll, n := true, 0
		for _, b := range less.Blocks {
			for _, in := range b.Instrs {
				r, ok := in.(*ssa.Return)
				if !ok {
					continue
				}
				n++
				bo, ok := r.Results[0].(*ssa.BinOp)
				if !ok {
					okAll = false
					continue
				}
				x, y := idxOf(bo.X), idxOf(bo.Y)
				if !((bo.Op == token.LSS && x == 0 && y == 1) || (bo.Op == token.GTR && x == 1 && y == 0)) {
					okAll = false
				}
			}
		}
		return okAll && n > 0
	case "sort.Sort", "sort.Stable":
		if len(ci.Common().Args) != 1 {
			return false
		}
		mi, ok := ci.Common().Args[0].(*ssa.MakeInterface)
		if !ok {
			return false
		}
		if nt, ok := mi.X.Type().(*types.Named); ok && nt.Obj().Pkg() != nil && nt.Obj().Pkg().Path() == "sort" && nt.Obj().Name() == "IntSlice" {
			return true
		}
	}
	return false
}
