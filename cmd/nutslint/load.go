package main

import (
	"fmt"
	"go/token"
	"go/types"
	"os"
	"path/filepath"
	"sort"
	"strings"

	"golang.org/x/tools/go/callgraph"
	"golang.org/x/tools/go/callgraph/cha"
	"golang.org/x/tools/go/callgraph/vta"
	"golang.org/x/tools/go/packages"
	"golang.org/x/tools/go/ssa"
	"golang.org/x/tools/go/ssa/ssautil"
)

const modPath = "github.com/xujiajun/nutsdb"

// Prog is the loaded, type-checked, SSA-built program plus call graphs.
type Prog struct {
	Root     string
	Fset     *token.FileSet
	Pkgs     []*packages.Package
	SSA      *ssa.Program
	Main     *ssa.Package            // package nutsdb
	DS       map[string]*ssa.Package // list, set, zset
	ModPkgs  []*ssa.Package
	CG       *callgraph.Graph // VTA-refined (or CHA in thorough/cha mode)
	CGKind   string
	SrcFuncs []*ssa.Function // every function (incl. anonymous) of the module packages
	GOARCH   string
	GOOS     string
}

type undecided struct{ msg string }

// fail aborts the analysis as UNDECIDED (exit 2): an anchor is missing or an
// engine cannot classify something. It is never turned into a pass.
func fail(format string, a ...interface{}) {
	panic(undecided{fmt.Sprintf(format, a...)})
}

func loadProg(root, goarch, goos, cgKind string) *Prog {
	env := []string{}
	for _, e := range os.Environ() {
		if strings.HasPrefix(e, "GOWORK=") || strings.HasPrefix(e, "GOFLAGS=") ||
			strings.HasPrefix(e, "GOARCH=") || strings.HasPrefix(e, "GOOS=") {
			continue
		}
		env = append(env, e)
	}
	env = append(env, "GOFLAGS=-mod=mod", "GOPROXY=off", "GOSUMDB=off", "GOWORK=off", "GOTOOLCHAIN=local", "CGO_ENABLED=0")
	if goarch != "" {
		env = append(env, "GOARCH="+goarch)
	}
	if goos != "" {
		env = append(env, "GOOS="+goos)
	}
	cfg := &packages.Config{
		Mode:  packages.LoadAllSyntax,
		Dir:   root,
		Env:   env,
		Tests: false,
	}
	pkgs, err := packages.Load(cfg, ".", "./ds/...")
	if err != nil {
		fail("packages.Load: %v", err)
	}
	if len(pkgs) < 4 {
		fail("expected >=4 packages (nutsdb, ds/list, ds/set, ds/zset), got %d", len(pkgs))
	}
	nerr := 0
	packages.Visit(pkgs, nil, func(p *packages.Package) {
		for _, e := range p.Errors {
			fmt.Fprintf(os.Stderr, "load error: %s: %v\n", p.PkgPath, e)
			nerr++
		}
	})
	if nerr > 0 {
		fail("%d load/type errors: the tree does not type-check", nerr)
	}
	prog, spkgs := ssautil.AllPackages(pkgs, ssa.InstantiateGenerics)
	prog.Build()
	p := &Prog{Root: root, Fset: pkgs[0].Fset, Pkgs: pkgs, SSA: prog, DS: map[string]*ssa.Package{}, GOARCH: goarch, GOOS: goos}
	for i, pk := range pkgs {
		sp := spkgs[i]
		if sp == nil {
			fail("no SSA package for %s", pk.PkgPath)
		}
		switch {
		case pk.PkgPath == modPath:
			p.Main = sp
		case strings.HasPrefix(pk.PkgPath, modPath+"/ds/"):
			p.DS[filepath.Base(pk.PkgPath)] = sp
		}
		p.ModPkgs = append(p.ModPkgs, sp)
	}
	if p.Main == nil {
		fail("package %s not loaded", modPath)
	}
	for _, n := range []string{"list", "set", "zset"} {
		if p.DS[n] == nil {
			fail("package %s/ds/%s not loaded", modPath, n)
		}
	}
	all := ssautil.AllFunctions(prog)
	for fn := range all {
		if fn.Pkg != nil && p.inModule(fn) && fn.Blocks != nil {
			p.SrcFuncs = append(p.SrcFuncs, fn)
		}
	}
	sort.Slice(p.SrcFuncs, func(i, j int) bool { return fnKey(p.SrcFuncs[i]) < fnKey(p.SrcFuncs[j]) })
	chaG := cha.CallGraph(prog)
	if cgKind == "cha" {
		p.CG = chaG
	} else {
		p.CG = vta.CallGraph(all, chaG)
		cgKind = "vta"
	}
	p.CGKind = cgKind
	return p
}

func (p *Prog) inModule(fn *ssa.Function) bool {
	pk := fn.Pkg
	if pk == nil && fn.Parent() != nil {
		pk = fn.Parent().Pkg
	}
	if pk == nil {
		return false
	}
	for _, m := range p.ModPkgs {
		if m == pk {
			return true
		}
	}
	return false
}

// fnName renders a function relative to the module: "(*Tx).Commit", "Open",
// "list.(*List).LPush", "(*DB).Backup$1".
func fnName(fn *ssa.Function) string {
	if fn == nil {
		return "<nil>"
	}
	s := fn.RelString(nil)
	s = strings.ReplaceAll(s, modPath+"/ds/", "")
	s = strings.ReplaceAll(s, modPath+".", "")
	s = strings.ReplaceAll(s, "github.com/xujiajun/", "")
	return s
}

func fnKey(fn *ssa.Function) string { return fnName(fn) }

// Func finds a function by its module-relative name; "" if absent.
func (p *Prog) Func(name string) *ssa.Function {
	for _, f := range p.SrcFuncs {
		if fnName(f) == name {
			return f
		}
	}
	return nil
}

func (p *Prog) MustFunc(name string) *ssa.Function {
	f := p.Func(name)
	if f == nil {
		fail("anchor %s not found in the program", name)
	}
	return f
}

// Named returns the named type pkg.name ("", name) for package nutsdb.
func (p *Prog) Named(pkg, name string) *types.Named {
	sp := p.Main
	if pkg != "" {
		sp = p.DS[pkg]
	}
	if sp == nil {
		fail("package %s not loaded", pkg)
	}
	o := sp.Pkg.Scope().Lookup(name)
	if o == nil {
		fail("type %s.%s not found", pkg, name)
	}
	n, ok := o.Type().(*types.Named)
	if !ok {
		fail("%s.%s is not a named type", pkg, name)
	}
	return n
}

func (p *Prog) Const(name string) *types.Const {
	o := p.Main.Pkg.Scope().Lookup(name)
	c, ok := o.(*types.Const)
	if !ok {
		fail("constant %s not found", name)
	}
	return c
}

// Methods returns all source methods (pointer and value receivers) of a named type.
func (p *Prog) Methods(n *types.Named) []*ssa.Function {
	var out []*ssa.Function
	for _, f := range p.SrcFuncs {
		if f.Signature.Recv() == nil || f.Parent() != nil {
			continue
		}
		if namedOf(f.Signature.Recv().Type()) == n {
			out = append(out, f)
		}
	}
	return out
}

func namedOf(t types.Type) *types.Named {
	for {
		switch tt := t.(type) {
		case *types.Pointer:
			t = tt.Elem()
			continue
		case *types.Named:
			return tt
		case *types.Alias:
			t = types.Unalias(tt)
			continue
		}
		return nil
	}
}

func (p *Prog) pos(pos token.Pos) string {
	if !pos.IsValid() {
		return "?"
	}
	ps := p.Fset.Position(pos)
	rel, err := filepath.Rel(p.Root, ps.Filename)
	if err != nil || strings.HasPrefix(rel, "..") {
		rel = ps.Filename
	}
	return fmt.Sprintf("%s:%d", rel, ps.Line)
}

func (p *Prog) ipos(i ssa.Instruction) string {
	pos := i.Pos()
	if !pos.IsValid() {
		// fall back to an operand's or the block's nearest positioned instruction
		if b := i.Block(); b != nil {
			for _, j := range b.Instrs {
				if j.Pos().IsValid() {
					pos = j.Pos()
					if j == i {
						break
					}
				}
			}
		}
	}
	return p.pos(pos)
}

// ---- call graph helpers -------------------------------------------------

// Callees returns the possible callees of a call instruction: the static
// callee, or the call-graph edges for dynamic/interface calls.
func (p *Prog) Callees(site ssa.CallInstruction) []*ssa.Function {
	if c := site.Common().StaticCallee(); c != nil {
		return []*ssa.Function{c}
	}
	n := p.CG.Nodes[site.Parent()]
	if n == nil {
		return nil
	}
	var out []*ssa.Function
	seen := map[*ssa.Function]bool{}
	for _, e := range n.Out {
		if e.Site == site && !seen[e.Callee.Func] {
			seen[e.Callee.Func] = true
			out = append(out, e.Callee.Func)
		}
	}
	sort.Slice(out, func(i, j int) bool { return fnKey(out[i]) < fnKey(out[j]) })
	return out
}

// Cone returns every function reachable from the roots through the call graph
// (including the roots). Only edges whose site is not filtered by skipSite.
func (p *Prog) Cone(skipSite func(ssa.CallInstruction) bool, roots ...*ssa.Function) map[*ssa.Function]bool {
	seen := map[*ssa.Function]bool{}
	var work []*ssa.Function
	for _, r := range roots {
		if r != nil && !seen[r] {
			seen[r] = true
			work = append(work, r)
		}
	}
	for len(work) > 0 {
		f := work[len(work)-1]
		work = work[:len(work)-1]
		// anonymous functions created inside f run (at most) when f's cone runs
		for _, an := range f.AnonFuncs {
			if !seen[an] {
				seen[an] = true
				work = append(work, an)
			}
		}
		n := p.CG.Nodes[f]
		if n == nil {
			continue
		}
		for _, e := range n.Out {
			if skipSite != nil && e.Site != nil && skipSite(e.Site) {
				continue
			}
			c := e.Callee.Func
			if !seen[c] {
				seen[c] = true
				work = append(work, c)
			}
		}
	}
	return seen
}

// ModCone is Cone restricted to module source functions.
func (p *Prog) ModCone(roots ...*ssa.Function) []*ssa.Function {
	c := p.Cone(nil, roots...)
	var out []*ssa.Function
	for f := range c {
		if p.inModule(f) && f.Blocks != nil {
			out = append(out, f)
		}
	}
	sort.Slice(out, func(i, j int) bool { return fnKey(out[i]) < fnKey(out[j]) })
	return out
}

// CallersOf returns the call sites (in module functions) that may call fn.
func (p *Prog) CallersOf(fn *ssa.Function) []ssa.CallInstruction {
	n := p.CG.Nodes[fn]
	if n == nil {
		return nil
	}
	var out []ssa.CallInstruction
	seen := map[ssa.CallInstruction]bool{}
	for _, e := range n.In {
		if e.Site == nil || seen[e.Site] {
			continue
		}
		if !p.inModule(e.Site.Parent()) {
			continue
		}
		seen[e.Site] = true
		out = append(out, e.Site)
	}
	sort.Slice(out, func(i, j int) bool { return out[i].Pos() < out[j].Pos() })
	return out
}

// calleeIs reports whether the (static or dynamic) callee of the call matches
// pkgPath, receiver type name ("" for functions) and method/function name.
func calleeIs(c *ssa.CallCommon, pkgPath, recv, name string) bool {
	if c.IsInvoke() {
		m := c.Method
		if m.Name() != name {
			return false
		}
		n := namedOf(c.Value.Type())
		if n == nil {
			return false
		}
		return n.Obj().Name() == recv && n.Obj().Pkg() != nil && n.Obj().Pkg().Path() == pkgPath
	}
	f := c.StaticCallee()
	if f == nil {
		return false
	}
	return funcIs(f, pkgPath, recv, name)
}

func funcIs(f *ssa.Function, pkgPath, recv, name string) bool {
	if f.Name() != name {
		return false
	}
	o := f.Object()
	if o == nil || o.Pkg() == nil || o.Pkg().Path() != pkgPath {
		return false
	}
	r := f.Signature.Recv()
	if recv == "" {
		return r == nil
	}
	if r == nil {
		return false
	}
	n := namedOf(r.Type())
	return n != nil && n.Obj().Name() == recv
}

// calls iterates over every call instruction (Call, Defer, Go) of fn.
func calls(fn *ssa.Function, f func(ssa.CallInstruction)) {
	for _, b := range fn.Blocks {
		for _, in := range b.Instrs {
			if c, ok := in.(ssa.CallInstruction); ok {
				f(c)
			}
		}
	}
}

func instrs(fn *ssa.Function, f func(ssa.Instruction)) {
	for _, b := range fn.Blocks {
		for _, in := range b.Instrs {
			f(in)
		}
	}
}
