package main

var rules = map[string]*Rule{}

func reg(name, text string, run func(*Ctx)) {
	rules[name] = &Rule{Name: name, Text: text, Run: run}
}

func init() {
	reg("R-SYNC", "With Options.SyncEnable=true (CFG specialised on the flag and on bool parameters bound to it), every file-write primitive reachable from Tx.Commit is followed on every path to a normal return, and before the next write, by a sync primitive on the same handle; helpers that return with an unsynced write pass the obligation to their call sites.", ruleSync)
	reg("R-FLAGBIND", "Every bool parameter that guards a sync call in the commit cone is bound to Options.SyncEnable (or to another such parameter) at all call sites.", ruleFlagBind)
	reg("R-SYNCIMPL", "Every RWManager implementation's Sync passes (*os.File).Sync or mmap.MMap.Flush, on the handle its WriteAt writes, on every path to a normal return.", ruleSyncImpl)
}

var properties = []Property{
	{ID: "C11", Rules: []string{"R-SYNC", "R-FLAGBIND", "R-SYNCIMPL"},
		Explain: "Decides the sync-after-write protocol that durability under SyncEnable rests on: on every CFG path of Tx.Commit and of every helper it reaches, each file write is followed by a sync of the same handle before a normal return and before the next write; sync flags are bound to Options.SyncEnable; both RWManager.Sync implementations reach a real sync primitive.",
		NotCov:  "what the kernel does with synced data, directory-entry durability, recovery of a torn tail (C09), enumeration of crash images."},
}

type Effects struct{}

func runThorough(id, repo string, noEvid, verbose bool) int {
	code := 0
	for _, pr := range selectProps(id) {
		if c := runProperty(pr, repo, "thorough", "", "", "vta", noEvid, verbose, nil); c > code {
			code = c
		}
	}
	return code
}
