package main

var rules = map[string]*Rule{}

func reg(name, text string, run func(*Ctx)) {
	rules[name] = &Rule{Name: name, Text: text, Run: run}
}

func init() {
	reg("R-SYNC", "With Options.SyncEnable=true (CFG specialised on the flag and on bool parameters bound to it), every file-write primitive reachable from Tx.Commit is followed on every path to a normal return, and before the next write, by a sync primitive on the same handle; helpers that return with an unsynced write pass the obligation to their call sites.", ruleSync)
	reg("R-FLAGBIND", "Every bool parameter that guards a sync call in the commit cone is bound to Options.SyncEnable (or to another such parameter) at all call sites.", ruleFlagBind)
	reg("R-SYNCIMPL", "Every RWManager implementation's Sync passes (*os.File).Sync or mmap.MMap.Flush, on the handle its WriteAt writes, on every path to a normal return.", ruleSyncImpl)
	reg("R-PUT", "All appends to Tx.pendingWrites are in one gate function; the append is dominated by the closed guard, tx.writable and len(key) != 0; the appended record takes txID from Tx.id, status UnCommitted and its size fields from len() of the stored payloads; Tx.id is stored only at construction.", rulePut)
	reg("R-TXID", "snowflake.NewNode is not reachable from DB.Begin (a fresh node per transaction restarts the sequence, so ids collide).", ruleTxID)
	reg("R-MARKER", "The only store of Committed into MetaData.status on the commit path targets the record being written, under index == len(pendingWrites)-1 (linear normal form), and precedes that record's Encode in the same iteration.", ruleMarker)
	reg("R-ORDER", "Pending writes are written and applied in ascending index order; segment ids are sorted before replay; replay loops ascend.", ruleOrder)
	reg("R-RECOVER", "In the cone of Open: every insertion into the committed-id set is dominated by status == Committed of the same record; every call that hands a *Record to an index-mutating function is dominated by membership of that record's txID in DB.committedTxIds, or forwards the function's own parameter.", ruleRecover)
	reg("R-CRC", "In each decoder every return of a possibly non-nil record is dominated by the equal edge of GetCrc(record) == record.crc.", ruleCRC)
	reg("R-CODEC", "For each on-disk record type (data entry, sparse root index, bucket meta): encoder and decoder agree field by field on byte range and integer width, width = field type, header ranges tile [0,H), decoder header buffer = H, payload segments are contiguous from H in the same order with the same size fields on both sides, Size() = H + payload sizes, the checksum covers everything after the crc field and GetCrc feeds the payloads in stored order, every struct field is decoded.", ruleCodec)
	reg("R-SCANEND", "Every loop that walks a segment with DataFile.ReadAt(off)/off += Size() leaves the loop, not the function with an error, on each end-of-data signal either RWManager can produce: nil entry (zero header), io.EOF, and offset reached Options.SegmentSize (MMap reports ErrIndexOutOfBound there).", ruleScanEnd)
	reg("R-TORN", "In the recovery loops (cone of Open) ErrCrc from ReadAt cannot reach an error return: a torn tail ends the scan.", ruleTorn)
	reg("R-OPEN-ORDER", "In Open the index-mode check has no file-system effect, its nil result dominates every file-creating/modifying effect except creating Options.Dir, and its error makes Open return an error.", ruleOpenOrder)
	reg("R-MODE-TABLE", "The loop-free decision part of the mode check, evaluated over all 12 valuations of (EntryIdxMode in {0,1,2}, hasData, hasBptDir), equals refuse <=> hasData and (sparse xor hasBptDir); the two flags are set only under the .dat-suffix / bpt-directory tests.", ruleModeTable)
	reg("R-CLOSED", "In the cone of the exported Tx methods every dereference of tx.db is dominated by a closed guard (tx.db != nil, or the nil-error edge of a guarantor call on the same tx), or the function is unexported and every call site passes an open transaction; tx.db is never dereferenced after being cleared.", ruleClosedGuard)
	reg("R-DBCLOSED", "Exported DB methods dereference pointer-valued database state (index objects, ActiveFile) only behind the db.closed test or a successful Begin.", ruleDBClosedGuard)
	reg("R-MAPOK", "Every use of DB.{BPTreeIdx,SetIdx,SortedSetIdx,ListIdx}[bucket] as a method receiver or struct base is preceded on all paths by the comma-ok test of the same map and key, by a store into that slot (ensure idiom), or by the nil-error edge of a guarantor call.", ruleMapOK)
	reg("R-RO", "Every exported Tx method that does not reach the pending-write gate has an empty shared-write set (effect summaries: only fresh objects are written) and no file-creating/modifying effect; the one accepted idiom is opening an existing segment through NewDataFile(getDataPath(id)).", ruleRO)
	reg("R-OWN", "Every exported mutating Tx method other than Commit/Rollback writes only Tx-private state; every call site of an index mutator (B+ tree Insert, list/set/sorted-set mutators, GetByRankRange with remove != false) lies in a function reachable from Tx.Commit or Open; Rollback writes no shared state and touches no file.", ruleOwn)
	reg("R-SETLOG", "Every exported mutating set API reaches the pending-write gate (the mutation is a logged record).", ruleSetLogged)
	reg("R-VISIBLE", "For each structure family, the write set of the mutators and the read set of the readers (transitive effect summaries) intersect: otherwise no operation can observe an earlier one of its own transaction and per-operation results cannot equal a serial execution.", ruleVisible)
	reg("R-BACKUP", "The directory copy of Backup is the body of a function passed to db.View/Update on the same DB, its source is that DB's Options.Dir, and the body writes no shared state.", ruleBackup)
	reg("R-GLOBALS", "No package-level variable of the module is written by a function reachable from an API entry point; the library contains no go statement.", ruleGlobals)
	reg("R-LOCKMAP", "RWMutex operations reached through a Tx: Lock/Unlock only under tx.writable, RLock/RUnlock only under !tx.writable; Tx.lock and Tx.unlock perform a lock operation on every path.", ruleLockMap)
	reg("R-LOCKCTX", "Every access to a DB field other than opt and mu, in the cones of the exported DB and Tx methods, executes with the database lock held on all paths (lock context inferred from acquire/release events and inherited along call edges; Tx methods assume an open transaction).", ruleLockCtx)
	reg("R-LOCKCTX-MERGE", "R-LOCKCTX restricted to the cone of DB.Merge.", ruleLockCtxMerge)
	reg("R-TXPAIR", "Begin releases the lock on its error exits and tests db.closed under the lock; Commit/Rollback unlock exactly once on success and never return an error after unlocking; every successful Begin is followed on all paths by Commit or Rollback, and a failed or unchecked Commit by Rollback.", ruleTxPairing)
	reg("R-COMMIT-EMPTY", "In Tx.Commit every instruction that changes shared state or files is dominated by len(pendingWrites) != 0, so a read-only transaction (shared lock) changes nothing when it commits.", ruleCommitNoopWhenEmpty)
	reg("R-LIVE", "Every *Entry / []*Entry that can reach a feasible return of Get, GetAll, RangeScan, PrefixScan or PrefixSearchScan (CFG specialised to offset 0 / no limit) is nil, individually dominated by the tombstone test and the expiry test on the record it derives from, or produced by a function with the same property; every IsExpired call receives (TTL, timestamp) of one record.", ruleLive)
	reg("R-EXPIRY", "IsExpired, evaluated from its SSA form over a grid of (ttl, timestamp, now) on both sides of and exactly at the expiry instant, equals ttl != 0 && now >= timestamp+ttl; Record.IsExpired delegates with the record's own fields.", ruleExpiry)
	reg("R-POS", "In the commit write loop the record is written at ActiveFile.writeOff of the file it is written to; every Hint built on the commit path takes dataPos from a read of that same location with no possible write to the offset or to DB.ActiveFile in between (effect summaries of intervening calls), and fileID from DB.ActiveFile.fileID with no rotation between writing and indexing; hints built while scanning record the scan offset and the id of the file being scanned.", rulePos)
	reg("R-ACTIVEFILE", "Every assignment of a NewDataFile(getDataPath(X)) result to DB.ActiveFile is accompanied on all non-error paths by a store of X's value into that file's fileID (loads are resolved through dominating stores).", ruleActiveFile)
	reg("R-UPDATE", "Record.UpdateRecord stores a parameter into every field of Record on all paths, and BPTree.Insert passes its own hint and entry to it for an existing key.", ruleUpdateRecord)
	reg("R-REPLAY", "Every (ds, Flag) code the API emits (constant arguments at the call sites of the pending-write gate, propagated through wrappers) has a commit-time and an open-time applier, and for each code both call the same data-structure mutator with the same canonical receiver and argument recipes over the record's KEY/VALUE/BUCKET leaves; every applier call is selected by both ds and Flag.", ruleReplay)
	reg("R-REPLAY-LIST", "R-REPLAY restricted to list op codes.", ruleReplayList)
	reg("R-REPLAY-SET", "R-REPLAY restricted to set op codes.", ruleReplaySet)
	reg("R-REPLAY-ZSET", "R-REPLAY restricted to sorted-set op codes.", ruleReplayZSet)
	reg("R-REPLAY-KV", "The key under which a key/value record is inserted into the B+ tree index has the same recipe at commit time and on reopen, in the RAM modes and in sparse mode.", ruleReplayKV)
	reg("R-ERRPOLICY", "For each replayed op code whose mutator can return an error: if the commit-time applier discards that error, the open-time applier must not use it (it would make Open fail on a directory produced by successful calls).", ruleErrPolicy)
	reg("R-OPCODEC", "No []byte payload handed to a mutator by an applier is an element of an unbounded strings.Split over stored bytes; every API that creates a key which is later split rejects keys containing the separator before logging.", ruleOpCodec)
	reg("R-MERGE-CLASSIFY", "Every emitted (ds, Flag) code is classified by Merge: under the valuation (ds, Flag) either a filter function can only return true (dead) or an append to the rewrite set is reachable in a keeper function (live if present).", ruleMergeClassify)
	reg("R-ATOMIC", "In Tx.Commit no event that publishes reader-visible index state (a call reaching a B+ tree or data-structure mutator, or an update of DB.committedTxIds) is followed on any feasible path by a return of a non-nil error; one obligation per (publishing event, error exit) pair; events of the last iteration (index == len-1) cannot be followed by another iteration.", ruleAtomic)
	reg("R-MERGE-ORDER", "In DB.Merge every os.Remove of a segment is dominated by the nil result of the rewrite step and removes the path that was scanned; the rewrite step returns its transaction's Commit error; rewritten records go to segment MaxFileID+k, k>=1.", ruleMergeOrder)
	reg("R-MERGE-COMMITTED", "Every call in Merge that can add the scanned entry to the rewrite set is dominated (bool-flag pruner applied) by membership of the entry's txID in DB.committedTxIds.", ruleMergeCommitted)
	reg("R-MERGE-IDEMP", "Commit-time appliers of non-idempotent mutators (List.LPush/RPush) are guarded by !DB.isMerging somewhere in their call context: the merge rewrite must not re-apply records that are already in the in-memory index.", ruleMergeIdemp)
	reg("R-BUCKETKEY", "Every lookup/update of DB.{BPTreeIdx,SetIdx,SortedSetIdx,ListIdx} is keyed by the function's own bucket parameter or (commit/open/merge cones) by the record's own bucket; in two-bucket methods each bucket parameter keys a lookup and each looked-up structure is addressed only with the key parameter of the same position.", ruleBucketKey)
	reg("R-COMPOSITE", "A byte key built from bucket and key must be injective: plain concatenation with no length prefix or separator is flagged.", ruleComposite)
	reg("R-FLAGUSE", "Every use of Options.SyncEnable is an If condition whose exclusively controlled region only syncs (or is passed to a parameter with that property); every comparison of an RWMode value either selects the RWManager implementation or guards a sync-only region.", ruleFlagUse)
	reg("R-RWPARITY", "Both RWManager constructors open the file with the same os.OpenFile arguments and size it with the same Truncate call; the interface has four methods.", ruleRWParity)
	reg("R-SENT", "Value-flow of the skiplist sentinel in ds/zset: values that may be SortedSet.header (the field load, phis of it, elements of arrays that received it, parameters and results that carry it; not loads of forward/backward) never have their payload fields read, are never appended to a result, stored into a link field or the dictionary, or returned from an exported method, unless dominated by a != header test.", ruleSentinel)
	reg("R-SEGPRED", "Each predicate that decides whether an on-disk segment is searched (range, point, prefix), evaluated from its SSA decision region over every ordering of query and segment bounds in a 7-string universe, selects every segment that can hold a matching key.", ruleSegPred)
	reg("R-TOMBSTONE-STOPS", "In the cone of Tx.Get a record that is found but dead (delete marker, expired) ends the lookup: the dead side of every such test neither loops on to an older segment, nor calls another lookup, nor returns a nil record to a caller that would then consult an older level.", ruleTombstoneStops)
	reg("R-READAT-SPEC", "Both RWManager.ReadAt implementations, evaluated from their SSA form on every small combination of region size, offset and buffer length: a read inside the region (including one that ends exactly at its end, and the empty read at the end) returns all bytes with a nil error; a read that runs past the end returns what is there with nil or io.EOF.", ruleReadAtSpec)
	reg("R-HINTKEY", "Hint.key of a key/value record: the commit-time literal and the replay-time literal hold the same recipe, or (sparse mode, where they differ) no function on a read path of that index loads the field.", ruleHintKey)
	reg("R-INSERT-TOTAL", "(*BPTree).Insert returns a nil error on every path (interprocedurally): Commit discards that error for records already logged while the replay in Open fails on it.", ruleInsertTotal)
	reg("R-COMMITSET-MONO", "DB.committedTxIds only grows while the database is open: no delete from it anywhere, no replacement of the map on the commit or merge path (a transaction's records can lie in several segments).", ruleCommitSetMono)
	reg("R-CONSTINDEX", "An exported function that addresses a constant element of one of its slice parameters (variadic members, keys) does so only under a guard establishing that the parameter is long enough.", ruleConstIndex)
	reg("R-SLICE-LOW", "Every slice expression whose start is computed from an integer argument of its function is reached only where that start is known to be >= 0 (a test of the value, a clamp, or lengths and non-negative constants only).", ruleSliceLow)
	reg("R-NEGATE", "An exported function of the main package negates an integer argument only where a lower bound of that argument is established (math.MinInt64 does not survive negation).", ruleNegate)
	reg("R-NEWEST", "Sparse-mode merges are newest-wins: SortFID comparators order by descending fID and the sorted slice is the one searched; the merge map keeps the first occurrence of a key; memory results are appended before disk results.", ruleNewestWins)
	reg("R-COMMITTED-READ", "Every non-nil entry Get can return is dominated by a committed-transaction test (DB.committedTxIds, ActiveCommittedTxIdsIdx.Find or FindTxIDOnDisk) or produced by a function with that property; the sparse-mode scans consult the committed-transaction index.", ruleCommittedRead)
	reg("R-COUNT", "Every counter that is compared with an offset/limit parameter in the cone of PrefixScan/PrefixSearchScan is incremented only at points dominated by the tombstone and expiry tests; limits applied to len() use a list of live entries.", ruleCount)
	reg("R-RO-IO","The file-system half of R-RO: no exported read API of Tx reaches a file-creating or modifying primitive other than opening an existing segment through NewDataFile(getDataPath(id)).", ruleROIO)
}

var properties = []Property{
	{ID: "C08", Rules: []string{"R-OWN", "R-REPLAY", "R-REPLAY-KV", "R-ORDER", "R-ERRPOLICY", "R-POS"},
		Explain: "Decides the facts that make 'state = replay of the log' true by construction: no in-memory mutation exists that is not a logged record; commit-time and open-time appliers agree op code by op code (callee and argument recipes) and cover every emitted code; writes, applies and replay follow log order; ops that were no-ops at commit are no-ops at replay; index hints agree between commit and reopen.",
		NotCov:  "that replaying the same ops on the same data-structure code yields the same result is assumed (the ds methods are deterministic except skiplist levels)."},
	{ID: "C05", Rules: []string{"R-OPCODEC", "R-REPLAY-LIST"},
		Explain: "Decides two clauses: the log encoding of list operations survives arbitrary value bytes (no payload recovered through an unbounded split; split keys are rejected at the API if they contain the separator), and list op codes are applied identically at commit and on reopen.",
		NotCov:  "equality with a Redis list model over operation sequences, index clamping arithmetic of LRange/LRem/LTrim (runtime values; not applicable to static analysis)."},
	{ID: "C01", Rules: []string{"R-LIVE", "R-EXPIRY", "R-POS", "R-ACTIVEFILE", "R-UPDATE", "R-RECOVER"},
		Explain: "Decides, for the RAM index modes, that every returned entry passed the tombstone and expiry guards on all feasible paths (no offset/limit), that the expiry predicate equals its specification on a grid around the expiry instant, that index hints name the position and file the record was written to, that an overwrite replaces the whole record, and that only committed records are indexed after reopen.",
		NotCov:  "functional correctness of the B+ tree (sorted order, every key found, inclusive range bounds), which are data-structure invariants over runtime values."},
	{ID: "C02", Rules: []string{"R-LIVE"},
		Explain: "Decides, for the sparse-mode read paths, that every returned entry passed the tombstone and expiry guards (Get on memory and disk branches; scans through the filtering merge function).",
		NotCov:  "on-disk node layout, descent, bucket-meta ranges, rebuild on open - correctness of an external-memory B+ tree over runtime data."},
	{ID: "C14", Rules: []string{"R-LOCKMAP", "R-LOCKCTX", "R-RO", "R-PUT", "R-COMMIT-EMPTY", "R-GLOBALS", "R-TXPAIR"},
		Explain: "Decides the lock discipline that race freedom and snapshot reads rest on: writers take the exclusive lock, every access to database state holds the lock, read paths write nothing shared, only writable transactions can enqueue and an empty commit changes nothing, no process-global mutable state, no goroutines, Begin/Commit/Rollback pair up on all paths.",
		NotCov:  "linearizability of observed histories, races on references a caller keeps after the transaction (ZMembers returns the live dictionary), scheduling-dependent behaviour."},
	{ID: "C17", Rules: []string{"R-LOCKCTX-MERGE"},
		Explain: "Decides whether every read/write of database state in the cone of DB.Merge holds the database lock.",
		NotCov:  "the effect of a race on results; observed race reports."},
	{ID: "C18", Rules: []string{"R-BACKUP"},
		Explain: "Decides that the backup copy runs with the database lock held for its whole duration (inside View on the same DB), copies the whole Options.Dir, and writes no shared state.",
		NotCov:  "that the copy opens and shows the same state (depends on C09/C10 and on CopyDir), interaction with an unlocked Merge (C17)."},
	{ID: "C06", Rules: []string{"R-SETLOG", "R-OWN", "R-RO", "R-REPLAY-SET"},
		Explain: "Decides the clause 'SMove moves the member as part of the enclosing write transaction, with the same durability as any other write': every set mutation is a logged record (reaches the gate), no API edits index state directly, read APIs are effect-free.",
		NotCov:  "equivalence with a mathematical set model over operation sequences (runtime values) - not applicable to static analysis."},
	{ID: "C13", Rules: []string{"R-VISIBLE", "R-ORDER"},
		Explain: "Decides a necessary condition of serial explanation: readers must be able to observe writes of earlier operations of the same transaction (write/read set intersection per family), and effects are applied in call order.",
		NotCov:  "everything else about serial equivalence of per-operation results."},
	{ID: "C20", Rules: []string{"R-CLOSED", "R-DBCLOSED", "R-MAPOK"},
		Explain: "Decides three panic classes for every path: nil dereference of tx.db on a finished transaction (all exported Tx methods and their cones), nil dereference of database state after Close in exported DB methods, and method calls on the nil index object of a missing bucket.",
		NotCov:  "total panic freedom: integer overflow, slice bounds from API integers (LRange / LRem extremes), NaN scores, allocation size, B+ tree shape invariants behind unchecked type assertions."},
	{ID: "C22", Rules: []string{"R-OPEN-ORDER", "R-MODE-TABLE"},
		Explain: "Decides that Open runs the mode check before any file-creating or modifying effect other than creating the directory itself, that a refusal is returned, and that the check's decision — a boolean function of three atoms evaluated over all 12 rows from the SSA decision region — equals the specification and does not distinguish the two RAM modes.",
		NotCov:  "that a crashed sparse directory still has its bpt directory; equality of contents after switching RAM modes (C19)."},
	{ID: "C09", Rules: []string{"R-SCANEND", "R-TORN", "R-ERRPOLICY", "R-RO-IO"},
		Explain: "Decides the statement's own three cases: for every segment-scan loop each end-of-data signal (zero header, io.EOF, capacity reached) and a torn tail (ErrCrc) ends the scan instead of failing Open; an operation whose error the commit-time applier ignores is not turned into a failure by the open-time applier; read APIs create no files that a later Open parses.",
		NotCov:  "crash images of the sparse index files; enumeration of crash points."},
	{ID: "C21", Rules: []string{"R-CODEC", "R-CRC", "R-PUT"},
		Explain: "Decides layout symmetry of the three codecs from the constant-folded byte ranges in the SSA form (encoder PutUintN vs decoder UintN per field, widths, tiling, payload order and bounds, Size()), CRC coverage on both sides, that every non-nil decoder return is behind the CRC comparison, and that the size fields of a logged record are len() of its payloads.",
		NotCov:  "detection strength of CRC32, behaviour when a corrupted size field makes an allocation fail, bit-flip enumeration."},
	{ID: "C10", Rules: []string{"R-MARKER", "R-PUT", "R-RECOVER", "R-TXID", "R-CRC", "R-ORDER"},
		Explain: "Decides the protocol crash atomicity rests on: commit marker only on the last record and set before it is encoded; every record stamped with Tx.id and created UnCommitted through one gate; recovery believes only transactions with a marked record and replays only their records; the id generator is not per-transaction; every decoder return is behind the CRC comparison; records are written/replayed in log order.",
		NotCov:  "enumeration of crash images and torn writes (R-TORN is under C09); sparse-mode persistence order of the per-segment tx-id index."},
	{ID: "C11", Rules: []string{"R-SYNC", "R-FLAGBIND", "R-SYNCIMPL"},
		Explain: "Decides the sync-after-write protocol that durability under SyncEnable rests on: on every CFG path of Tx.Commit and of every helper it reaches, each file write is followed by a sync of the same handle before a normal return and before the next write; sync flags are bound to Options.SyncEnable; both RWManager.Sync implementations reach a real sync primitive.",
		NotCov:  "what the kernel does with synced data, directory-entry durability, recovery of a torn tail (C09), enumeration of crash images."},
}

