package main

import (
	"fmt"
	"go/types"
	"sort"
	"strings"

	"golang.org/x/tools/go/ssa"
)

// ---------------------------------------------------------------------------
// Engine F: codec symmetry (C21). Works on SSA so that offsets computed through
// local variables normalise to linear expressions over size fields.

type hdrField struct {
	group  string
	field  string
	lo, hi int64
	bits   int
	fn     *ssa.Function
	in     ssa.Instruction
	ftype  types.Type
}

type payloadSeg struct {
	group    string
	field    string // payload field name
	sizeSym  string // size field symbol
	lo       lin
	length   lin
	fn       *ssa.Function
	in       ssa.Instruction
	hdrConst int64
}

func codecGroup(t types.Type) string {
	n := namedOf(t)
	if n == nil || n.Obj().Pkg() == nil || n.Obj().Pkg().Path() != modPath {
		return ""
	}
	switch n.Obj().Name() {
	case "MetaData", "Entry":
		return "Entry"
	case "BPTreeRootIdx":
		return "BPTreeRootIdx"
	case "BucketMeta":
		return "BucketMeta"
	}
	return ""
}

func binaryCall(cc *ssa.CallCommon) (name string, put bool, bits int) {
	f := cc.StaticCallee()
	if f == nil || f.Pkg == nil || f.Pkg.Pkg.Path() != "encoding/binary" {
		return "", false, 0
	}
	switch f.Name() {
	case "PutUint16":
		return f.Name(), true, 16
	case "PutUint32":
		return f.Name(), true, 32
	case "PutUint64":
		return f.Name(), true, 64
	case "Uint16":
		return f.Name(), false, 16
	case "Uint32":
		return f.Name(), false, 32
	case "Uint64":
		return f.Name(), false, 64
	}
	return "", false, 0
}

func sliceConstBounds(v ssa.Value) (lo, hi int64, hasHi, ok bool) {
	sl, isSl := v.(*ssa.Slice)
	if !isSl {
		return 0, 0, false, false
	}
	lo = 0
	if sl.Low != nil {
		l, okl := constInt(sl.Low)
		if !okl {
			return 0, 0, false, false
		}
		lo = l
	}
	if sl.High != nil {
		h, okh := constInt(sl.High)
		if !okh {
			return 0, 0, false, false
		}
		return lo, h, true, true
	}
	return lo, 0, false, true
}

// storedAs maps SSA values of fn to the struct field they are stored into.
func storedAs(fn *ssa.Function) map[ssa.Value]*ssa.FieldAddr {
	out := map[ssa.Value]*ssa.FieldAddr{}
	instrs(fn, func(in ssa.Instruction) {
		st, ok := in.(*ssa.Store)
		if !ok {
			return
		}
		if fa, ok := st.Addr.(*ssa.FieldAddr); ok {
			out[stripConv(st.Val)] = fa
			out[st.Val] = fa
		}
	})
	return out
}

func typeBits(t types.Type) int {
	b, ok := t.Underlying().(*types.Basic)
	if !ok {
		return 0
	}
	switch b.Kind() {
	case types.Uint16, types.Int16:
		return 16
	case types.Uint32, types.Int32:
		return 32
	case types.Uint64, types.Int64:
		return 64
	case types.Uint8, types.Int8:
		return 8
	}
	return 0
}

type codecFacts struct {
	enc, dec       map[string][]hdrField   // group -> header fields
	encPay, decPay map[string][]payloadSeg // group -> payload segments in offset order
	hdrBuf         map[string]int64        // group -> decoder header buffer size
	encCrc         map[string][]string     // group -> problems/ok notes for encoder crc
	crcOrder       map[string][]string     // group -> payload order in GetCrc
	crcFrom        map[string]int64        // group -> low bound of the header slice fed to the checksum in GetCrc
	encCrcFrom     map[string]int64
	sizeFn         map[string]lin
	sizeFnPos      map[string]string
}

func fieldSym(sa map[ssa.Value]*ssa.FieldAddr) func(ssa.Value) string {
	return func(v ssa.Value) string {
		if fv, base := lastField(v); fv != nil && codecGroup(base.Type()) != "" {
			return fv.Name()
		}
		if fa, ok := sa[stripConv(v)]; ok && codecGroup(fa.X.Type()) != "" {
			return fieldVarOf(fa).Name()
		}
		root, sfx := splitPath(v)
		if _, isP := root.(*ssa.Parameter); isP {
			return "param" + sfx
		}
		return pathOf(v)
	}
}

func gatherCodec(c *Ctx) *codecFacts {
	cf := &codecFacts{enc: map[string][]hdrField{}, dec: map[string][]hdrField{}, encPay: map[string][]payloadSeg{}, decPay: map[string][]payloadSeg{},
		hdrBuf: map[string]int64{}, crcOrder: map[string][]string{}, crcFrom: map[string]int64{}, encCrcFrom: map[string]int64{}, sizeFn: map[string]lin{}, sizeFnPos: map[string]string{}}
	for _, f := range c.P.Main.Members {
		_ = f
	}
	for _, f := range c.P.SrcFuncs {
		if f.Pkg != c.P.Main {
			continue
		}
		sa := storedAs(f)
		sym := fieldSym(sa)
		recvGroup := ""
		if f.Signature.Recv() != nil {
			recvGroup = codecGroup(f.Signature.Recv().Type())
		}
		instrs(f, func(in ssa.Instruction) {
			cc := callOf(in)
			if cc == nil {
				return
			}
			if _, put, bits := binaryCall(cc); bits != 0 {
				args := argsOf(cc)
				if cc.StaticCallee().Signature.Recv() != nil {
					args = cc.Args[1:]
				}
				lo, hi, hasHi, ok := sliceConstBounds(args[0])
				if !ok || !hasHi {
					return
				}
				if put {
					v := args[1]
					fv, base := lastField(v)
					if fv != nil && codecGroup(base.Type()) != "" {
						cf.enc[codecGroup(base.Type())] = append(cf.enc[codecGroup(base.Type())], hdrField{codecGroup(base.Type()), fv.Name(), lo, hi, bits, f, in, fv.Type()})
						c.touch(f)
						return
					}
					// checksum stored into the header
					if call, ok := resolve1(v).(*ssa.Call); ok {
						if cal := call.Call.StaticCallee(); cal != nil && cal.String() == "hash/crc32.ChecksumIEEE" && recvGroup != "" {
							cf.enc[recvGroup] = append(cf.enc[recvGroup], hdrField{recvGroup, "crc", lo, hi, bits, f, in, types.Typ[types.Uint32]})
							clo, _, chasHi, cok := sliceConstBounds(call.Call.Args[0])
							if cok && !chasHi {
								cf.encCrcFrom[recvGroup] = clo
							} else {
								cf.encCrcFrom[recvGroup] = -1
							}
							c.touch(f)
						}
					}
					return
				}
				// decode: result stored into a field
				if val, ok := in.(ssa.Value); ok {
					if fa, ok := sa[val]; ok {
						if g := codecGroup(fa.X.Type()); g != "" {
							fv := fieldVarOf(fa)
							cf.dec[g] = append(cf.dec[g], hdrField{g, fv.Name(), lo, hi, bits, f, in, fv.Type()})
							c.touch(f)
						}
					}
				}
				return
			}
			// encoder payload: copy(buf[lo:hi], x.payload)
			if bi, ok := cc.Value.(*ssa.Builtin); ok && bi.Name() == "copy" && len(cc.Args) == 2 {
				fv, base := lastField(cc.Args[1])
				if fv == nil || codecGroup(base.Type()) == "" {
					return
				}
				sl, ok := cc.Args[0].(*ssa.Slice)
				if !ok || sl.Low == nil || sl.High == nil {
					return
				}
				g := codecGroup(base.Type())
				lo := linOf(sl.Low, sym)
				ln := linAdd(linOf(sl.High, sym), lo, -1)
				cf.encPay[g] = append(cf.encPay[g], payloadSeg{group: g, field: fv.Name(), lo: lo, length: ln, fn: f, in: in})
				c.touch(f)
				return
			}
			// decoder payload through a helper: v, err := H(.., off, size) where H allocates make([]byte, size),
			// reads it at off and returns it
			if cal := cc.StaticCallee(); cal != nil && c.P.inModule(cal) && cal.Blocks != nil {
				if po, ps, ok := readHelperParams(cal); ok && po < len(cc.Args) && ps < len(cc.Args) {
					if val, isVal := in.(ssa.Value); isVal && val.Referrers() != nil {
						for _, r := range *val.Referrers() {
							ex, ok := r.(*ssa.Extract)
							if !ok || ex.Index != 0 {
								continue
							}
							if fa, ok := sa[ssa.Value(ex)]; ok {
								if g := codecGroup(fa.X.Type()); g != "" {
									cf.decPay[g] = append(cf.decPay[g], payloadSeg{group: g, field: fieldVarOf(fa).Name(), lo: linOf(cc.Args[po], sym), length: linOf(cc.Args[ps], sym), fn: f, in: in})
									c.touch(f)
									c.touch(cal)
								}
							}
						}
					}
					return
				}
			}
			// decoder payload: X.ReadAt(buf, off) with buf = make([]byte, size) stored into a payload field
			isRead :=calleeIs(cc, pkgOS, "File", "ReadAt") || (cc.IsInvoke() && cc.Method.Name() == "ReadAt" && isRWManager(cc.Value.Type()))
			if isRead {
				args := argsOf(cc)
				bufV := args[0]
				if ms, ok := bufV.(*ssa.MakeSlice); ok {
					if fa, ok := sa[ssa.Value(ms)]; ok {
						if g := codecGroup(fa.X.Type()); g != "" {
							cf.decPay[g] = append(cf.decPay[g], payloadSeg{group: g, field: fieldVarOf(fa).Name(), lo: linOf(args[1], sym), length: linOf(ms.Len, sym), fn: f, in: in})
							c.touch(f)
						}
					}
					return
				}
				// header read: fixed-size buffer
				if sl, ok := bufV.(*ssa.Slice); ok {
					if al, ok := sl.X.(*ssa.Alloc); ok {
						if arr, ok := derefT(al.Type()).Underlying().(*types.Array); ok {
							// group: the function decodes which group? decide later by function
							for g, hs := range cf.dec {
								_ = hs
								_ = g
							}
							key := "hdr:" + fnName(f)
							cf.hdrBuf[key] = arr.Len()
							cf.crcOrder[key+":off"] = []string{linOf(args[1], sym).String()}
						}
					}
				}
			}
		})
		// GetCrc of a group
		if f.Name() == "GetCrc" && recvGroup != "" {
			c.touch(f)
			var order []string
			from := int64(-1)
			instrs(f, func(in ssa.Instruction) {
				cc := callOf(in)
				if cc == nil || cc.StaticCallee() == nil {
					return
				}
				switch cc.StaticCallee().String() {
				case "hash/crc32.ChecksumIEEE":
					lo, _, hasHi, ok := sliceConstBounds(cc.Args[0])
					if ok && !hasHi {
						from = lo
					}
				case "hash/crc32.Update":
					if fv, _ := lastField(cc.Args[2]); fv != nil {
						order = append(order, fv.Name())
					} else {
						order = append(order, "?")
					}
				}
			})
			cf.crcOrder[recvGroup] = order
			cf.crcFrom[recvGroup] = from
		}
		if f.Name() == "Size" && recvGroup != "" && f.Signature.Results().Len() == 1 {
			rs := returnsOf(f)
			if len(rs) == 1 {
				cf.sizeFn[recvGroup] = linOf(rs[0].Results[0], sym)
				cf.sizeFnPos[recvGroup] = c.P.ipos(rs[0])
				c.touch(f)
			}
		}
	}
	return cf
}

func ruleCodec(c *Ctx) {
	cf := gatherCodec(c)
	groups := []string{"Entry", "BPTreeRootIdx", "BucketMeta"}
	minHdr := map[string]int{"Entry": 10, "BPTreeRootIdx": 5, "BucketMeta": 3}
	for _, g := range groups {
		enc, dec := cf.enc[g], cf.dec[g]
		c.minInstances("encoded header fields of "+g, len(enc), minHdr[g])
		c.minInstances("decoded header fields of "+g, len(dec), minHdr[g])
		encBy := map[string]hdrField{}
		for _, h := range enc {
			if _, dup := encBy[h.field]; dup {
				c.bad(g, "field "+h.field+" encoded once", c.P.ipos(h.in), "header field encoded twice")
			}
			encBy[h.field] = h
		}
		decBy := map[string]hdrField{}
		for _, h := range dec {
			decBy[h.field] = h
		}
		var names []string
		for n := range encBy {
			names = append(names, n)
		}
		for n := range decBy {
			if _, ok := encBy[n]; !ok {
				names = append(names, n)
			}
		}
		sort.Strings(names)
		var H int64
		for _, n := range names {
			e, eok := encBy[n]
			d, dok := decBy[n]
			c.Sites++
			switch {
			case !eok:
				c.bad(g, "field "+n+" symmetric", c.P.ipos(d.in), "field is decoded but never encoded")
				continue
			case !dok:
				c.bad(g, "field "+n+" symmetric", c.P.ipos(e.in), "field is encoded but never decoded (it reads back as zero)")
				continue
			}
			okb := e.lo == d.lo && e.hi == d.hi && e.bits == d.bits
			c.check(okb, g, "field "+n+" symmetric", c.P.ipos(e.in),
				fmt.Sprintf("encoder and decoder agree: bytes [%d:%d] as uint%d", e.lo, e.hi, e.bits),
				fmt.Sprintf("encoder writes bytes [%d:%d] as uint%d at %s, decoder reads [%d:%d] as uint%d at %s", e.lo, e.hi, e.bits, c.P.ipos(e.in), d.lo, d.hi, d.bits, c.P.ipos(d.in)))
			wb := typeBits(e.ftype)
			c.check(8*(e.hi-e.lo) == int64(e.bits) && e.bits == wb && d.bits == wb && 8*(d.hi-d.lo) == int64(d.bits), g, "field "+n+" width", c.P.ipos(e.in),
				fmt.Sprintf("width %d bits = slice length = field type", wb),
				fmt.Sprintf("field type has %d bits, encoder uses uint%d over %d bytes, decoder uint%d over %d bytes: values do not round-trip", wb, e.bits, e.hi-e.lo, d.bits, d.hi-d.lo))
			if e.hi > H {
				H = e.hi
			}
		}
		// tiling
		sorted := append([]hdrField{}, enc...)
		sort.Slice(sorted, func(i, j int) bool { return sorted[i].lo < sorted[j].lo })
		pos := int64(0)
		tiles := true
		for _, h := range sorted {
			if h.lo != pos {
				tiles = false
			}
			pos = h.hi
		}
		c.check(tiles && len(sorted) > 0, g, "header fields tile [0,H)", "", fmt.Sprintf("header fields are disjoint and contiguous over [0,%d)", H), "header byte ranges overlap or leave a gap")
		// crc is first 4 bytes and checksum covers the rest
		if crc, ok := encBy["crc"]; ok {
			c.check(crc.lo == 0 && cf.encCrcFrom[g] == crc.hi, g, "encoder checksum covers buf[crc.hi:]", c.P.ipos(crc.in),
				"checksum is computed over everything after the crc field", fmt.Sprintf("encoder checksum starts at byte %d but the crc field ends at %d", cf.encCrcFrom[g], crc.hi))
			c.check(cf.crcFrom[g] == crc.hi, g, "GetCrc covers header[crc.hi:]", "", "", fmt.Sprintf("GetCrc checksums the header from byte %d, the crc field ends at %d", cf.crcFrom[g], crc.hi))
		}
		// payloads
		ep := append([]payloadSeg{}, cf.encPay[g]...)
		dp := append([]payloadSeg{}, cf.decPay[g]...)
		sort.SliceStable(ep, func(i, j int) bool { return len(ep[i].lo.terms) < len(ep[j].lo.terms) })
		sort.SliceStable(dp, func(i, j int) bool { return len(dp[i].lo.terms) < len(dp[j].lo.terms) })
		minPay := map[string]int{"Entry": 3, "BPTreeRootIdx": 2, "BucketMeta": 2}[g]
		c.minInstances("payload segments encoded for "+g, len(ep), minPay)
		c.minInstances("payload segments decoded for "+g, len(dp), minPay)
		// encoder: first lo == H, contiguous
		cur := lin{terms: map[string]int64{}, c: H}
		var encOrder, decOrder, sizes []string
		for i, s := range ep {
			c.check(linEq(s.lo, cur), g, fmt.Sprintf("encoder payload %s starts where the previous part ends", s.field), c.P.ipos(s.in),
				"offset "+s.lo.String(), fmt.Sprintf("payload #%d (%s) is copied at offset %s, expected %s", i+1, s.field, s.lo.String(), cur.String()))
			cur = linAdd(s.lo, s.length, 1)
			encOrder = append(encOrder, s.field+":"+s.length.String())
			sizes = append(sizes, s.length.String())
		}
		// decoder: offsets relative to the header read offset
		var base lin
		hdrKey := ""
		if len(dp) > 0 {
			hdrKey = "hdr:" + fnName(dp[0].fn)
		}
		hb, hasHB := cf.hdrBuf[hdrKey]
		c.check(hasHB && hb == H, g, "decoder header buffer size = encoded header size", "", fmt.Sprintf("%d bytes", H), fmt.Sprintf("decoder reads a %d-byte header, encoder lays out %d bytes", hb, H))
		for i, s := range dp {
			if i == 0 {
				base = linAdd(s.lo, lin{terms: map[string]int64{}, c: H}, -1)
				cur = s.lo
			}
			c.check(linEq(s.lo, cur), g, fmt.Sprintf("decoder payload %s read where the previous part ends", s.field), c.P.ipos(s.in),
				"offset "+s.lo.String(), fmt.Sprintf("payload #%d (%s) is read at offset %s, expected %s", i+1, s.field, s.lo.String(), cur.String()))
			cur = linAdd(s.lo, s.length, 1)
			decOrder = append(decOrder, s.field+":"+s.length.String())
		}
		if len(dp) > 0 {
			want := "[" + base.String() + "]"
			got := fmt.Sprint(cf.crcOrder[hdrKey+":off"])
			c.check(got == want, g, "decoder payloads start right after the header", "", "", "first payload offset is not header offset + header size: header at "+got+", payload base "+want)
		}
		c.check(strings.Join(encOrder, ",") == strings.Join(decOrder, ",") && len(encOrder) > 0, g, "payload order and size fields agree", "",
			"encoder and decoder: "+strings.Join(encOrder, ","), "encoder lays out "+strings.Join(encOrder, ",")+" but decoder reads "+strings.Join(decOrder, ","))
		// GetCrc payload order
		var payNames []string
		for _, s := range ep {
			payNames = append(payNames, s.field)
		}
		c.check(strings.Join(cf.crcOrder[g], ",") == strings.Join(payNames, ","), g, "GetCrc covers the payloads in stored order", "",
			strings.Join(payNames, ","), "GetCrc feeds "+strings.Join(cf.crcOrder[g], ",")+" but the stored order is "+strings.Join(payNames, ","))
		// Size() = H + sum(size fields)
		want := lin{terms: map[string]int64{}, c: H}
		for _, s := range ep {
			want = linAdd(want, s.length, 1)
		}
		if sz, ok := cf.sizeFn[g]; ok {
			c.check(linEq(sz, want), g, "Size() = header + payload sizes", cf.sizeFnPos[g], want.String(), "Size() returns "+sz.String()+", the encoded length is "+want.String())
		} else {
			c.undecided(g, "Size()", "", "Size method not found")
		}
		// each size field is itself a header field
		for _, s := range ep {
			if len(s.length.terms) != 1 || s.length.c != 0 {
				c.bad(g, "payload "+s.field+" bounded by one size field", c.P.ipos(s.in), "payload length is "+s.length.String())
				continue
			}
			for k := range s.length.terms {
				_, ok := encBy[k]
				c.check(ok, g, "payload "+s.field+" bounded by header field "+k, c.P.ipos(s.in), "", "payload length "+k+" is not stored in the header")
			}
		}
		// completeness: every field of the on-disk struct is covered
		var st *types.Struct
		sn := g
		if g == "Entry" {
			sn = "MetaData"
		}
		st = c.P.Named("", sn).Underlying().(*types.Struct)
		covered := map[string]bool{}
		for n := range decBy {
			covered[n] = true
		}
		for _, s := range dp {
			covered[s.field] = true
		}
		for i := 0; i < st.NumFields(); i++ {
			fn := st.Field(i).Name()
			c.check(covered[fn], g, "struct field "+sn+"."+fn+" is decoded", "", "", "field "+sn+"."+fn+" is neither a decoded header field nor a payload: it is lost on a round trip")
		}
	}
}
