package main

import (
	"fmt"
	"go/types"
	"sort"
	"strings"

	"golang.org/x/tools/go/ssa"
)

// ---------------------------------------------------------------------------
// Engine B: lock discipline (C14, C17)

func isMuCall(cc *ssa.CallCommon, names ...string) bool {
	f := cc.StaticCallee()
	if f == nil || f.Pkg == nil || f.Pkg.Pkg.Path() != "sync" {
		return false
	}
	if !funcIs(f, "sync", "RWMutex", f.Name()) {
		return false
	}
	if !isFieldLoadOrAddr(cc.Args[0], "DB", "mu") {
		return false
	}
	for _, n := range names {
		if f.Name() == n {
			return true
		}
	}
	return false
}

// isFieldLoadOrAddr: v is &x.f or a load of x.f.
func isFieldLoadOrAddr(v ssa.Value, owner, name string) bool {
	if fa, ok := v.(*ssa.FieldAddr); ok {
		return fieldVarOf(fa).Name() == name && namedIs(fa.X.Type(), owner)
	}
	return isFieldLoad(v, owner, name)
}

// ruleLockMap: Tx.lock/unlock map writable to the exclusive lock.
func ruleLockMap(c *Ctx) {
	n := 0
	for _, f := range c.P.SrcFuncs {
		if f.Pkg != c.P.Main {
			continue
		}
		tps := txParamsOf(f)
		if len(tps) == 0 {
			continue
		}
		tp := tps[0]
		wTrue := boolEdges(f, true, func(x ssa.Value) bool {
			fv, base := lastField(x)
			return fv != nil && fv.Name() == "writable" && sameValue(base, tp)
		})
		wFalse := boolEdges(f, false, func(x ssa.Value) bool {
			fv, base := lastField(x)
			return fv != nil && fv.Name() == "writable" && sameValue(base, tp)
		})
		calls(f, func(ci ssa.CallInstruction) {
			cc := ci.Common()
			if !isMuCall(cc, "Lock", "Unlock", "RLock", "RUnlock") {
				return
			}
			// receiver reached through the transaction
			root, _ := splitPath(cc.Args[0])
			if root != ssa.Value(tp) {
				return
			}
			n++
			c.touch(f)
			c.Sites++
			name := cc.StaticCallee().Name()
			switch name {
			case "Lock", "Unlock":
				c.check(edgesDominate(f, wTrue, ci.Block()), fnName(f), "mu."+name+" only for writable transactions", c.P.ipos(ci),
					"exclusive lock operation is taken only when tx.writable", "the exclusive lock operation is not tied to tx.writable == true")
			default:
				c.check(edgesDominate(f, wFalse, ci.Block()), fnName(f), "mu."+name+" only for read-only transactions", c.P.ipos(ci),
					"shared lock operation is taken only when !tx.writable", "a writable transaction can take only the shared (read) lock: two writers, or a writer and readers, can run together")
			}
		})
	}
	c.minInstances("RWMutex operations through a Tx", n, 4)
	// every transaction takes a lock: the function with the Lock/RLock pair covers both values of writable
	for _, name := range []string{"(*Tx).lock", "(*Tx).unlock"} {
		f := c.P.Func(name)
		if f == nil {
			continue
		}
		want := []string{"Lock", "RLock"}
		if name == "(*Tx).unlock" {
			want = []string{"Unlock", "RUnlock"}
		}
		// every path entry -> return passes one of the two operations
		p := findPath(f, nil, func(in ssa.Instruction) bool { _, ok := in.(*ssa.Return); return ok }, func(in ssa.Instruction) bool {
			cc := callOf(in)
			return cc != nil && isMuCall(cc, want...)
		}, nil)
		c.check(p == nil, name, "always performs a lock operation", c.P.pos(f.Pos()), "", "a path through "+name+" performs no lock operation", c.witnessOf(p)...)
	}
}

// ---- lock context -----------------------------------------------------------

type lockAnalysis struct {
	p       *Prog
	held    map[*ssa.Function]bool // entry context: lock held at every call
	entries map[*ssa.Function]bool
}

func (a *lockAnalysis) isAcquire(in ssa.Instruction) bool {
	if _, isDefer := in.(*ssa.Defer); isDefer {
		return false
	}
	cc := callOf(in)
	if cc == nil {
		return false
	}
	if isMuCall(cc, "Lock", "RLock") {
		return true
	}
	if calleeIs(cc, modPath, "Tx", "lock") || calleeIs(cc, modPath, "DB", "Begin") {
		return true
	}
	return false
}

func (a *lockAnalysis) isRelease(in ssa.Instruction) bool {
	if _, isDefer := in.(*ssa.Defer); isDefer {
		return false
	}
	cc := callOf(in)
	if cc == nil {
		return false
	}
	if isMuCall(cc, "Unlock", "RUnlock") {
		return true
	}
	return calleeIs(cc, modPath, "Tx", "unlock") || calleeIs(cc, modPath, "Tx", "Commit") || calleeIs(cc, modPath, "Tx", "Rollback")
}

// unprotectedPath: a path on which `at` executes without the lock.
func (a *lockAnalysis) unprotectedPath(f *ssa.Function, at ssa.Instruction) []ssa.Instruction {
	isAt := func(in ssa.Instruction) bool { return in == at }
	if !a.held[f] {
		if p := findPath(f, nil, isAt, a.isAcquire, nil); p != nil {
			return p
		}
	}
	var res []ssa.Instruction
	instrs(f, func(in ssa.Instruction) {
		if res != nil {
			return
		}
		if a.isRelease(in) {
			if p := findPath(f, in, isAt, a.isAcquire, nil); p != nil {
				res = p
			}
		}
		// failed Begin: the error edge leaves without the lock
		if cc := callOf(in); cc != nil && calleeIs(cc, modPath, "DB", "Begin") {
			call, ok := in.(*ssa.Call)
			if !ok {
				return
			}
			for _, e := range nilEdges(f, false, func(x ssa.Value) bool {
				ex, ok := resolve1(x).(*ssa.Extract)
				return ok && ex.Tuple == ssa.Value(call) && isErrorType(ex.Type())
			}) {
				start := e.b.Succs[e.si]
				if len(start.Instrs) == 0 {
					continue
				}
				first := start.Instrs[0]
				if first == at {
					res = []ssa.Instruction{in, at}
					return
				}
				if p := findPath(f, first, isAt, a.isAcquire, nil); p != nil {
					res = p
				}
			}
		}
	})
	return res
}

func newLockAnalysis(c *Ctx) *lockAnalysis {
	a := &lockAnalysis{p: c.P, held: map[*ssa.Function]bool{}, entries: map[*ssa.Function]bool{}}
	for _, m := range exportedMethods(c, "DB") {
		a.entries[m] = true
		a.held[m] = false
	}
	txEntries := exportedMethods(c, "Tx")
	for _, m := range txEntries {
		a.entries[m] = true
		a.held[m] = true // typestate: an open Tx holds the lock (closed transactions are handled by R-CLOSED)
	}
	var roots []*ssa.Function
	for m := range a.entries {
		roots = append(roots, m)
	}
	cone := c.P.ModCone(roots...)
	for _, f := range cone {
		if !a.entries[f] {
			a.held[f] = true // optimistic start
		}
	}
	inCone := map[*ssa.Function]bool{}
	for _, f := range cone {
		inCone[f] = true
	}
	for changed := true; changed; {
		changed = false
		for _, f := range cone {
			if a.entries[f] || !a.held[f] {
				continue
			}
			for _, s := range c.P.CallersOf(f) {
				g := s.Parent()
				if !inCone[g] {
					continue // e.g. only reachable from Open: the DB is not shared yet
				}
				if a.unprotectedPath(g, s) != nil {
					a.held[f] = false
					changed = true
					break
				}
			}
		}
	}
	return a
}

// ruleLockCtx: every access to DB fields (other than the immutable opt and the
// mutex itself) in the cones of the exported DB/Tx methods has the lock held.
func ruleLockCtx(c *Ctx) { lockCtx(c, nil) }

// ruleLockCtxMerge: the same restricted to the cone of DB.Merge (C17).
func ruleLockCtxMerge(c *Ctx) { lockCtx(c, c.P.MustFunc("(*DB).Merge")) }

func lockCtx(c *Ctx, only *ssa.Function) {
	a := newLockAnalysis(c)
	var roots []*ssa.Function
	if only != nil {
		roots = []*ssa.Function{only}
	} else {
		for m := range a.entries {
			roots = append(roots, m)
		}
	}
	sort.Slice(roots, func(i, j int) bool { return fnKey(roots[i]) < fnKey(roots[j]) })
	n := 0
	// functions that run only as part of DB.Merge (which takes no lock of its own): their obligations carry
	// a tag, so that the one design-level finding "Merge runs unlocked" covers them wherever the code moves
	mergeFn := c.P.MustFunc("(*DB).Merge")
	var others []*ssa.Function
	for m := range a.entries {
		if m != mergeFn {
			others = append(others, m)
		}
	}
	otherCone := c.P.Cone(nil, others...)
	mergeCone := c.P.Cone(nil, mergeFn)
	for _, f := range c.P.ModCone(roots...) {
		if f.Pkg != c.P.Main {
			continue
		}
		tag := ""
		if mergeCone[f] && !otherCone[f] {
			tag = " [merge cone]"
		}
		type acc struct {
			field string
			write bool
		}
		first := map[acc]ssa.Instruction{}
		bad := map[acc][]ssa.Instruction{}
		cnt := map[acc]int{}
		instrs(f, func(in ssa.Instruction) {
			fa, ok := in.(*ssa.FieldAddr)
			if !ok || !namedIs(fa.X.Type(), "DB") {
				return
			}
			fn := fieldVarOf(fa).Name()
			if fn == "mu" || immutableDBFields(c)[fn] {
				return
			}
			// freshly allocated DB (Open) is not shared
			if root, _ := splitPath(fa.X); root != nil {
				if _, isAlloc := root.(*ssa.Alloc); isAlloc {
					return
				}
			}
			w := false
			for _, r := range *fa.Referrers() {
				if st, ok := r.(*ssa.Store); ok && st.Addr == ssa.Value(fa) {
					w = true
				}
			}
			k := acc{fn, w}
			cnt[k]++
			if _, ok := first[k]; !ok {
				first[k] = in
			}
			if p := a.unprotectedPath(f, in); p != nil && bad[k] == nil {
				bad[k] = p
			}
		})
		var ks []acc
		for k := range cnt {
			ks = append(ks, k)
		}
		sort.Slice(ks, func(i, j int) bool {
			if ks[i].field != ks[j].field {
				return ks[i].field < ks[j].field
			}
			return !ks[i].write && ks[j].write
		})
		for _, k := range ks {
			n++
			c.touch(f)
			c.Sites += cnt[k]
			kind := "read"
			if k.write {
				kind = "write"
			}
			det := fmt.Sprintf("%s of DB.%s under the database lock%s", kind, k.field, tag)
			if p := bad[k]; p != nil {
				ctx := "the function can be entered without the lock"
				if a.held[f] {
					ctx = "the lock is released or not yet taken on this path"
				}
				c.bad(fnName(f), det, c.P.ipos(p[len(p)-1]), fmt.Sprintf("%s of DB.%s can execute while no database lock is held (%s): it races with concurrent transactions", kind, k.field, ctx), c.witnessOf(p)...)
			} else {
				c.ok(fnName(f), det, c.P.ipos(first[k]), fmt.Sprintf("%d access(es), lock held on every path", cnt[k]))
			}
		}
	}
	if only != nil {
		c.minInstances("DB field accesses in the Merge cone", n, 10)
	} else {
		c.minInstances("DB field accesses in the API cones", n, 60)
	}
}

// ruleTxPairing: Begin/Commit/Rollback pairing (R-LOCK vi).
func ruleTxPairing(c *Ctx) {
	isRet := func(in ssa.Instruction) bool {
		r, ok := in.(*ssa.Return)
		return ok && r.Block() != r.Parent().Recover
	}
	// (1) Begin: after lock, a nil-tx return passes unlock
	begin := c.P.MustFunc("(*DB).Begin")
	c.touch(begin)
	var lockCall ssa.Instruction
	calls(begin, func(ci ssa.CallInstruction) {
		if calleeIs(ci.Common(), modPath, "Tx", "lock") {
			lockCall = ci
		}
	})
	if lockCall == nil {
		c.undecided(fnName(begin), "lock call", "", "Begin does not call Tx.lock")
	} else {
		isUnlock := func(in ssa.Instruction) bool {
			cc := callOf(in)
			return cc != nil && calleeIs(cc, modPath, "Tx", "unlock")
		}
		nilTxRet := func(in ssa.Instruction) bool {
			r, ok := in.(*ssa.Return)
			return ok && isRet(in) && classifyRetOperand(r, 0) != retNonNil && classifyRetOperand(r, errResultIndex(begin)) != retNil
		}
		p := findPath(begin, lockCall, nilTxRet, isUnlock, nil)
		c.check(p == nil, fnName(begin), "failed Begin releases the lock", c.P.ipos(lockCall), "every return of an error after lock() passes unlock()", "Begin can return an error while still holding the database lock", c.witnessOf(p)...)
		// the closed test happens under the lock
		var closedRead ssa.Instruction
		instrs(begin, func(in ssa.Instruction) {
			if fa, ok := in.(*ssa.FieldAddr); ok && fieldVarOf(fa).Name() == "closed" && namedIs(fa.X.Type(), "DB") {
				closedRead = in
			}
		})
		if closedRead != nil {
			p := findPath(begin, nil, func(in ssa.Instruction) bool { return in == closedRead }, func(in ssa.Instruction) bool { return in == lockCall }, nil)
			c.check(p == nil, fnName(begin), "db.closed is tested under the lock", c.P.ipos(closedRead), "", "db.closed is read before the lock is taken", c.witnessOf(p)...)
		} else {
			c.bad(fnName(begin), "db.closed is tested under the lock", c.P.pos(begin.Pos()), "Begin never tests db.closed")
		}
	}
	// (2) Commit and Rollback: unlock exactly once on success, never before an error return
	for _, name := range []string{"(*Tx).Commit", "(*Tx).Rollback"} {
		f := c.P.MustFunc(name)
		c.touch(f)
		isUnlock := func(in ssa.Instruction) bool {
			cc := callOf(in)
			if cc == nil || len(cc.Args) == 0 {
				return false
			}
			if calleeIs(cc, modPath, "Tx", "unlock") && sameValue(cc.Args[0], f.Params[0]) {
				return true
			}
			// a wrapper of this transaction that unlocks exactly once on every path (e.g. unlock + clear tx.db)
			if cal := cc.StaticCallee(); cal != nil && cal != f && c.P.inModule(cal) && cal.Blocks != nil && sameValue(cc.Args[0], f.Params[0]) && len(cal.Params) > 0 {
				inner := func(in ssa.Instruction) bool {
					ic := callOf(in)
					return ic != nil && calleeIs(ic, modPath, "Tx", "unlock") && len(ic.Args) > 0 && sameValue(ic.Args[0], cal.Params[0])
				}
				anyRet := func(in ssa.Instruction) bool { _, ok := in.(*ssa.Return); return ok }
				hasUnlock := false
				twice := false
				instrs(cal, func(in ssa.Instruction) {
					if inner(in) {
						hasUnlock = true
						if findPath(cal, in, inner, nil, nil) != nil {
							twice = true
						}
					}
				})
				if hasUnlock && !twice && findPath(cal, nil, anyRet, inner, nil) == nil {
					return true
				}
			}
			return false
		}
		succRet := func(in ssa.Instruction) bool {
			r, ok := in.(*ssa.Return)
			return ok && isRet(in) && classifyRetOperand(r, 0) == retNil
		}
		errRet := func(in ssa.Instruction) bool {
			r, ok := in.(*ssa.Return)
			return ok && isRet(in) && classifyRetOperand(r, 0) != retNil
		}
		p := findPath(f, nil, succRet, isUnlock, nil)
		c.check(p == nil, name, "success path unlocks", c.P.pos(f.Pos()), "every successful return passes unlock()", "a successful return leaves the database locked", c.witnessOf(p)...)
		var twice, errAfter []ssa.Instruction
		instrs(f, func(in ssa.Instruction) {
			if !isUnlock(in) {
				return
			}
			if p := findPath(f, in, isUnlock, nil, nil); p != nil {
				twice = p
			}
			if p := findPath(f, in, errRet, nil, nil); p != nil {
				errAfter = p
			}
		})
		c.check(twice == nil, name, "unlocks at most once", c.P.pos(f.Pos()), "", "unlock() can run twice on one path", c.witnessOf(twice)...)
		c.check(errAfter == nil, name, "no error return after unlock", c.P.pos(f.Pos()), "an error return never follows unlock(), so the caller's Rollback is the only other release", "an error is returned after the lock was released: the caller's Rollback unlocks a second time", c.witnessOf(errAfter)...)
	}
	// (3) every Begin success is followed by Commit or Rollback; a failed (or unchecked) Commit is followed by Rollback
	n := 0
	for _, f := range c.P.SrcFuncs {
		if f.Pkg != c.P.Main {
			continue
		}
		calls(f, func(ci ssa.CallInstruction) {
			if !calleeIs(ci.Common(), modPath, "DB", "Begin") {
				return
			}
			call, ok := ci.(*ssa.Call)
			if !ok {
				return
			}
			n++
			c.touch(f)
			var txv, errv ssa.Value
			for _, r := range *call.Referrers() {
				if ex, ok := r.(*ssa.Extract); ok {
					if ex.Index == 0 {
						txv = ex
					} else {
						errv = ex
					}
				}
			}
			if txv == nil {
				c.bad(fnName(f), "Begin result used", c.P.ipos(ci), "the transaction returned by Begin is dropped: the lock is never released")
				return
			}
			isFinish := func(name string) func(ssa.Instruction) bool {
				return func(in ssa.Instruction) bool {
					cc := callOf(in)
					if cc == nil {
						return false
					}
					if calleeIs(cc, modPath, "Tx", name) && sameValue(cc.Args[0], txv) {
						return true
					}
					// a wrapper that finishes the transaction it is handed on every path
					if cal := cc.StaticCallee(); cal != nil && c.P.inModule(cal) && cal.Blocks != nil {
						for j, a := range cc.Args {
							if sameValue(a, txv) && j < len(cal.Params) && finishesTx(c, cal, cal.Params[j], name, 0) {
								return true
							}
						}
					}
					return false
				}
			}
			isCommit, isRollback := isFinish("Commit"), isFinish("Rollback")
			var prune []succEdge
			if errv != nil {
				prune = nilEdges(f, false, func(x ssa.Value) bool { return sameValue(x, errv) })
			}
			p := findPath(f, ci, isRet, func(in ssa.Instruction) bool { return isCommit(in) || isRollback(in) }, edgeSet(prune))
			c.check(p == nil, fnName(f), "every path after a successful Begin finishes the transaction", c.P.ipos(ci),
				"Commit or Rollback on all paths", "a path returns after Begin succeeded without Commit or Rollback: the database stays locked", c.witnessOf(p)...)
			instrs(f, func(in ssa.Instruction) {
				if !isCommit(in) {
					return
				}
				cv, _ := in.(ssa.Value)
				var okEdges []succEdge
				if cv != nil {
					okEdges = nilEdges(f, true, func(x ssa.Value) bool { return sameValue(x, cv) })
				}
				p := findPath(f, in, isRet, isRollback, edgeSet(okEdges))
				c.check(p == nil, fnName(f), "a failed Commit is followed by Rollback", c.P.ipos(in),
					"Commit's error is checked and leads to Rollback", "Commit's error is not checked (or not followed by Rollback): a failed commit leaves the database locked and its failure unnoticed", c.witnessOf(p)...)
			})
		})
	}
	c.minInstances("Begin call sites", n, 2)
}

// ruleCommitWritesNeedPending: index writes in Commit happen only with pending writes (R-LOCK ii).
func ruleCommitNoopWhenEmpty(c *Ctx) {
	commit := c.P.MustFunc("(*Tx).Commit")
	c.touch(commit)
	// edges on which len(pendingWrites) != 0
	ne := eqEdges(commit, false, func(x, y ssa.Value) bool {
		l := linOf(x, func(v ssa.Value) string {
			if isFieldLoad(v, "Tx", "pendingWrites") {
				return "PW"
			}
			return pathOf(v)
		})
		cv, ok := constInt(y)
		return ok && cv == 0 && len(l.terms) == 1 && l.terms["len(PW)"] == 1 && l.c == 0
	})
	n := 0
	bad := 0
	instrs(commit, func(in ssa.Instruction) {
		isW := false
		switch x := in.(type) {
		case *ssa.MapUpdate:
			isW = true
		case *ssa.Store:
			if fa, ok := x.Addr.(*ssa.FieldAddr); ok && !namedIs(fa.X.Type(), "Tx") {
				isW = true
			}
		case *ssa.Call:
			if cal := x.Call.StaticCallee(); cal != nil && c.P.inModule(cal) && (reachesIndexMutator(c.P, cal) || len(fsSitesIn(c.P, cal)) > 0) {
				isW = true
			}
		}
		if !isW {
			return
		}
		n++
		if !edgesDominate(commit, ne, in.Block()) {
			bad++
			c.bad(fnName(commit), "state change only with pending writes", c.P.ipos(in), "Commit can change shared state or files with an empty write set (read-only transactions commit under the shared lock)")
		}
	})
	c.Sites += n
	if bad == 0 {
		c.ok(fnName(commit), "state change only with pending writes", c.P.pos(commit.Pos()), fmt.Sprintf("all %d state-changing instructions are dominated by len(pendingWrites) != 0", n))
	}
	c.minInstances("state-changing instructions in Commit", n, 8)
}

var immDBMemo map[string]bool

// immutableDBFields: fields of DB that are only ever stored on a freshly
// allocated DB (construction in Open) and are therefore read-only once the DB
// is shared (opt, the id generator, ...). Derived from the stores in the code.
func immutableDBFields(c *Ctx) map[string]bool {
	if immDBMemo != nil {
		return immDBMemo
	}
	st := c.P.Named("", "DB").Underlying().(*types.Struct)
	mutable := map[string]bool{}
	for _, f := range c.P.SrcFuncs {
		instrs(f, func(in ssa.Instruction) {
			s, ok := in.(*ssa.Store)
			if !ok {
				return
			}
			fa, ok := s.Addr.(*ssa.FieldAddr)
			if !ok || !namedIs(fa.X.Type(), "DB") {
				return
			}
			root, sfx := splitPath(fa.X)
			if _, isAlloc := root.(*ssa.Alloc); isAlloc && sfx == "" {
				return
			}
			mutable[fieldVarOf(fa).Name()] = true
		})
	}
	immDBMemo = map[string]bool{}
	for i := 0; i < st.NumFields(); i++ {
		n := st.Field(i).Name()
		// only plain values and pointers to objects whose own mutation is internally synchronised or absent;
		// maps, slices and index objects are mutated through the reference, so they are never exempt
		switch st.Field(i).Type().Underlying().(type) {
		case *types.Map, *types.Slice:
			continue
		}
		_, isPtr := st.Field(i).Type().Underlying().(*types.Pointer)
		if !mutable[n] && !(isPtr && isIndexObjectType(st.Field(i).Type())) {
			immDBMemo[n] = true
		}
	}
	return immDBMemo
}

func isIndexObjectType(t types.Type) bool {
	n := namedOf(t)
	if n == nil || n.Obj().Pkg() == nil {
		return false
	}
	return strings.HasPrefix(n.Obj().Pkg().Path(), modPath)
}

// finishesTx: every path through w from its entry to a return passes Tx.<name>(p) (directly or through
// another such wrapper): w releases the transaction it is handed.
func finishesTx(c *Ctx, w *ssa.Function, p *ssa.Parameter, name string, depth int) bool {
	if depth > 2 || len(w.Blocks) == 0 {
		return false
	}
	is := func(in ssa.Instruction) bool {
		cc := callOf(in)
		if cc == nil {
			return false
		}
		if calleeIs(cc, modPath, "Tx", name) && len(cc.Args) > 0 && sameValue(cc.Args[0], p) {
			return true
		}
		if cal := cc.StaticCallee(); cal != nil && cal != w && c.P.inModule(cal) && cal.Blocks != nil {
			for j, a := range cc.Args {
				if sameValue(a, p) && j < len(cal.Params) && finishesTx(c, cal, cal.Params[j], name, depth+1) {
					return true
				}
			}
		}
		return false
	}
	isRet := func(in ssa.Instruction) bool { _, ok := in.(*ssa.Return); return ok }
	return findPath(w, nil, isRet, is, nil) == nil
}

// R-LOCKPAIR: a function that takes the database lock directly (not through a transaction) gives
// it back on every path to a return - by the matching unlock call or by a deferred one that was
// registered before the return. An exit that keeps the lock blocks every later writer forever
// (and, once a writer waits, every reader).
func ruleLockPair(c *Ctx) {
	n := 0
	for _, f := range c.P.SrcFuncs {
		if !c.P.inModule(f) || len(f.Blocks) == 0 {
			continue
		}
		tps := txParamsOf(f)
		k := 0
		calls(f, func(ci ssa.CallInstruction) {
			if _, isDefer := ci.(*ssa.Defer); isDefer {
				return
			}
			if _, isGo := ci.(*ssa.Go); isGo {
				return
			}
			cc := ci.Common()
			if !isMuCall(cc, "Lock", "RLock") {
				return
			}
			// operations reached through the transaction are the acquire half of Begin/Commit/Rollback (R-LOCKMAP, R-TXPAIR)
			if len(tps) > 0 {
				if root, _ := splitPath(cc.Args[0]); root == ssa.Value(tps[0]) {
					return
				}
			}
			n++
			k++
			c.touch(f)
			want := "Unlock"
			if cc.StaticCallee().Name() == "RLock" {
				want = "RUnlock"
			}
			p := findPath(f, ci.(ssa.Instruction), func(in ssa.Instruction) bool { _, ok := in.(*ssa.Return); return ok }, func(in ssa.Instruction) bool {
				cc2 := callOf(in)
				return cc2 != nil && isMuCall(cc2, want)
			}, nil)
			c.check(p == nil, fnName(f), fmt.Sprintf("mu.%s #%d is released on every path to a return", cc.StaticCallee().Name(), k), c.P.ipos(ci), "",
				fmt.Sprintf("a path from this mu.%s reaches a return without mu.%s (and without a deferred one): the function exits holding the database lock, every later write transaction - and Close - blocks forever, and once a writer waits so does every reader", cc.StaticCallee().Name(), want), c.witnessOf(p)...)
		})
	}
	c.Sites += n
	c.minInstances("direct acquisitions of the database lock outside transactions", n, 1)
}
