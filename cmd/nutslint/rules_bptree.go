package main

import (
	"fmt"
	"go/types"

	"golang.org/x/tools/go/ssa"
)

// ---------------------------------------------------------------------------
// R-LEAFCHAIN: the in-memory B+ tree's leaves form a singly linked list through a
// fixed slot of Node.pointers. All scans (GetAll, RangeScan, PrefixScan,
// PrefixSearchScan in the RAM modes and the active index of sparse mode) walk that
// list, so a leaf that is not linked is invisible to every scan although Get still
// finds its keys by descent.
//
// Decided structurally:
//   (a) every chain walker advances through the same constant slot L;
//   (b) L is the last slot of the pointers slice allocated for a node and lies above
//       every record slot (L >= len(Keys));
//   (c) every store that attaches a node N into the link slot of an existing node X
//       is a list splice: N is freshly allocated in this function, and on every path
//       to the store either N's link slot received the value loaded from X's link slot
//       (N.link = X.link, read before the attach) or X's link is known nil on that path;
//   (d) the link slot is written nowhere else with a constant index.

// slotAddr recognises &base.pointers[c] for a constant c.
func slotAddr(v ssa.Value) (base ssa.Value, c int64, ok bool) {
	ia, isIA := v.(*ssa.IndexAddr)
	if !isIA {
		return nil, 0, false
	}
	ci, isC := constInt(ia.Index)
	if !isC {
		return nil, 0, false
	}
	ld, isLd := ia.X.(*ssa.UnOp)
	if !isLd {
		return nil, 0, false
	}
	fa, isFA := ld.X.(*ssa.FieldAddr)
	if !isFA {
		return nil, 0, false
	}
	fv := fieldVarOf(fa)
	if fv == nil || fv.Name() != "pointers" {
		return nil, 0, false
	}
	n := namedOf(derefT(fa.X.Type()))
	if n == nil || n.Obj().Name() != "Node" || n.Obj().Pkg() == nil || n.Obj().Pkg().Path() != modPath {
		return nil, 0, false
	}
	return resolve1(fa.X), ci, true
}

func isBPTNodePtr(t types.Type) bool {
	p, ok := t.(*types.Pointer)
	if !ok {
		return false
	}
	n := namedOf(p.Elem())
	return n != nil && n.Obj().Name() == "Node" && n.Obj().Pkg() != nil && n.Obj().Pkg().Path() == modPath
}

func unwrapIface(v ssa.Value) ssa.Value {
	for {
		switch x := v.(type) {
		case *ssa.MakeInterface:
			v = x.X
		case *ssa.ChangeInterface:
			v = x.X
		default:
			return v
		}
	}
}

func ruleLeafChain(c *Ctx) {
	// (a) chain walkers: loads of a constant slot asserted to *Node
	type linkRead struct {
		fn   *ssa.Function
		in   ssa.Instruction
		slot int64
	}
	var reads []linkRead
	for _, f := range c.P.SrcFuncs {
		if f.Pkg == nil || f.Pkg.Pkg.Path() != modPath {
			continue
		}
		instrs(f, func(in ssa.Instruction) {
			ta, ok := in.(*ssa.TypeAssert)
			if !ok || !isBPTNodePtr(ta.AssertedType) {
				return
			}
			ld, ok := ta.X.(*ssa.UnOp)
			if !ok {
				return
			}
			if _, slot, ok := slotAddr(ld.X); ok {
				reads = append(reads, linkRead{f, in, slot})
			}
		})
	}
	c.Sites += len(reads)
	c.minInstances("leaf-chain advances (constant pointer slot asserted to *Node)", len(reads), 4)
	if len(reads) == 0 {
		return
	}
	L := reads[0].slot
	walkers := map[*ssa.Function]bool{}
	for _, r := range reads {
		c.touch(r.fn)
		walkers[r.fn] = true
		c.check(r.slot == L, fnName(r.fn), "advances through the common link slot", c.P.ipos(r.in), fmt.Sprintf("slot %d", r.slot),
			fmt.Sprintf("this walker follows pointers[%d] while %s follows pointers[%d]: one of them does not walk the leaf chain", r.slot, fnName(reads[0].fn), L))
	}
	// every walker's advance feeds the node it walks next (the value reaches a phi that is the base of the same load)
	// (b) allocation sizes
	var ptrLen, keyLen int64 = -1, -1
	var allocPos string
	for _, f := range c.P.SrcFuncs {
		if f.Pkg == nil || f.Pkg.Pkg.Path() != modPath {
			continue
		}
		instrs(f, func(in ssa.Instruction) {
			st, ok := in.(*ssa.Store)
			if !ok {
				return
			}
			fa, ok := st.Addr.(*ssa.FieldAddr)
			if !ok {
				return
			}
			fv := fieldVarOf(fa)
			n := namedOf(derefT(fa.X.Type()))
			if fv == nil || n == nil || n.Obj().Name() != "Node" || n.Obj().Pkg().Path() != modPath {
				return
			}
			var l int64
			switch ms := st.Val.(type) {
			case *ssa.MakeSlice:
				v, ok := constInt(ms.Len)
				if !ok {
					return
				}
				l = v
			case *ssa.Slice: // make with constant length is lowered to new([n]T)[:]
				al, ok := ms.X.(*ssa.Alloc)
				if !ok || ms.Low != nil {
					return
				}
				arr, ok := derefT(al.Type()).Underlying().(*types.Array)
				if !ok {
					return
				}
				l = arr.Len()
				if ms.High != nil {
					h, ok := constInt(ms.High)
					if !ok {
						return
					}
					l = h
				}
			default:
				return
			}
			switch fv.Name() {
			case "pointers":
				ptrLen = l
				allocPos = c.P.ipos(in)
				c.touch(f)
			case "Keys":
				keyLen = l
			}
		})
	}
	if ptrLen < 0 || keyLen < 0 {
		c.undecided("Node allocation", "constant lengths of Node.pointers and Node.Keys", "", "no make([]..., const) stored into Node.pointers / Node.Keys was found")
	} else {
		c.check(L == ptrLen-1 && L >= keyLen, "Node allocation", "link slot is the last pointer slot and lies above every record slot", allocPos,
			fmt.Sprintf("link slot %d, len(pointers)=%d, len(Keys)=%d", L, ptrLen, keyLen),
			fmt.Sprintf("link slot %d with len(pointers)=%d and len(Keys)=%d: the chain link would be out of range or overwritten by a record pointer", L, ptrLen, keyLen))
	}
	// (c)/(d) stores into the link slot
	nAttach, nInherit := 0, 0
	for _, f := range c.P.SrcFuncs {
		if f.Pkg == nil || f.Pkg.Pkg.Path() != modPath {
			continue
		}
		type lstore struct {
			st   *ssa.Store
			base ssa.Value
		}
		var stores []lstore
		instrs(f, func(in ssa.Instruction) {
			st, ok := in.(*ssa.Store)
			if !ok {
				return
			}
			if base, slot, ok := slotAddr(st.Addr); ok && slot == L {
				stores = append(stores, lstore{st, base})
			}
		})
		if len(stores) == 0 {
			continue
		}
		c.touch(f)
		// inherit stores: N.link = load(X.link)
		type inherit struct {
			st       *ssa.Store
			dst, src ssa.Value
			load     ssa.Instruction
		}
		var inh []inherit
		var attach []lstore
		for _, s := range stores {
			v := unwrapIface(s.st.Val)
			if ld, ok := v.(*ssa.UnOp); ok {
				if src, slot, ok := slotAddr(ld.X); ok && slot == L {
					inh = append(inh, inherit{s.st, s.base, src, ld})
					continue
				}
			}
			attach = append(attach, s)
		}
		nInherit += len(inh)
		for i, s := range attach {
			nAttach++
			detail := fmt.Sprintf("attach #%d into the link slot of %s", i+1, dispRoot(s.base))
			v := resolve1(unwrapIface(s.st.Val))
			if isNilConst(v) {
				// clearing the link is only sound for a node with no successor: not an idiom of this code base
				c.bad(fnName(f), detail, c.P.ipos(s.st), "the leaf-chain link of an existing node is set to nil: every leaf after it becomes unreachable for scans")
				continue
			}
			if !isBPTNodePtr(v.Type()) {
				c.bad(fnName(f), detail, c.P.ipos(s.st), fmt.Sprintf("a value of type %s is stored into the leaf-chain link slot", v.Type()))
				continue
			}
			call, isCall := v.(*ssa.Call)
			if !isCall || !returnsFreshNode(call.Call.StaticCallee(), 0) {
				c.bad(fnName(f), detail, c.P.ipos(s.st), "the node linked after "+dispRoot(s.base)+" is not freshly allocated in this function: linking an existing node can drop or duplicate leaves in the chain")
				continue
			}
			// find the matching inherit store
			var match *inherit
			for k := range inh {
				if sameValue(resolve1(inh[k].dst), v) && sameValue(resolve1(inh[k].src), resolve1(s.base)) {
					match = &inh[k]
				}
			}
			nilE := nilEdges(f, true, func(x ssa.Value) bool {
				ld, ok := x.(*ssa.UnOp)
				if !ok {
					return false
				}
				b, slot, ok := slotAddr(ld.X)
				return ok && slot == L && sameValue(resolve1(b), resolve1(s.base))
			})
			prune := func(b *ssa.BasicBlock, si int) bool {
				for _, e := range nilE {
					if e.b == b && e.si == si {
						return true
					}
				}
				return false
			}
			path := findPath(f, nil, func(in ssa.Instruction) bool { return in == ssa.Instruction(s.st) },
				func(in ssa.Instruction) bool { return match != nil && in == ssa.Instruction(match.st) }, prune)
			if path != nil {
				msg := "the new node is linked after " + dispRoot(s.base) + " without first inheriting that node's successor (new.pointers[L] = old.pointers[L]); when the split leaf is not the right-most one, every leaf after it disappears from GetAll/RangeScan/PrefixScan while Get still finds the keys"
				c.bad(fnName(f), detail, c.P.ipos(s.st), msg, c.witnessOf(path)...)
				continue
			}
			// the inherited value must have been read before the attach overwrote it
			if match != nil {
				bad := findPath(f, s.st, func(in ssa.Instruction) bool { return in == match.load }, nil, nil)
				if bad != nil {
					c.bad(fnName(f), detail, c.P.ipos(s.st), "the old link is read after it was overwritten with the new node: the new leaf would point to itself", c.witnessOf(bad)...)
					continue
				}
			}
			c.ok(fnName(f), detail, c.P.ipos(s.st), "splice: new.link = old.link (or old.link == nil) on every path, then old.link = new")
		}
		for k, h := range inh {
			// an inherit store must target a fresh node (never rewires an existing one)
			d := resolve1(h.dst)
			call, isCall := d.(*ssa.Call)
			c.check(isCall && returnsFreshNode(call.Call.StaticCallee(), 0), fnName(f), fmt.Sprintf("link copy #%d targets a freshly allocated node", k+1), c.P.ipos(h.st), "",
				"the link slot of an existing node is overwritten with another node's link")
		}
	}
	c.minInstances("leaf-chain attach stores", nAttach, 1)
	_ = nInherit
}

// returnsFreshNode: every return of f yields a node allocated in f or by a callee with the same property.
func returnsFreshNode(f *ssa.Function, depth int) bool {
	if f == nil || len(f.Blocks) == 0 || depth > 4 {
		return false
	}
	rets := returnsOf(f)
	if len(rets) == 0 {
		return false
	}
	for _, r := range rets {
		if len(r.Results) != 1 {
			return false
		}
		for _, v := range resolve(r.Results[0]) {
			switch x := v.(type) {
			case *ssa.Alloc:
				if !x.Heap {
					return false
				}
			case *ssa.Call:
				if !returnsFreshNode(x.Call.StaticCallee(), depth+1) {
					return false
				}
			default:
				return false
			}
		}
	}
	return true
}

// ---------------------------------------------------------------------------
// R-REGEX-REMAINDER (C03): PrefixSearchScan selects the keys "whose remainder matches":
// every regular-expression match in the cone of Tx.PrefixSearchScan is applied to the
// scanned key with the scan prefix stripped (bytes.TrimPrefix(key, prefix) or key[len(prefix):]),
// and that key is the one tested with bytes.HasPrefix against the same prefix.

func ruleRegexRemainder(c *Ctx) {
	api := c.P.MustFunc("(*Tx).PrefixSearchScan")
	n := 0
	for _, f := range c.P.ModCone(api) {
		calls(f, func(ci ssa.CallInstruction) {
			cal := ci.Common().StaticCallee()
			if cal == nil || cal.Pkg == nil || cal.Pkg.Pkg.Path() != "regexp" || cal.Signature.Recv() == nil {
				return
			}
			name := cal.Name()
			if len(name) < 4 || (name[:4] != "Matc" && name[:4] != "Find") {
				return
			}
			args := argsOf(ci.Common())
			if len(args) == 0 {
				return
			}
			n++
			c.touch(f)
			subject := resolve1(stripConv(args[0]))
			detail := fmt.Sprintf("regexp %s #%d receives the key remainder", name, n)
			okb, why := false, "the expression is matched against a value that is not the scanned key with the scan prefix removed: anchored expressions never match and text inside the prefix (or bucket) can match"
			var key, prefix ssa.Value
			switch x := subject.(type) {
			case *ssa.Call:
				if calleeIs(x.Common(), "bytes", "", "TrimPrefix") || calleeIs(x.Common(), "strings", "", "TrimPrefix") {
					key, prefix = resolve1(x.Call.Args[0]), resolve1(x.Call.Args[1])
				}
			case *ssa.Slice:
				if x.Low != nil && x.High == nil {
					if lc, ok := resolve1(x.Low).(*ssa.Call); ok {
						if b, ok := lc.Call.Value.(*ssa.Builtin); ok && b.Name() == "len" {
							key, prefix = resolve1(x.X), resolve1(lc.Call.Args[0])
						}
					}
				}
			}
			if key != nil {
				// the same (key, prefix) pair must be the one tested by HasPrefix in this function
				has := false
				calls(f, func(cj ssa.CallInstruction) {
					cc := cj.Common()
					if calleeIs(cc, "bytes", "", "HasPrefix") || calleeIs(cc, "strings", "", "HasPrefix") {
						if pathOf(cc.Args[0]) == pathOf(key) && sameValue(resolve1(cc.Args[1]), prefix) {
							has = true
						}
					}
				})
				_, isParam := prefix.(*ssa.Parameter)
				if !isParam {
					why = "the prefix removed before matching is not the scan's prefix parameter"
				} else if !has {
					why = "the key whose remainder is matched is not the key tested with HasPrefix against the same prefix"
				} else {
					okb = true
				}
			}
			c.check(okb, fnName(f), detail, c.P.ipos(ci), "TrimPrefix(key, prefix) of the HasPrefix-tested key", why)
		})
	}
	c.Sites += n
	c.minInstances("regular-expression matches in the PrefixSearchScan cone", n, 2)
}

// ---------------------------------------------------------------------------
// R-METARANGE (C02): a bucket's persisted key range [start,end] (sparse mode; GetAll is
// RangeScan(start,end)) is maintained by two conditional updates, "new minimum" and "new
// maximum". One transaction can bring both, so the two updates of one BucketMeta must not be
// mutually exclusive: some path has to perform both.

func ruleMetaRange(c *Ctx) {
	n := 0
	for _, f := range c.P.SrcFuncs {
		if f.Pkg == nil || f.Pkg.Pkg.Path() != modPath {
			continue
		}
		type st struct {
			s    *ssa.Store
			base ssa.Value
		}
		var starts, ends []st
		instrs(f, func(in ssa.Instruction) {
			s, ok := in.(*ssa.Store)
			if !ok {
				return
			}
			fa, ok := s.Addr.(*ssa.FieldAddr)
			if !ok {
				return
			}
			fv := fieldVarOf(fa)
			nm := namedOf(derefT(fa.X.Type()))
			if fv == nil || nm == nil || nm.Obj().Name() != "BucketMeta" {
				return
			}
			base := resolve1(fa.X)
			if al, ok := base.(*ssa.Alloc); ok && al.Comment == "complit" {
				return // initialisation of a fresh value
			}
			switch fv.Name() {
			case "start":
				starts = append(starts, st{s, base})
			case "end":
				ends = append(ends, st{s, base})
			}
		})
		// a block that stores both bounds initialises the range (first key of a bucket / of a transaction);
		// the conditional updates are the stores that stand alone in their block
		both := map[*ssa.BasicBlock]int{}
		for _, a := range starts {
			both[a.s.Block()] |= 1
		}
		for _, b := range ends {
			both[b.s.Block()] |= 2
		}
		for _, a := range starts {
			if both[a.s.Block()] == 3 {
				continue
			}
			for _, b := range ends {
				if both[b.s.Block()] == 3 {
					continue
				}
				if pathOf(a.s.Addr.(*ssa.FieldAddr).X) != pathOf(b.s.Addr.(*ssa.FieldAddr).X) && !sameValue(a.base, b.base) {
					continue
				}
				n++
				c.touch(f)
				is := func(x *ssa.Store) func(ssa.Instruction) bool {
					return func(in ssa.Instruction) bool { return in == ssa.Instruction(x) }
				}
				both := findPath(f, a.s, is(b.s), nil, nil) != nil || findPath(f, b.s, is(a.s), nil, nil) != nil
				c.check(both, fnName(f), fmt.Sprintf("range update pair #%d: lowering start and raising end are not mutually exclusive", n), c.P.ipos(a.s), "",
					"no path updates both BucketMeta.start and BucketMeta.end: a transaction that writes a key below the bucket's minimum and a key above its maximum leaves one bound stale, and sparse-mode GetAll (RangeScan(start,end)) silently omits the keys outside it")
			}
		}
	}
	c.Sites += n
	c.minInstances("conditional start/end update pairs of BucketMeta", n, 2)
}
