package main

import (
	"fmt"
	"go/constant"
	"go/token"
	"go/types"
	"sort"
	"strings"

	"golang.org/x/tools/go/ssa"
)

// ---------------------------------------------------------------------------
// Block reachability with removed edges / blocks

type succEdge struct {
	b  *ssa.BasicBlock
	si int
}

// reachFrom returns the blocks reachable from start (inclusive) without taking
// any edge for which skip returns true.
func reachFrom(start *ssa.BasicBlock, skip func(b *ssa.BasicBlock, si int) bool) map[*ssa.BasicBlock]bool {
	seen := map[*ssa.BasicBlock]bool{start: true}
	work := []*ssa.BasicBlock{start}
	for len(work) > 0 {
		b := work[len(work)-1]
		work = work[:len(work)-1]
		for si, s := range b.Succs {
			if skip != nil && skip(b, si) {
				continue
			}
			if !seen[s] {
				seen[s] = true
				work = append(work, s)
			}
		}
	}
	return seen
}

// edgeDominates reports whether every path from the function entry to block
// sink takes one of the given edges.
func edgesDominate(fn *ssa.Function, edges []succEdge, sink *ssa.BasicBlock) bool {
	if len(fn.Blocks) == 0 {
		return false
	}
	if len(edges) == 0 {
		return false
	}
	r := reachFrom(fn.Blocks[0], func(b *ssa.BasicBlock, si int) bool {
		for _, e := range edges {
			if e.b == b && e.si == si {
				return true
			}
		}
		return false
	})
	return !r[sink]
}

func blockReachable(fn *ssa.Function, b *ssa.BasicBlock) bool {
	return reachFrom(fn.Blocks[0], nil)[b]
}

func instrIndex(in ssa.Instruction) int {
	for i, x := range in.Block().Instrs {
		if x == in {
			return i
		}
	}
	return -1
}

// findPath searches forward from just after `from` (or from the function entry
// if from is nil) for an instruction satisfying target, never crossing an
// instruction satisfying barrier and never taking a pruned edge. It returns
// the witness (list of call/store/if/return instructions on the path) or nil.
func findPath(fn *ssa.Function, from ssa.Instruction, target, barrier func(ssa.Instruction) bool, prune func(b *ssa.BasicBlock, si int) bool) []ssa.Instruction {
	type node struct {
		b    *ssa.BasicBlock
		prev *node
		via  ssa.Instruction
	}
	var startB *ssa.BasicBlock
	startIdx := 0
	if from != nil {
		startB = from.Block()
		startIdx = instrIndex(from) + 1
	} else {
		startB = fn.Blocks[0]
	}
	build := func(n *node, last ssa.Instruction) []ssa.Instruction {
		var rev []ssa.Instruction
		rev = append(rev, last)
		for x := n; x != nil; x = x.prev {
			if x.via != nil {
				rev = append(rev, x.via)
			}
		}
		if from != nil {
			rev = append(rev, from)
		}
		for i, j := 0, len(rev)-1; i < j; i, j = i+1, j-1 {
			rev[i], rev[j] = rev[j], rev[i]
		}
		return rev
	}
	seen := map[*ssa.BasicBlock]bool{}
	work := []*node{{b: startB}}
	first := true
	for len(work) > 0 {
		n := work[0]
		work = work[1:]
		idx := 0
		if first {
			idx = startIdx
			first = false
		} else {
			if seen[n.b] {
				continue
			}
			seen[n.b] = true
		}
		blocked := false
		for _, in := range n.b.Instrs[idx:] {
			if target(in) {
				return build(n, in)
			}
			if barrier != nil && barrier(in) {
				blocked = true
				break
			}
		}
		if blocked {
			continue
		}
		var last ssa.Instruction
		if len(n.b.Instrs) > 0 {
			last = n.b.Instrs[len(n.b.Instrs)-1]
		}
		for si, s := range n.b.Succs {
			if prune != nil && prune(n.b, si) {
				continue
			}
			if seen[s] {
				continue
			}
			work = append(work, &node{b: s, prev: n, via: last})
		}
	}
	return nil
}

// ---------------------------------------------------------------------------
// Local memory resolution (named results and locals spilled because of defer
// or address-taking): a flow-sensitive reaching-stores analysis on Allocs
// whose address does not escape.

type funcMem struct {
	fn      *ssa.Function
	simple  map[*ssa.Alloc]bool
	in      map[*ssa.Alloc]map[*ssa.BasicBlock]map[ssa.Value]bool
	zeroVal map[*ssa.Alloc]ssa.Value
}

var memCache = map[*ssa.Function]*funcMem{}

type zeroValue struct {
	ssa.Value
	t types.Type
}

func (z *zeroValue) Type() types.Type { return z.t }
func (z *zeroValue) Name() string     { return "zero" }
func (z *zeroValue) String() string   { return "zero:" + z.t.String() }
func (z *zeroValue) Pos() token.Pos   { return token.NoPos }
func (z *zeroValue) Parent() *ssa.Function {
	return nil
}
func (z *zeroValue) Referrers() *[]ssa.Instruction { return nil }

func memOf(fn *ssa.Function) *funcMem {
	if m, ok := memCache[fn]; ok {
		return m
	}
	m := &funcMem{fn: fn, simple: map[*ssa.Alloc]bool{}, in: map[*ssa.Alloc]map[*ssa.BasicBlock]map[ssa.Value]bool{}, zeroVal: map[*ssa.Alloc]ssa.Value{}}
	memCache[fn] = m
	for _, b := range fn.Blocks {
		for _, in := range b.Instrs {
			a, ok := in.(*ssa.Alloc)
			if !ok {
				continue
			}
			simple := true
			for _, r := range *a.Referrers() {
				switch r := r.(type) {
				case *ssa.Store:
					if r.Addr != a || r.Val == a {
						simple = false
					}
				case *ssa.UnOp:
					if r.Op != token.MUL {
						simple = false
					}
				case *ssa.DebugRef:
				default:
					simple = false
				}
			}
			if simple {
				m.simple[a] = true
			}
		}
	}
	for a := range m.simple {
		m.zeroVal[a] = &zeroValue{t: a.Type().(*types.Pointer).Elem()}
		// forward dataflow
		out := map[*ssa.BasicBlock]map[ssa.Value]bool{}
		in := map[*ssa.BasicBlock]map[ssa.Value]bool{}
		for _, b := range fn.Blocks {
			in[b] = map[ssa.Value]bool{}
			out[b] = map[ssa.Value]bool{}
		}
		if len(fn.Blocks) > 0 {
			in[fn.Blocks[0]][m.zeroVal[a]] = true
		}
		changed := true
		for changed {
			changed = false
			for _, b := range fn.Blocks {
				for _, p := range b.Preds {
					for v := range out[p] {
						if !in[b][v] {
							in[b][v] = true
							changed = true
						}
					}
				}
				var last ssa.Value
				for _, ins := range b.Instrs {
					if st, ok := ins.(*ssa.Store); ok && st.Addr == a {
						last = st.Val
					}
					if al, ok := ins.(*ssa.Alloc); ok && al == a {
						last = m.zeroVal[a]
					}
				}
				var no map[ssa.Value]bool
				if last != nil {
					no = map[ssa.Value]bool{last: true}
				} else {
					no = in[b]
				}
				for v := range no {
					if !out[b][v] {
						out[b][v] = true
						changed = true
					}
				}
				if last != nil && len(out[b]) != 1 {
					out[b] = map[ssa.Value]bool{last: true}
				}
			}
		}
		m.in[a] = in
	}
	return m
}

// reaching returns the values that may be stored in the simple alloc a just
// before instruction at; ok=false if a is not a simple alloc.
func reaching(a *ssa.Alloc, at ssa.Instruction) ([]ssa.Value, bool) {
	fn := a.Parent()
	m := memOf(fn)
	if !m.simple[a] {
		return nil, false
	}
	b := at.Block()
	idx := instrIndex(at)
	for i := idx - 1; i >= 0; i-- {
		if st, ok := b.Instrs[i].(*ssa.Store); ok && st.Addr == a {
			return []ssa.Value{st.Val}, true
		}
		if al, ok := b.Instrs[i].(*ssa.Alloc); ok && al == a {
			return []ssa.Value{m.zeroVal[a]}, true
		}
	}
	var out []ssa.Value
	for v := range m.in[a][b] {
		out = append(out, v)
	}
	sort.Slice(out, func(i, j int) bool { return out[i].Name() < out[j].Name() })
	return out, true
}

// resolve follows loads of simple local allocs to the stored values; the
// result is the set of SSA values v may be equal to (v itself if opaque).
func resolve(v ssa.Value) []ssa.Value {
	return resolveDepth(v, 0, map[ssa.Value]bool{})
}

func resolveDepth(v ssa.Value, depth int, seen map[ssa.Value]bool) []ssa.Value {
	if seen[v] {
		return nil // a value re-encountered on a phi cycle contributes nothing new
	}
	if depth > 20 {
		return []ssa.Value{v}
	}
	seen[v] = true
	switch x := v.(type) {
	case *ssa.UnOp:
		if x.Op == token.MUL {
			if a, ok := x.X.(*ssa.Alloc); ok {
				if vals, ok := reaching(a, x); ok {
					var out []ssa.Value
					for _, r := range vals {
						out = append(out, resolveDepth(r, depth+1, seen)...)
					}
					return dedupVals(out)
				}
			}
		}
	case *ssa.Phi:
		var out []ssa.Value
		for _, e := range x.Edges {
			out = append(out, resolveDepth(e, depth+1, seen)...)
		}
		return dedupVals(out)
	case *ssa.ChangeType:
		return resolveDepth(x.X, depth+1, seen)
	case *ssa.MakeInterface:
		return []ssa.Value{v}
	}
	return []ssa.Value{v}
}

// resolve1 resolves through simple allocs only when the result is unique
// (phis are kept opaque).
func resolve1(v ssa.Value) ssa.Value {
	for i := 0; i < 20; i++ {
		switch x := v.(type) {
		case *ssa.UnOp:
			if x.Op == token.MUL {
				if a, ok := x.X.(*ssa.Alloc); ok {
					if vals, ok := reaching(a, x); ok && len(vals) == 1 {
						if _, isZero := vals[0].(*zeroValue); !isZero {
							v = vals[0]
							continue
						}
					}
				}
			}
		case *ssa.ChangeType:
			v = x.X
			continue
		}
		break
	}
	return v
}

func dedupVals(vs []ssa.Value) []ssa.Value {
	seen := map[ssa.Value]bool{}
	var out []ssa.Value
	for _, v := range vs {
		if !seen[v] {
			seen[v] = true
			out = append(out, v)
		}
	}
	return out
}

// ---------------------------------------------------------------------------
// Constants

func isNilConst(v ssa.Value) bool {
	if _, ok := v.(*zeroValue); ok {
		switch v.Type().Underlying().(type) {
		case *types.Pointer, *types.Interface, *types.Slice, *types.Map, *types.Signature, *types.Chan:
			return true
		}
		return false
	}
	c, ok := v.(*ssa.Const)
	return ok && c.Value == nil && !isNumericOrBoolOrString(c.Type())
}

func isNumericOrBoolOrString(t types.Type) bool {
	b, ok := t.Underlying().(*types.Basic)
	return ok && b.Info()&(types.IsNumeric|types.IsBoolean|types.IsString) != 0
}

func constInt(v ssa.Value) (int64, bool) {
	v = stripConv(v)
	if z, ok := v.(*zeroValue); ok {
		if b, ok := z.t.Underlying().(*types.Basic); ok && b.Info()&types.IsInteger != 0 {
			return 0, true
		}
		return 0, false
	}
	c, ok := v.(*ssa.Const)
	if !ok || c.Value == nil {
		return 0, false
	}
	if c.Value.Kind() != constant.Int {
		return 0, false
	}
	i, exact := constant.Int64Val(c.Value)
	if !exact {
		return 0, false
	}
	return i, true
}

func constBool(v ssa.Value) (bool, bool) {
	if z, ok := v.(*zeroValue); ok {
		if b, ok := z.t.Underlying().(*types.Basic); ok && b.Info()&types.IsBoolean != 0 {
			return false, true
		}
		return false, false
	}
	c, ok := v.(*ssa.Const)
	if !ok || c.Value == nil || c.Value.Kind() != constant.Bool {
		return false, false
	}
	return constant.BoolVal(c.Value), true
}

func constString(v ssa.Value) (string, bool) {
	c, ok := v.(*ssa.Const)
	if !ok || c.Value == nil || c.Value.Kind() != constant.String {
		return "", false
	}
	return constant.StringVal(c.Value), true
}

// stripConv removes integer/named conversions and ChangeType wrappers.
func stripConv(v ssa.Value) ssa.Value {
	for {
		switch x := v.(type) {
		case *ssa.Convert:
			// only strip numeric<->numeric and string<->[]byte conversions
			v = x.X
			continue
		case *ssa.ChangeType:
			v = x.X
			continue
		}
		return v
	}
}

// ---------------------------------------------------------------------------
// Access paths: a canonical rendering of "where a value was loaded from".

// fieldVar returns the struct field object addressed by a FieldAddr/Field.
func fieldVarOf(v ssa.Value) *types.Var {
	switch x := v.(type) {
	case *ssa.FieldAddr:
		st := x.X.Type().Underlying().(*types.Pointer).Elem().Underlying().(*types.Struct)
		return st.Field(x.Field)
	case *ssa.Field:
		st := x.X.Type().Underlying().(*types.Struct)
		return st.Field(x.Field)
	}
	return nil
}

// fieldOwner renders "Type.field" for a field var given the struct's named type.
func fieldQual(base types.Type, fv *types.Var) string {
	n := namedOf(base)
	if n == nil {
		return "?." + fv.Name()
	}
	return n.Obj().Name() + "." + fv.Name()
}

// pathOf renders v as root + field/index suffixes. Loads and address
// computations are collapsed: the path of &x.f and of *(&x.f) is "x.f".
// The root is an SSA value name (parameters by name).
func pathOf(v ssa.Value) string {
	root, sfx := splitPath(v)
	return rootName(root) + sfx
}

func rootName(root ssa.Value) string {
	switch r := root.(type) {
	case *ssa.Parameter:
		return r.Name()
	case *ssa.Global:
		return "global:" + r.Name()
	case *ssa.Const:
		return r.String()
	case *ssa.FreeVar:
		return "free:" + r.Name()
	case nil:
		return "?"
	}
	return root.Name()
}

// dispPath is pathOf with a position-independent rendering of local roots
// (used for obligation keys and messages, never for matching).
func dispPath(v ssa.Value) string {
	root, sfx := splitPath(v)
	return dispRoot(root) + sfx
}

func dispRoot(root ssa.Value) string {
	switch r := root.(type) {
	case *ssa.Parameter, *ssa.Global, *ssa.Const, *ssa.FreeVar, nil:
		return rootName(root)
	case *ssa.Extract:
		if c, ok := r.Tuple.(*ssa.Call); ok {
			return calleeName(&c.Call) + "()#" + fmt.Sprint(r.Index)
		}
		return "extract"
	case *ssa.Call:
		return calleeName(&r.Call) + "()"
	case *ssa.Alloc:
		return "new(" + types.TypeString(derefT(r.Type()), func(*types.Package) string { return "" }) + ")"
	case *ssa.Phi:
		if r.Comment != "" {
			return "var:" + r.Comment
		}
		return "phi"
	case *ssa.MakeSlice:
		return "make([])"
	case *ssa.MakeMap:
		return "make(map)"
	case *ssa.Slice:
		return dispPath(r.X) + "[:]"
	case *ssa.BinOp:
		return "(" + dispPath(r.X) + r.Op.String() + dispPath(r.Y) + ")"
	case *ssa.UnOp:
		return r.Op.String() + dispPath(r.X)
	case *ssa.Next:
		return "range-next"
	case *zeroValue:
		return "zero"
	}
	return fmt.Sprintf("%T", root)
}

func derefT(t types.Type) types.Type {
	if p, ok := t.Underlying().(*types.Pointer); ok {
		return p.Elem()
	}
	return t
}

func calleeName(c *ssa.CallCommon) string {
	if c.IsInvoke() {
		return types.TypeString(c.Value.Type(), func(*types.Package) string { return "" }) + "." + c.Method.Name()
	}
	if f := c.StaticCallee(); f != nil {
		if f.Pkg != nil && f.Pkg.Pkg.Path() != modPath && f.Signature.Recv() == nil {
			return f.Pkg.Pkg.Name() + "." + f.Name()
		}
		return fnName(f)
	}
	if b, ok := c.Value.(*ssa.Builtin); ok {
		return b.Name()
	}
	return "dynamic"
}

// splitPath returns the root value and the suffix (".f.g[k]") of v's access path.
func splitPath(v ssa.Value) (ssa.Value, string) {
	var parts []string
	for i := 0; i < 64; i++ {
		v = resolve1(v)
		switch x := v.(type) {
		case *ssa.UnOp:
			if x.Op == token.MUL {
				v = x.X
				continue
			}
		case *ssa.FieldAddr:
			parts = append(parts, "."+fieldVarOf(x).Name())
			v = x.X
			continue
		case *ssa.Field:
			parts = append(parts, "."+fieldVarOf(x).Name())
			v = x.X
			continue
		case *ssa.IndexAddr:
			parts = append(parts, "["+pathOf(x.Index)+"]")
			v = x.X
			continue
		case *ssa.Index:
			parts = append(parts, "["+pathOf(x.Index)+"]")
			v = x.X
			continue
		case *ssa.Lookup:
			if !x.CommaOk {
				parts = append(parts, "["+pathOf(x.Index)+"]")
				v = x.X
				continue
			}
		case *ssa.Extract:
			if lk, ok := x.Tuple.(*ssa.Lookup); ok && x.Index == 0 {
				parts = append(parts, "["+pathOf(lk.Index)+"]")
				v = lk.X
				continue
			}
		case *ssa.Convert:
			// string(x) / []byte(x) / integer widening keep the identity of the source for path purposes
			parts = append(parts, "")
			v = x.X
			continue
		}
		break
	}
	var sb strings.Builder
	for i := len(parts) - 1; i >= 0; i-- {
		sb.WriteString(parts[i])
	}
	return v, sb.String()
}

// lastField returns the field var of the last field selection on v's path
// (nil if v is not a field load), and the value of the struct it was taken from.
func lastField(v ssa.Value) (*types.Var, ssa.Value) {
	for i := 0; i < 32; i++ {
		v = resolve1(v)
		switch x := v.(type) {
		case *ssa.UnOp:
			if x.Op == token.MUL {
				v = x.X
				continue
			}
		case *ssa.Convert:
			v = x.X
			continue
		case *ssa.FieldAddr:
			return fieldVarOf(x), x.X
		case *ssa.Field:
			return fieldVarOf(x), x.X
		}
		return nil, nil
	}
	return nil, nil
}

// isFieldLoad reports whether v is a load of struct field owner.name.
func isFieldLoad(v ssa.Value, owner, name string) bool {
	fv, base := lastField(v)
	if fv == nil || fv.Name() != name {
		return false
	}
	n := namedOf(base.Type())
	return n != nil && n.Obj().Name() == owner
}

// ---------------------------------------------------------------------------
// Conditions

// A condAtom is one If instruction decomposed: cond = (X op Y) or a bare bool.
type condAtom struct {
	If  *ssa.If
	Op  token.Token // EQL, NEQ, LSS, ... or ILLEGAL for bare boolean X
	X   ssa.Value
	Y   ssa.Value
	Neg bool // cond is !(...)
}

func decomposeIf(i *ssa.If) condAtom {
	c := condAtom{If: i}
	v := i.Cond
	for {
		if u, ok := v.(*ssa.UnOp); ok && u.Op == token.NOT {
			c.Neg = !c.Neg
			v = u.X
			continue
		}
		break
	}
	if b, ok := v.(*ssa.BinOp); ok {
		switch b.Op {
		case token.EQL, token.NEQ, token.LSS, token.LEQ, token.GTR, token.GEQ:
			c.Op, c.X, c.Y = b.Op, b.X, b.Y
			return c
		}
	}
	c.Op, c.X = token.ILLEGAL, v
	return c
}

// trueEdge returns the successor index taken when (X op Y)/X holds.
func (c condAtom) holdsEdge() int {
	if c.Neg {
		return 1
	}
	return 0
}

func ifsOf(fn *ssa.Function) []*ssa.If {
	var out []*ssa.If
	for _, b := range fn.Blocks {
		if len(b.Instrs) == 0 {
			continue
		}
		if i, ok := b.Instrs[len(b.Instrs)-1].(*ssa.If); ok {
			out = append(out, i)
		}
	}
	return out
}

// eqEdges collects, over the whole function, the edges on which `match(x,y)`
// is known EQUAL (eq=true) or known NOT EQUAL (eq=false), for If conditions of
// the form x==y / x!=y where match accepts the operand pair in either order.
func eqEdges(fn *ssa.Function, eq bool, match func(x, y ssa.Value) bool) []succEdge {
	var out []succEdge
	for _, i := range ifsOf(fn) {
		c := decomposeIf(i)
		if c.Op != token.EQL && c.Op != token.NEQ {
			continue
		}
		if !(match(c.X, c.Y) || match(c.Y, c.X)) {
			continue
		}
		// edge on which X==Y holds
		isEq := c.Op == token.EQL
		if c.Neg {
			isEq = !isEq
		}
		si := 0
		if isEq != eq {
			si = 1
		}
		// si is the successor where the relation "equal == eq" holds
		if isEq == eq {
			si = 0
		} else {
			si = 1
		}
		out = append(out, succEdge{i.Block(), si})
	}
	return out
}

// boolEdges collects edges on which a bare boolean condition matching `match`
// is known to be val.
func boolEdges(fn *ssa.Function, val bool, match func(x ssa.Value) bool) []succEdge {
	var out []succEdge
	for _, i := range ifsOf(fn) {
		c := decomposeIf(i)
		if c.Op != token.ILLEGAL {
			// x == true / x == false forms
			if c.Op == token.EQL || c.Op == token.NEQ {
				var bv bool
				var ok bool
				var other ssa.Value
				if bv, ok = constBool(c.Y); ok {
					other = c.X
				} else if bv, ok = constBool(c.X); ok {
					other = c.Y
				}
				if ok && match(other) {
					holds := (c.Op == token.EQL) == bv // edge 0 means other==true?
					if c.Neg {
						holds = !holds
					}
					// on succ 0 the value of `other` is `holds`
					si := 0
					if holds != val {
						si = 1
					}
					out = append(out, succEdge{i.Block(), si})
				}
			}
			continue
		}
		if !match(c.X) {
			continue
		}
		// succ0: X is !Neg
		si := 0
		if (!c.Neg) != val {
			si = 1
		}
		out = append(out, succEdge{i.Block(), si})
	}
	return out
}

// nilEdges: edges on which value matching `match` is known nil (isNil=true) or non-nil.
func nilEdges(fn *ssa.Function, isNil bool, match func(x ssa.Value) bool) []succEdge {
	return eqEdges(fn, isNil, func(x, y ssa.Value) bool { return isNilConst(y) && match(x) })
}

// ---------------------------------------------------------------------------
// Returns

type retKind int

const (
	retNil retKind = iota
	retNonNil
	retUnknown
)

func (k retKind) String() string { return [...]string{"nil", "non-nil", "unknown"}[k] }

// returnsOf lists the Return instructions of fn that are reachable from entry
// (the synthetic recover block is ignored).
func returnsOf(fn *ssa.Function) []*ssa.Return {
	var out []*ssa.Return
	if len(fn.Blocks) == 0 {
		return nil
	}
	r := reachFrom(fn.Blocks[0], nil)
	for _, b := range fn.Blocks {
		if !r[b] || b == fn.Recover {
			continue
		}
		if len(b.Instrs) == 0 {
			continue
		}
		if ret, ok := b.Instrs[len(b.Instrs)-1].(*ssa.Return); ok {
			out = append(out, ret)
		}
	}
	return out
}

// errResultIndex returns the index of the (last) result of type error, or -1.
func errResultIndex(fn *ssa.Function) int {
	res := fn.Signature.Results()
	for i := res.Len() - 1; i >= 0; i-- {
		if isErrorType(res.At(i).Type()) {
			return i
		}
	}
	return -1
}

func isErrorType(t types.Type) bool {
	n, ok := t.(*types.Named)
	return ok && n.Obj().Pkg() == nil && n.Obj().Name() == "error"
}

// classifyRetOperand says whether result idx of ret is certainly nil,
// certainly non-nil, or unknown.
func classifyRetOperand(ret *ssa.Return, idx int) retKind {
	if idx < 0 || idx >= len(ret.Results) {
		return retUnknown
	}
	vals := resolve(ret.Results[idx])
	fn := ret.Parent()
	allNil, allNon := true, true
	for _, v := range vals {
		k := classifyValueAt(fn, v, ret.Block())
		if k != retNil {
			allNil = false
		}
		if k != retNonNil {
			allNon = false
		}
	}
	switch {
	case allNil:
		return retNil
	case allNon:
		return retNonNil
	}
	return retUnknown
}

// classifyValueAt: is v nil / non-nil when control is in block at?
func classifyValueAt(fn *ssa.Function, v ssa.Value, at *ssa.BasicBlock) retKind {
	if isNilConst(v) {
		return retNil
	}
	switch x := v.(type) {
	case *ssa.MakeInterface:
		return retNonNil
	case *ssa.Alloc:
		return retNonNil
	case *ssa.UnOp:
		if x.Op == token.MUL {
			if g, ok := x.X.(*ssa.Global); ok && isErrorType(derefT(g.Type())) {
				// package-level sentinel errors (initialised with errors.New, never nil)
				return retNonNil
			}
		}
	case *ssa.Call:
		if c := x.Call.StaticCallee(); c != nil {
			full := c.String()
			if full == "errors.New" || full == "fmt.Errorf" {
				return retNonNil
			}
			// module helper that always returns a fresh error (ErrBucketAndKey, ...)
			if c.Blocks != nil && c.Signature.Results().Len() == 1 && isErrorType(c.Signature.Results().At(0).Type()) {
				all := true
				for _, r := range returnsOf(c) {
					if classifyRetOperand(r, 0) != retNonNil {
						all = false
					}
				}
				if all && len(returnsOf(c)) > 0 {
					return retNonNil
				}
			}
		}
	}
	// guarded by v != nil / v == nil ?
	match := func(x ssa.Value) bool { return sameValue(x, v) }
	if edgesDominate(fn, nilEdges(fn, false, match), at) {
		return retNonNil
	}
	if edgesDominate(fn, nilEdges(fn, true, match), at) {
		return retNil
	}
	return retUnknown
}

// sameValue: identical SSA value, or loads that resolve to the same unique value.
func sameValue(a, b ssa.Value) bool {
	if a == b {
		return true
	}
	ra, rb := resolve1(a), resolve1(b)
	return ra == rb
}

// ---------------------------------------------------------------------------
// Linear normaliser over integer SSA values

type lin struct {
	terms map[string]int64
	c     int64
}

func (l lin) String() string {
	var ks []string
	for k, v := range l.terms {
		if v != 0 {
			ks = append(ks, fmt.Sprintf("%+d*%s", v, k))
		}
	}
	sort.Strings(ks)
	return strings.Join(ks, "") + fmt.Sprintf("%+d", l.c)
}

func (l lin) isConst() bool {
	for _, v := range l.terms {
		if v != 0 {
			return false
		}
	}
	return true
}

func linAdd(a, b lin, sign int64) lin {
	r := lin{terms: map[string]int64{}, c: a.c + sign*b.c}
	for k, v := range a.terms {
		r.terms[k] += v
	}
	for k, v := range b.terms {
		r.terms[k] += sign * v
	}
	for k, v := range r.terms {
		if v == 0 {
			delete(r.terms, k)
		}
	}
	return r
}

func linScale(a lin, k int64) lin {
	r := lin{terms: map[string]int64{}, c: a.c * k}
	for s, v := range a.terms {
		if v*k != 0 {
			r.terms[s] = v * k
		}
	}
	return r
}

func linEq(a, b lin) bool { return linAdd(a, b, -1).String() == "+0" }

// linOf normalises an integer-valued SSA value. sym maps opaque leaves to
// symbol names (default: access path).
func linOf(v ssa.Value, sym func(ssa.Value) string) lin {
	return linDepth(v, sym, 0)
}

func linDepth(v ssa.Value, sym func(ssa.Value) string, d int) lin {
	if sym == nil {
		sym = pathOf
	}
	v = resolve1(v)
	if c, ok := constInt(v); ok {
		if _, isConst := stripConv(v).(*ssa.Const); isConst {
			return lin{terms: map[string]int64{}, c: c}
		}
		if _, isZero := stripConv(v).(*zeroValue); isZero {
			return lin{terms: map[string]int64{}, c: 0}
		}
	}
	// a value the caller's symbol function names explicitly is an atom even if it is itself an
	// arithmetic expression (the index of a range loop is `phi + 1` in SSA)
	if _, isBin := v.(*ssa.BinOp); isBin {
		if name := sym(v); name != pathOf(v) {
			return lin{terms: map[string]int64{name: 1}}
		}
	}
	if d < 32 {
		switch x := v.(type) {
		case *ssa.Convert:
			if isIntegerType(x.Type()) && isIntegerType(x.X.Type()) {
				return linDepth(x.X, sym, d+1)
			}
		case *ssa.ChangeType:
			return linDepth(x.X, sym, d+1)
		case *ssa.BinOp:
			switch x.Op {
			case token.ADD:
				if isIntegerType(x.Type()) {
					return linAdd(linDepth(x.X, sym, d+1), linDepth(x.Y, sym, d+1), 1)
				}
			case token.SUB:
				return linAdd(linDepth(x.X, sym, d+1), linDepth(x.Y, sym, d+1), -1)
			case token.MUL:
				a, b := linDepth(x.X, sym, d+1), linDepth(x.Y, sym, d+1)
				if a.isConst() {
					return linScale(b, a.c)
				}
				if b.isConst() {
					return linScale(a, b.c)
				}
			}
		case *ssa.Call:
			// len(x)
			if bi, ok := x.Call.Value.(*ssa.Builtin); ok && bi.Name() == "len" && len(x.Call.Args) == 1 {
				return lin{terms: map[string]int64{"len(" + sym(x.Call.Args[0]) + ")": 1}}
			}
		}
	}
	return lin{terms: map[string]int64{sym(v): 1}}
}

func isIntegerType(t types.Type) bool {
	b, ok := t.Underlying().(*types.Basic)
	return ok && b.Info()&types.IsInteger != 0
}

// ---------------------------------------------------------------------------
// misc

func callOf(in ssa.Instruction) *ssa.CallCommon {
	if c, ok := in.(ssa.CallInstruction); ok {
		return c.Common()
	}
	return nil
}

func isCallTo(in ssa.Instruction, pkgPath, recv, name string) bool {
	c := callOf(in)
	return c != nil && calleeIs(c, pkgPath, recv, name)
}

// recvOf returns the receiver value of a method call (invoke or static).
func recvOf(c *ssa.CallCommon) ssa.Value {
	if c.IsInvoke() {
		return c.Value
	}
	if f := c.StaticCallee(); f != nil && f.Signature.Recv() != nil && len(c.Args) > 0 {
		return c.Args[0]
	}
	return nil
}

// argsOf returns the non-receiver arguments.
func argsOf(c *ssa.CallCommon) []ssa.Value {
	if c.IsInvoke() {
		return c.Args
	}
	if f := c.StaticCallee(); f != nil && f.Signature.Recv() != nil && len(c.Args) > 0 {
		return c.Args[1:]
	}
	return c.Args
}

// ---------------------------------------------------------------------------
// A small feasibility pruner for boolean flags carried in phis
// (`skip := false; if c1 { skip = true }; ...; if skip { continue }`).

// phiFalsePrunedEdges returns CFG edges that cannot lie on any path to sink:
// if sink is dominated by the edge on which a bool phi P is false, then P's
// block was not entered (last) through a predecessor that assigns constant
// true to P — provided that predecessor edge cannot be followed by another
// visit of P's block before the test (P's block dominates the test and the
// test precedes any back edge to P's block).
func phiFalsePrunedEdges(fn *ssa.Function, sink *ssa.BasicBlock) []succEdge {
	var out []succEdge
	for _, i := range ifsOf(fn) {
		ca := decomposeIf(i)
		if ca.Op != token.ILLEGAL {
			continue
		}
		phi, ok := ca.X.(*ssa.Phi)
		if !ok {
			continue
		}
		falseEdge := 1
		if ca.Neg {
			falseEdge = 0
		}
		if !edgesDominate(fn, []succEdge{{i.Block(), falseEdge}}, sink) {
			continue
		}
		if !phi.Block().Dominates(i.Block()) {
			continue
		}
		// collect, transitively through phis that merge the same flag, the edges that bring constant true
		seen := map[*ssa.Phi]bool{}
		var walk func(p *ssa.Phi)
		walk = func(p *ssa.Phi) {
			if seen[p] {
				return
			}
			seen[p] = true
			for k, e := range p.Edges {
				pred := p.Block().Preds[k]
				if b, ok := constBool(e); ok && b {
					for si, s := range pred.Succs {
						if s == p.Block() {
							out = append(out, succEdge{pred, si})
						}
					}
					continue
				}
				if q, ok := e.(*ssa.Phi); ok && q.Block().Dominates(p.Block()) && q != p {
					// only follow phis of the same iteration (the defining block dominates and is not a loop header re-entry)
					if !reachFrom(p.Block(), nil)[q.Block()] || q.Block() == p.Block() {
						walk(q)
					} else if !loopHeaderOf(q, p) {
						walk(q)
					}
				}
			}
		}
		walk(phi)
	}
	return out
}

// loopHeaderOf: q is re-entered from p's block (q is a loop-carried phi fed by p).
func loopHeaderOf(q, p *ssa.Phi) bool {
	for _, e := range q.Edges {
		if e == ssa.Value(p) {
			return true
		}
	}
	return false
}

// edgesDominateFeasible is edgesDominate with the bool-phi pruner applied.
func edgesDominateFeasible(fn *ssa.Function, edges []succEdge, sink *ssa.BasicBlock) bool {
	if edgesDominate(fn, edges, sink) {
		return true
	}
	if len(edges) == 0 {
		return false
	}
	extra := phiFalsePrunedEdges(fn, sink)
	if len(extra) == 0 {
		return false
	}
	return edgesDominate(fn, append(append([]succEdge{}, edges...), extra...), sink)
}
