package main

import (
	"encoding/json"
	"fmt"
	"go/token"
	"os"
	"path/filepath"
	"strings"

	"golang.org/x/tools/go/ssa"
)

// ---------------------------------------------------------------------------
// R-FILEID-READ (C01 C03 C04 C19): DataFile.fileID is assigned only for the database's active file
// (NewDataFile leaves it 0). A read of fileID on any other DataFile value, with no store to that
// value's fileID in the same function, always yields 0: code that uses it to tell segments apart
// (a cached read handle, say) treats every segment as segment 0 and reads records from the wrong file.

func ruleFileIDRead(c *Ctx) {
	n := 0
	for _, f := range c.P.SrcFuncs {
		if !c.P.inModule(f) {
			continue
		}
		k := 0
		instrs(f, func(in ssa.Instruction) {
			ld, ok := in.(*ssa.UnOp)
			if !ok || ld.Op != token.MUL {
				return
			}
			fa, ok := ld.X.(*ssa.FieldAddr)
			if !ok {
				return
			}
			fv := fieldVarOf(fa)
			if fv == nil || fv.Name() != "fileID" || !namedIs(derefT(fa.X.Type()), "DataFile") {
				return
			}
			n++
			k++
			c.touch(f)
			detail := fmt.Sprintf("read #%d of DataFile.fileID is on a file whose id was assigned", k)
			if isFieldLoad(fa.X, "DB", "ActiveFile") {
				c.ok(fnName(f), detail, c.P.ipos(ld), "the database's active file")
				return
			}
			// a store to the same object's fileID in this function
			base := pathOf(fa.X)
			set := false
			instrs(f, func(in2 ssa.Instruction) {
				if st, ok := in2.(*ssa.Store); ok {
					if fa2, ok := st.Addr.(*ssa.FieldAddr); ok && fieldVarOf(fa2).Name() == "fileID" && namedIs(derefT(fa2.X.Type()), "DataFile") && pathOf(fa2.X) == base {
						set = true
					}
				}
			})
			c.check(set, fnName(f), detail, c.P.ipos(ld), "",
				"fileID is read from a DataFile that is not DB.ActiveFile and whose fileID is never assigned (NewDataFile leaves it 0): every such handle claims to be segment 0, so logic keyed on it (e.g. reusing an open read handle across records) reads records of later segments from the wrong file")
		})
	}
	c.Sites += n
	c.minInstances("reads of DataFile.fileID", n, 1)
}

// ---------------------------------------------------------------------------
// R-BOUNDS-LIVE (C02): the key bounds of a B+ tree (FirstKey/LastKey) become the [start,end] range of
// a sealed segment in sparse mode, and a lookup only visits segments whose range covers the key. A
// tombstone must widen the range like any other record, or a deleted key outside the range of the
// live keys of its segment is found alive in an older segment. So the functions that write the
// bounds contain no liveness test (Flag == DataDeleteFlag, expiry).

func ruleBoundsLive(c *Ctx) {
	del, _ := constIntVal(c.P.Const("DataDeleteFlag"))
	writers := map[*ssa.Function]bool{}
	for _, name := range []string{"FirstKey", "LastKey"} {
		for _, st := range storesToField(c.P, "BPTree", name) {
			writers[st.Parent()] = true
		}
	}
	n := 0
	for f := range writers {
		if f.Name() == "init" {
			continue
		}
		n++
		c.touch(f)
		var offender ssa.Instruction
		instrs(f, func(in ssa.Instruction) {
			if offender != nil {
				return
			}
			if cc := callOf(in); cc != nil && (calleeIs(cc, modPath, "", "IsExpired") || calleeIs(cc, modPath, "Record", "IsExpired")) {
				offender = in
			}
			if bo, ok := in.(*ssa.BinOp); ok && (bo.Op == token.EQL || bo.Op == token.NEQ) {
				for _, p := range [][2]ssa.Value{{bo.X, bo.Y}, {bo.Y, bo.X}} {
					if isFieldLoad(p[0], "MetaData", "Flag") {
						if k, ok := constInt(p[1]); ok && k == del {
							offender = in
						}
					}
				}
			}
		})
		pos := c.P.pos(f.Pos())
		if offender != nil {
			pos = c.P.ipos(offender)
		}
		c.check(offender == nil, fnName(f), "the tree's key bounds are maintained for every inserted record, tombstones included", pos, "",
			"the function that maintains BPTree.FirstKey/LastKey tests the record's liveness: a delete marker no longer widens the bounds, the sealed segment's [start,end] range excludes the deleted key, lookups skip that segment and return the older live version from an earlier segment")
	}
	c.Sites += n
	c.minInstances("functions writing BPTree.FirstKey/LastKey", n, 2)
}

// ---------------------------------------------------------------------------
// R-SIZECHECK (C09 C19): an entry is written only if its ENCODED size (header + payloads) fits into a
// segment: every comparison in the commit path that relates an Entry.Size() value to Options.SegmentSize
// compares exactly size (plus the file's own counters) with SegmentSize, with no constant offset.

func ruleSizeCheck(c *Ctx) {
	commit := c.P.MustFunc("(*Tx).Commit")
	n := 0
	for _, f := range c.P.ModCone(commit) {
		if f.Pkg != c.P.Main {
			continue
		}
		var symD func(v ssa.Value, d int) string
		symD = func(v ssa.Value, d int) string {
			v = resolve1(v)
			if call, ok := v.(*ssa.Call); ok && calleeIs(&call.Call, modPath, "Entry", "Size") {
				return "SIZE"
			}
			if isFieldLoad(v, "Options", "SegmentSize") || paramBoundToField(c, v, "Options", "SegmentSize") {
				return "SEG"
			}
			// a parameter of an unexported helper that every caller binds to an entry's encoded size
			if prm, ok := resolve1(stripConv(v)).(*ssa.Parameter); ok && d < 2 && (prm.Parent().Object() == nil || !prm.Parent().Object().Exported()) {
				idx := paramIndex(prm.Parent(), prm)
				sites := c.P.CallersOf(prm.Parent())
				all := len(sites) > 0
				for _, st := range sites {
					if st.Common().IsInvoke() || idx >= len(st.Common().Args) || symD(stripConv(st.Common().Args[idx]), d+1) != "SIZE" {
						all = false
					}
				}
				if all {
					return "SIZE"
				}
			}
			return pathOf(v)
		}
		sym := func(v ssa.Value) string { return symD(v, 0) }
		k := 0
		instrs(f, func(in ssa.Instruction) {
			b, ok := in.(*ssa.BinOp)
			if !ok {
				return
			}
			switch b.Op {
			case token.LSS, token.LEQ, token.GTR, token.GEQ:
			default:
				return
			}
			d := linAdd(linOf(b.X, sym), linOf(b.Y, sym), -1)
			if d.terms["SEG"] != 0 && d.terms["SIZE"] == 0 {
				// something else is compared with the segment size: only the file's own counters may be
				foreign := ""
				for t, cf := range d.terms {
					if cf == 0 || t == "SEG" || strings.HasSuffix(t, ".ActualSize") || strings.HasSuffix(t, ".writeOff") || strings.HasSuffix(t, "off") {
						continue
					}
					foreign = t
				}
				if foreign != "" && !strings.Contains(foreign, "len(") {
					n++
					k++
					c.touch(f)
					c.bad(fnName(f), fmt.Sprintf("size test #%d compares the full encoded entry size with the segment size", k), c.P.ipos(b),
						"a quantity that is not Entry.Size() ("+foreign+") is what is compared with Options.SegmentSize ("+d.String()+"): whether a record fits its segment is decided on something other than its encoded size (header + bucket + key + value), so a record that does not fit can be accepted; under MMap its tail is cut off at the end of the mapping")
				}
				return
			}
			if d.terms["SIZE"] == 0 || d.terms["SEG"] == 0 {
				return
			}
			n++
			k++
			c.touch(f)
			okb := d.c == 0 && d.terms["SIZE"]*d.terms["SEG"] == -1
			c.check(okb, fnName(f), fmt.Sprintf("size test #%d compares the full encoded entry size with the segment size", k), c.P.ipos(b), d.String(),
				"an entry-size test against Options.SegmentSize is offset by a constant or scaled ("+d.String()+"): an entry whose payload fits but whose encoded size (with the header) does not is accepted; under MMap its tail is cut off at the end of the mapping and the next Open fails with a CRC error")
		})
	}
	c.Sites += n
	c.minInstances("entry-size tests against the segment size in the commit path", n, 2)
}

// ---------------------------------------------------------------------------
// R-ADVANCE (C10 C12): the active file's write offset and size counter advance only after the record's
// WriteAt (and, on that path, Sync) succeeded. If they moved first, a failed write would leave a hole
// of zeroes: later commits succeed behind it and recovery, which stops at the first zero header,
// loses them.

func ruleAdvance(c *Ctx) {
	commit := c.P.MustFunc("(*Tx).Commit")
	n := 0
	for _, f := range c.P.ModCone(commit) {
		if f.Pkg != c.P.Main {
			continue
		}
		var writes []*ssa.Call
		calls(f, func(ci ssa.CallInstruction) {
			if call, ok := ci.(*ssa.Call); ok && isRecordWrite(c, call) {
				writes = append(writes, call)
			}
		})
		if len(writes) == 0 {
			continue
		}
		// edges on which the write's error is nil
		okEdges := nilEdges(f, true, func(x ssa.Value) bool {
			rx := resolve1(x)
			for _, w := range writes {
				if ex, ok := rx.(*ssa.Extract); ok && ex.Tuple == ssa.Value(w) {
					return true
				}
				if rx == ssa.Value(w) {
					return true
				}
			}
			return false
		})
		k := 0
		for _, field := range []string{"writeOff", "ActualSize"} {
			for _, s := range sizeStores(c, field) {
				if s.fn != f {
					continue
				}
				// a file opened in this function (rotation, merge output) starts at zero: not an advance
				if root, _ := splitPath(s.st.Addr.(*ssa.FieldAddr).X); root != nil {
					if ex, ok := root.(*ssa.Extract); ok {
						if cl, ok := ex.Tuple.(*ssa.Call); ok && calleeIs(&cl.Call, modPath, "", "NewDataFile") {
							continue
						}
					}
				}
				n++
				k++
				c.touch(f)
				c.check(len(okEdges) > 0 && edgesDominate(f, okEdges, s.st.Block()), fnName(f), fmt.Sprintf("advance #%d of %s happens only after the record was written", k, field), c.P.ipos(s.st), "",
					field+" of the active file is advanced on a path where the record's WriteAt has not (yet) succeeded: after a failed write the offset points past a hole of zero bytes, later transactions commit behind the hole, and recovery, which treats a zero header as end of data, loses them")
			}
		}
	}
	// the log is append-only: on the commit path the counters of an existing file only move forward (field += d).
	// A plain assignment (a rewind after a failed commit, a 'reset') lets the next, shorter transaction overwrite the
	// head of what was written and leaves the tail behind its commit record - recovery scans whole records up to the
	// first zero header, so the next Open fails on the stale bytes or replays them as committed data.
	coneSet := map[*ssa.Function]bool{}
	for _, f := range c.P.ModCone(commit) {
		coneSet[f] = true
	}
	for _, f := range c.P.SrcFuncs { // closures declared inside cone functions (deferred resets) belong to the path too
		if p := f.Parent(); p != nil && coneSet[p] {
			coneSet[f] = true
		}
	}
	m := 0
	perFn := map[*ssa.Function]int{}
	for _, field := range []string{"writeOff", "ActualSize"} {
		for _, s := range sizeStores(c, field) {
			if !coneSet[s.fn] || s.fn.Pkg != c.P.Main {
				continue
			}
			fresh := false
			if root, _ := splitPath(s.st.Addr.(*ssa.FieldAddr).X); root != nil {
				switch r := root.(type) {
				case *ssa.Extract:
					if cl, ok := r.Tuple.(*ssa.Call); ok && calleeIs(&cl.Call, modPath, "", "NewDataFile") {
						fresh = true
					}
				case *ssa.Alloc:
					fresh = true
				}
			}
			if fresh || isCtorOfDataFile(s.fn) {
				continue
			}
			m++
			perFn[s.fn]++
			c.touch(s.fn)
			c.check(advanceOf(s.st) != nil, fnName(s.fn), fmt.Sprintf("store #%d to %s of an existing file on the commit path only moves it forward", perFn[s.fn], field), c.P.ipos(s.st), "",
				field+" of an existing data file is assigned (not advanced) on the commit path: the write position can move backwards over records that were already written; the next, shorter transaction overwrites only their head, the rest stays behind its commit record, and the next Open - which scans whole records up to the first zero header - fails on the stale bytes or replays them as committed data")
		}
	}
	c.Sites += n + m
	c.minInstances("advances of the active file's counters in the commit path", n, 2)
}

func isCtorOfDataFile(f *ssa.Function) bool {
	res := f.Signature.Results()
	for i := 0; i < res.Len(); i++ {
		if n := namedOf(res.At(i).Type()); n != nil && n.Obj().Name() == "DataFile" {
			return f.Signature.Recv() == nil
		}
	}
	return false
}

// ---------------------------------------------------------------------------
// R-COMMITSET (C10): at commit time a transaction id enters DB.committedTxIds only for the marker
// record (index == len-1) and only after that record's write succeeded. Merge and Get believe that
// set: an id registered up front survives a failed commit, and Merge then rewrites the failed
// transaction's leftover records as committed.

func ruleCommitSet(c *Ctx) {
	commit := c.P.MustFunc("(*Tx).Commit")
	wl := findWriteLoop(c)
	n := 0
	for _, f := range c.P.ModCone(commit) {
		if f.Pkg != c.P.Main {
			continue
		}
		k := 0
		instrs(f, func(in ssa.Instruction) {
			mu, ok := in.(*ssa.MapUpdate)
			if !ok || !isFieldLoad(mu.Map, "DB", "committedTxIds") {
				return
			}
			n++
			k++
			c.touch(f)
			detail := fmt.Sprintf("committed-id registration #%d happens for the marker record after its write", k)
			evBlock := mu.Block()
			ff := f
			if ff != wl.fn {
				// a helper called from the write-loop function: the call site stands for the registration
				var site ssa.CallInstruction
				nSites := 0
				for _, s := range c.P.CallersOf(ff) {
					if s.Parent() == wl.fn {
						site = s
						nSites++
					}
				}
				if nSites != 1 {
					c.undecided(fnName(ff), detail, c.P.ipos(mu), "registration outside the function that contains the commit write loop")
					return
				}
				evBlock = site.Block()
				ff = wl.fn
			}
			var writes []*ssa.Call
			calls(ff, func(ci ssa.CallInstruction) {
				if call, ok := ci.(*ssa.Call); ok && isRecordWrite(c, call) {
					writes = append(writes, call)
				}
			})
			okEdges := nilEdges(ff, true, func(x ssa.Value) bool {
				rx := resolve1(x)
				for _, w := range writes {
					if ex, ok := rx.(*ssa.Extract); ok && ex.Tuple == ssa.Value(w) {
						return true
					}
					if rx == ssa.Value(w) {
						return true
					}
				}
				return false
			})
			afterWrite := len(okEdges) > 0 && edgesDominate(ff, okEdges, evBlock)
			// last-index edge: idx == len-1 in linear normal form
			sym := func(v ssa.Value) string {
				if sameValue(v, wl.idx) {
					return "IDX"
				}
				if isFieldLoad(v, "Tx", "pendingWrites") {
					return "PW"
				}
				return pathOf(v)
			}
			want := lin{terms: map[string]int64{"IDX": 1, "len(PW)": -1}, c: 1} // idx - (len-1) == 0
			lastEdges := eqEdges(ff, true, func(x, y ssa.Value) bool {
				d := linAdd(linOf(x, sym), linOf(y, sym), -1)
				return d.String() == want.String() || linScale(d, -1).String() == want.String()
			})
			onLast := len(lastEdges) > 0 && edgesDominate(ff, lastEdges, evBlock)
			switch {
			case afterWrite && onLast:
				c.ok(fnName(ff), detail, c.P.ipos(mu), "dominated by index == len-1 and by the nil result of WriteAt")
			case !afterWrite:
				c.bad(fnName(ff), detail, c.P.ipos(mu), "the transaction id is put into DB.committedTxIds before its records (in particular the marker record) were written: if the commit then fails the id stays registered, Get/Merge treat the failed transaction's records as committed, and Merge rewrites them under a fresh committed id")
			default:
				c.bad(fnName(ff), detail, c.P.ipos(mu), "the transaction id is put into DB.committedTxIds for a record that is not the marker record: a later write of the same transaction can still fail")
			}
		})
	}
	c.Sites += n
	c.minInstances("commit-time registrations in DB.committedTxIds", n, 1)
}

var _ = strings.HasPrefix

// explanationOf: the claim text of the property as registered in MANIFEST (manifest_texts.json keeps the
// current wording, including clauses added after the registry's short Explain string was written).
func explanationOf(vdir string, pr *Property) string {
	base := pr.Explain + " NOT COVERED: " + pr.NotCov
	b, err := os.ReadFile(filepath.Join(vdir, "manifest_texts.json"))
	if err != nil {
		return base
	}
	var m map[string]struct {
		Text string `json:"text"`
	}
	if json.Unmarshal(b, &m) != nil {
		return base
	}
	if t, ok := m[pr.ID]; ok && t.Text != "" {
		return t.Text + " NOT COVERED: " + pr.NotCov
	}
	return base
}

// isRecordWrite: the call writes a record to a data file: DataFile.WriteAt itself, or a module helper
// with an error result that passes an Entry.Encode result to it (its nil error means the write succeeded).
func isRecordWrite(c *Ctx, call *ssa.Call) bool {
	if calleeIs(&call.Call, modPath, "DataFile", "WriteAt") {
		return true
	}
	if call.Call.IsInvoke() && call.Call.Method.Name() == "WriteAt" && isRWManager(call.Call.Value.Type()) {
		return true
	}
	cal := call.Call.StaticCallee()
	if cal == nil || !c.P.inModule(cal) || cal.Blocks == nil || cal.Pkg != c.P.Main || errResultIndex(cal) < 0 {
		return false
	}
	hit := false
	calls(cal, func(ci ssa.CallInstruction) {
		if calleeIs(ci.Common(), modPath, "DataFile", "WriteAt") && len(ci.Common().Args) >= 2 {
			if e, ok := resolve1(ci.Common().Args[1]).(*ssa.Call); ok && calleeIs(&e.Call, modPath, "Entry", "Encode") {
				hit = true
			}
		}
	})
	return hit
}

// paramBoundToField: v is a parameter of an unexported module function and every call site passes a load
// of owner.field (directly or through another such parameter).
func paramBoundToField(c *Ctx, v ssa.Value, owner, field string) bool {
	return paramBoundDepth(c, v, owner, field, 0)
}

func paramBoundDepth(c *Ctx, v ssa.Value, owner, field string, depth int) bool {
	p, ok := resolve1(stripConv(v)).(*ssa.Parameter)
	if !ok || depth > 2 {
		return false
	}
	f := p.Parent()
	if f.Object() != nil && f.Object().Exported() {
		return false
	}
	idx := paramIndex(f, p)
	sites := c.P.CallersOf(f)
	if len(sites) == 0 {
		return false
	}
	for _, s := range sites {
		if s.Common().IsInvoke() || idx >= len(s.Common().Args) {
			return false
		}
		a := s.Common().Args[idx]
		if !isFieldLoad(a, owner, field) && !paramBoundDepth(c, a, owner, field, depth+1) {
			return false
		}
	}
	return true
}
