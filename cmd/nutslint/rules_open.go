package main

import (
	"fmt"
	"go/token"
	"go/types"
	"sort"
	"strings"

	"golang.org/x/tools/go/ssa"
)

// ---------------------------------------------------------------------------
// File-system effect table (resolved callees, constant-folded flags)

type fsEffect struct {
	kind string // create | write | remove | mkdir | truncate | map | open-ro | rename | copydir
	desc string
}

const (
	oWRONLY = 0x1
	oRDWR   = 0x2
	oCREATE = 0x40
	oTRUNC  = 0x200
	oAPPEND = 0x400
)

// fsEffectOf classifies a call instruction by its resolved callee.
func fsEffectOf(cc *ssa.CallCommon) *fsEffect {
	f := cc.StaticCallee()
	if f == nil {
		return nil
	}
	full := f.String()
	switch full {
	case "os.OpenFile":
		if len(cc.Args) >= 2 {
			if fl, ok := constInt(cc.Args[1]); ok {
				var parts []string
				if fl&oCREATE != 0 {
					parts = append(parts, "O_CREATE")
				}
				if fl&oTRUNC != 0 {
					parts = append(parts, "O_TRUNC")
				}
				if fl&oCREATE != 0 || fl&oTRUNC != 0 {
					return &fsEffect{"create", "os.OpenFile(" + strings.Join(parts, "|") + ")"}
				}
				return &fsEffect{"open-ro", "os.OpenFile(existing)"}
			}
		}
		return &fsEffect{"create", "os.OpenFile(non-constant flags)"}
	case "os.Create":
		return &fsEffect{"create", "os.Create"}
	case "os.Open":
		return &fsEffect{"open-ro", "os.Open"}
	case "os.Remove", "os.RemoveAll":
		return &fsEffect{"remove", full}
	case "os.Mkdir", "os.MkdirAll":
		return &fsEffect{"mkdir", full}
	case "os.Rename":
		return &fsEffect{"rename", full}
	case "os.Truncate", "(*os.File).Truncate":
		return &fsEffect{"truncate", full}
	case "(*os.File).WriteAt", "(*os.File).Write", "(*os.File).WriteString":
		return &fsEffect{"write", full}
	case "github.com/xujiajun/mmap-go.Map", "github.com/xujiajun/mmap-go.MapRegion":
		return &fsEffect{"map", full}
	case "github.com/xujiajun/utils/filesystem.CopyDir", "github.com/xujiajun/utils/filesystem.CopyFile":
		return &fsEffect{"copydir", full}
	case "io/ioutil.WriteFile", "os.WriteFile":
		return &fsEffect{"create", full}
	}
	return nil
}

func (e *fsEffect) mutates() bool {
	switch e.kind {
	case "create", "write", "remove", "mkdir", "truncate", "rename", "copydir":
		return true
	}
	return false
}

type fsSite struct {
	fn  *ssa.Function
	in  ssa.CallInstruction
	eff *fsEffect
}

var fsConeMemo = map[*ssa.Function][]fsSite{}

// fsSitesIn lists fs-mutating primitive call sites in the cone of fn.
func fsSitesIn(p *Prog, fn *ssa.Function) []fsSite {
	if v, ok := fsConeMemo[fn]; ok {
		return v
	}
	var out []fsSite
	for _, g := range p.ModCone(fn) {
		calls(g, func(ci ssa.CallInstruction) {
			if e := fsEffectOf(ci.Common()); e != nil && e.mutates() {
				out = append(out, fsSite{g, ci, e})
			}
		})
	}
	fsConeMemo[fn] = out
	return out
}

// ---------------------------------------------------------------------------
// R-OPEN-ORDER and the refusal truth table (C22)

// findModeCheck locates the call in Open to the function that decides whether
// the directory is compatible with Options.EntryIdxMode: a module function
// that lists a directory and reads Options.EntryIdxMode.
func findModeCheck(c *Ctx, open *ssa.Function) (*ssa.Call, *ssa.Function) {
	var site *ssa.Call
	var callee *ssa.Function
	calls(open, func(ci ssa.CallInstruction) {
		cal := ci.Common().StaticCallee()
		if cal == nil || !c.P.inModule(cal) || cal.Blocks == nil || errResultIndex(cal) < 0 {
			return
		}
		readsMode, lists := false, false
		instrs(cal, func(in ssa.Instruction) {
			if v, ok := in.(ssa.Value); ok && isFieldLoad(v, "Options", "EntryIdxMode") {
				readsMode = true
			}
			if cc := callOf(in); cc != nil && cc.StaticCallee() != nil {
				switch cc.StaticCallee().String() {
				case "io/ioutil.ReadDir", "os.ReadDir", "os.Stat", "os.Lstat", "path/filepath.Glob", "github.com/xujiajun/utils/filesystem.PathIsExist":
					lists = true
				}
			}
		})
		// must be able to return a fresh error that depends on the mode
		if readsMode && lists && site == nil {
			if call, ok := ci.(*ssa.Call); ok {
				site, callee = call, cal
			}
		}
	})
	if site == nil {
		fail("mode check not found: Open calls no function that inspects the directory and reads Options.EntryIdxMode")
	}
	return site, callee
}

func ruleOpenOrder(c *Ctx) {
	open := c.P.MustFunc("Open")
	c.touch(open)
	site, check := findModeCheck(c, open)
	c.touch(check)
	// the check itself changes nothing on disk
	cs := fsSitesIn(c.P, check)
	c.check(len(cs) == 0, fnName(check), "mode check has no file-system effect", c.P.pos(check.Pos()), "the compatibility check only reads the directory", fmt.Sprintf("the mode check creates or modifies files (%d sites)", len(cs)))
	// edges on which the check's error is nil
	okEdges := nilEdges(open, true, func(x ssa.Value) bool { return sameValue(x, site) })
	n := 0
	calls(open, func(ci ssa.CallInstruction) {
		cc := ci.Common()
		var desc string
		if e := fsEffectOf(cc); e != nil && e.mutates() {
			desc = e.desc
			// creating Dir itself is allowed before the check
			if e.kind == "mkdir" && len(cc.Args) > 0 && isFieldLoad(cc.Args[0], "Options", "Dir") {
				n++
				c.ok("Open", "creation of Options.Dir may precede the check", c.P.ipos(ci), "")
				return
			}
		} else if cal := cc.StaticCallee(); cal != nil && c.P.inModule(cal) && cal != check {
			if s := fsSitesIn(c.P, cal); len(s) > 0 {
				desc = "call " + fnName(cal) + " (reaches " + s[0].eff.desc + ")"
				// a helper that only creates the directory it is given, called with Options.Dir itself
				onlyMkdirOfParam := true
				var pidx = -1
				for _, site := range s {
					if site.eff.kind != "mkdir" || site.fn != cal || len(site.in.Common().Args) == 0 {
						onlyMkdirOfParam = false
						break
					}
					p, isParam := resolve1(site.in.Common().Args[0]).(*ssa.Parameter)
					if !isParam {
						onlyMkdirOfParam = false
						break
					}
					pidx = paramIndex(cal, p)
				}
				if onlyMkdirOfParam && pidx >= 0 && pidx < len(cc.Args) && isFieldLoad(cc.Args[pidx], "Options", "Dir") {
					n++
					c.ok("Open", "creation of Options.Dir may precede the check", c.P.ipos(ci), "through "+fnName(cal))
					return
				}
			}
		}
		if desc == "" {
			return
		}
		n++
		c.Sites++
		c.check(edgesDominate(open, okEdges, ci.Block()), "Open", "after successful mode check: "+desc, c.P.ipos(ci),
			"this file-system effect happens only after the mode check returned nil", "this file-system effect can happen before, or regardless of, the index-mode check: a refused Open would not leave the directory unchanged")
	})
	c.minInstances("file-system effects in Open", n, 2)
	// the check's error is returned: the error edge leads to a return of a non-nil error without fs effects (follows from domination above)
	errEdges := nilEdges(open, false, func(x ssa.Value) bool { return sameValue(x, site) })
	okRet := len(errEdges) > 0
	for _, e := range errEdges {
		// from that edge every path reaches a Return with non-nil error, passing no call at all to module functions with effects
		start := e.b.Succs[e.si]
		r := reachFrom(start, nil)
		for b := range r {
			for _, in := range b.Instrs {
				if ret, ok := in.(*ssa.Return); ok {
					if classifyRetOperand(ret, errResultIndex(open)) != retNonNil {
						okRet = false
					}
				}
			}
		}
	}
	c.check(okRet, "Open", "refusal is returned as an error", c.P.ipos(site), "a non-nil result of the mode check makes Open return a non-nil error", "the mode check's refusal does not make Open fail")
}

// acyclic evaluation of the decision part of the mode check
type atomEnv struct {
	mode    int64
	hasData bool
	hasBpt  bool
}

func ruleModeTable(c *Ctx) {
	open := c.P.MustFunc("Open")
	_, check := findModeCheck(c, open)
	c.touch(check)
	sparse, _ := constIntVal(c.P.Const("HintBPTSparseIdxMode"))
	// atoms: bool phis (or allocs) that receive true under the data-suffix / bpt-dir guards
	dataSuffix := constStringOf(c.P, "DataSuffix")
	bptDirName := constStringOf(c.P, "bptDir")
	var dataAtom, bptAtom ssa.Value
	strEqEdges := func(s string) []succEdge {
		es := eqEdges(check, true, func(x, y ssa.Value) bool {
			cs, ok := constString(y)
			return ok && cs == s
		})
		// the comparison may sit in a one-line predicate: if isDataFileName(name) { ... }
		es = append(es, boolEdges(check, true, func(x ssa.Value) bool {
			call, ok := resolve1(x).(*ssa.Call)
			if !ok {
				return false
			}
			h := call.Call.StaticCallee()
			if h == nil || !c.P.inModule(h) || h.Blocks == nil {
				return false
			}
			rets := returnsOf(h)
			if len(rets) != 1 || len(rets[0].Results) != 1 {
				return false
			}
			b, ok := resolve1(rets[0].Results[0]).(*ssa.BinOp)
			if !ok || b.Op != token.EQL {
				return false
			}
			for _, side := range []ssa.Value{b.X, b.Y} {
				if cs, ok := constString(side); ok && cs == s {
					return true
				}
			}
			return false
		})...)
		return es
	}
	dataEdges, bptEdges := strEqEdges(dataSuffix), strEqEdges(bptDirName)
	atomOK := map[string]bool{}
	for _, b := range check.Blocks {
		for _, in := range b.Instrs {
			phi, ok := in.(*ssa.Phi)
			if !ok {
				continue
			}
			if bt, ok := phi.Type().Underlying().(*types.Basic); !ok || bt.Kind() != types.Bool {
				continue
			}
			for i, e := range phi.Edges {
				if v, ok := constBool(e); ok && v {
					pred := b.Preds[i]
					switch {
					case edgesDominate(check, dataEdges, pred):
						if dataAtom == nil {
							dataAtom = phi
						}
						atomOK["data"] = true
					case edgesDominate(check, bptEdges, pred):
						if bptAtom == nil {
							bptAtom = phi
						}
						atomOK["bpt"] = true
					default:
						c.bad(fnName(check), "flag set only under its guard", c.P.ipos(pred.Instrs[len(pred.Instrs)-1]), "a presence flag is set to true on a path that is not guarded by the .dat-suffix / bpt-directory test")
					}
				}
			}
		}
	}
	if dataAtom == nil {
		// a recognisably wrong derivation: probing one fixed segment id. Segment ids only grow and Merge
		// removes the low ones, so "segment k exists" does not mean "the directory holds data".
		fixed := false
		calls(check, func(ci ssa.CallInstruction) {
			cc := ci.Common()
			if calleeIs(cc, modPath, "DB", "getDataPath") {
				if _, ok := constInt(cc.Args[len(cc.Args)-1]); ok {
					fixed = true
					c.bad(fnName(check), "data presence is derived from every directory entry", c.P.ipos(ci),
						"the mode check decides whether the directory holds data by probing one fixed segment id: after Merge (which removes the low-numbered segments) a populated directory looks empty and is opened, and modified, in an incompatible index mode")
				}
			}
		})
		if fixed {
			return
		}
	}
	if dataAtom == nil || bptAtom == nil {
		c.undecided(fnName(check), "atoms", "", "cannot identify the hasData / hasBptDir flags (bool values set under suffix == DataSuffix and name == bptDir)")
		return
	}
	c.ok(fnName(check), "hasData flag set only under suffix == DataSuffix", "", "")
	c.ok(fnName(check), "hasBptDir flag set only under name == bptDir", "", "")
	// the atoms as seen after the loop: follow phis that merge the loop-carried value
	family := func(atom ssa.Value) map[ssa.Value]bool {
		fam := map[ssa.Value]bool{atom: true}
		for changed := true; changed; {
			changed = false
			for _, b := range check.Blocks {
				for _, in := range b.Instrs {
					ph, ok := in.(*ssa.Phi)
					if !ok || fam[ph] {
						continue
					}
					all, any := true, false
					for _, e := range ph.Edges {
						if _, ok := constBool(e); ok {
							continue
						}
						if fam[e] {
							any = true
						} else if e != ssa.Value(ph) {
							all = false
						}
					}
					if all && any {
						fam[ph] = true
						changed = true
					}
				}
			}
		}
		return fam
	}
	dataFam, bptFam := family(dataAtom), family(bptAtom)
	isAtom := func(v ssa.Value, atom ssa.Value) bool {
		if atom == dataAtom {
			return dataFam[v]
		}
		return bptFam[v]
	}
	// decision region: non-loop blocks ending in an If over the atoms / mode
	inLoop := func(b *ssa.BasicBlock) bool {
		for _, s := range b.Succs {
			if reachFrom(s, nil)[b] {
				return true
			}
		}
		return false
	}
	evalVal := func(v ssa.Value, env atomEnv) (interface{}, bool) {
		var ev func(v ssa.Value) (interface{}, bool)
		ev = func(v ssa.Value) (interface{}, bool) {
			if b, ok := constBool(v); ok {
				return b, true
			}
			if i, ok := constInt(v); ok {
				if _, isC := stripConv(v).(*ssa.Const); isC {
					return i, true
				}
			}
			if isFieldLoad(v, "Options", "EntryIdxMode") {
				return env.mode, true
			}
			if isAtom(v, dataAtom) {
				return env.hasData, true
			}
			if isAtom(v, bptAtom) {
				return env.hasBpt, true
			}
			switch x := v.(type) {
			case *ssa.UnOp:
				if x.Op == token.NOT {
					if r, ok := ev(x.X); ok {
						if b, ok := r.(bool); ok {
							return !b, true
						}
					}
				}
			case *ssa.BinOp:
				l, ok1 := ev(x.X)
				r, ok2 := ev(x.Y)
				if ok1 && ok2 {
					switch x.Op {
					case token.EQL:
						return l == r, true
					case token.NEQ:
						return l != r, true
					}
				}
			case *ssa.Convert:
				return ev(x.X)
			case *ssa.ChangeType:
				return ev(x.X)
			}
			return nil, false
		}
		return ev(v)
	}
	var start *ssa.BasicBlock
	for _, b := range check.Blocks {
		if inLoop(b) || len(b.Instrs) == 0 {
			continue
		}
		iff, ok := b.Instrs[len(b.Instrs)-1].(*ssa.If)
		if !ok {
			continue
		}
		if _, ok := evalVal(iff.Cond, atomEnv{}); !ok {
			continue
		}
		if start == nil || b.Dominates(start) {
			start = b
		}
	}
	if start == nil {
		c.undecided(fnName(check), "decision region", "", "no loop-free decision over (mode, hasData, hasBptDir) found")
		return
	}
	errIdx := errResultIndex(check)
	rows := 0
	var table []string
	for _, mode := range []int64{0, 1, 2} {
		for _, hd := range []bool{false, true} {
			for _, hb := range []bool{false, true} {
				env := atomEnv{mode, hd, hb}
				b := start
				var verdict string
				for steps := 0; steps < 64 && verdict == ""; steps++ {
					last := b.Instrs[len(b.Instrs)-1]
					switch t := last.(type) {
					case *ssa.If:
						r, ok := evalVal(t.Cond, env)
						bv, isB := r.(bool)
						if !ok || !isB {
							verdict = "undecided"
							break
						}
						if bv {
							b = b.Succs[0]
						} else {
							b = b.Succs[1]
						}
					case *ssa.Jump:
						b = b.Succs[0]
					case *ssa.Return:
						switch classifyRetOperand(t, errIdx) {
						case retNil:
							verdict = "accept"
						case retNonNil:
							verdict = "refuse"
						default:
							verdict = "undecided"
						}
					default:
						verdict = "undecided"
					}
				}
				isSparse := mode == sparse
				wantRefuse := hd && (isSparse != hb)
				want := "accept"
				if wantRefuse {
					want = "refuse"
				}
				rows++
				row := fmt.Sprintf("mode=%d hasData=%v hasBptDir=%v", mode, hd, hb)
				table = append(table, row+" -> "+verdict)
				switch {
				case verdict == "undecided" || verdict == "":
					c.undecided(fnName(check), "row "+row, "", "cannot evaluate the decision for this row")
				default:
					c.check(verdict == want, fnName(check), "row "+row, c.P.pos(check.Pos()), verdict, fmt.Sprintf("the check would %s, the specification (refuse iff hasData and (sparse xor hasBptDir)) says %s", verdict, want))
				}
			}
		}
	}
	sort.Strings(table)
	c.Sites += rows
}

func constStringOf(p *Prog, name string) string {
	o := p.Main.Pkg.Scope().Lookup(name)
	cst, ok := o.(*types.Const)
	if !ok {
		fail("string constant %s not found", name)
	}
	s := cst.Val().ExactString()
	return strings.Trim(s, "\"")
}

// R-CLOSE-KEEP (C22 C08 C09): closing a database leaves the directory as it is. The mode check of the next
// Open classifies the directory by the files it finds (any *.dat => has data; bpt => sparse), and recovery
// replays exactly the segments that exist: a Close that removes, truncates, renames or creates files changes
// what the next Open decides (an opened-and-closed directory no longer refuses the incompatible mode).
func ruleCloseKeep(c *Ctx) {
	cl := c.P.MustFunc("(*DB).Close")
	cone := c.P.ModCone(cl)
	nCalls := 0
	for _, g := range cone {
		calls(g, func(ssa.CallInstruction) { nCalls++ })
		c.touch(g)
	}
	bad := 0
	for _, s := range fsSitesIn(c.P, cl) {
		switch s.eff.kind {
		case "remove", "truncate", "rename", "create", "mkdir", "copydir":
			bad++
			c.bad("(*DB).Close", "no file is removed, resized, renamed or created | "+s.eff.desc+" in "+fnName(s.fn), c.P.ipos(s.in),
				"Close reaches "+s.eff.desc+": the set of files in the directory after Close differs from the set the writes produced, and the next Open decides mode compatibility and what to replay from exactly that set (a directory that was opened and closed without a write no longer refuses the incompatible index mode)")
		}
	}
	c.Sites += nCalls
	if bad == 0 {
		c.ok("(*DB).Close", "no file is removed, resized, renamed or created", c.P.pos(cl.Pos()), fmt.Sprintf("%d functions, %d call sites in the cone of Close", len(cone), nCalls))
	}
	c.minInstances("call sites in the cone of Close", nCalls, 2)
}
