package main

import (
	"fmt"
	"go/token"
	"go/types"
	"sort"
	"strings"

	"golang.org/x/tools/go/ssa"
)

// ---------------------------------------------------------------------------
// R-SYNC / R-FLAGBIND / sync-impl  (C11)

const (
	pkgOS   = "os"
	pkgMmap = "github.com/xujiajun/mmap-go"
)

// handle identifies a file handle relative to the enclosing function:
// (param index, suffix) if rooted at a parameter, else a local root.
type handle struct {
	param int    // -1: not parameter rooted
	path  string // full path string in this function (for messages and local matching)
	sfx   string // suffix after the parameter root
	disp  string // position-independent rendering for keys and messages
}

func (h handle) key() string {
	if h.param >= 0 {
		return fmt.Sprintf("p%d%s", h.param, h.sfx)
	}
	return "local:" + h.path
}

func mkHandle(fn *ssa.Function, v ssa.Value) handle {
	root, sfx := splitPath(v)
	sfx = strings.TrimSuffix(sfx, ".rwManager")
	h := handle{param: -1, path: rootName(root) + sfx, sfx: sfx, disp: dispRoot(root) + sfx}
	if p, ok := root.(*ssa.Parameter); ok {
		for i, q := range fn.Params {
			if q == p {
				h.param = i
			}
		}
	}
	return h
}

type syncEvent struct {
	in    ssa.Instruction
	write bool
	h     handle
	desc  string
}

type syncSummary struct {
	unsynced map[string]handle // param-rooted handles that may be left written-but-unsynced at a normal return
	syncs    map[string]handle // param-rooted handles synced on every normal-return path
}

type syncAnalysis struct {
	c       *Ctx
	p       *Prog
	cone    []*ssa.Function
	inCone  map[*ssa.Function]bool
	bound   map[*ssa.Parameter]bool // bool params bound to Options.SyncEnable at all call sites
	sum     map[*ssa.Function]*syncSummary
	special bool // prune on SyncEnable=true
}

func isSyncEnableLoad(v ssa.Value) bool {
	return isFieldLoad(v, "Options", "SyncEnable")
}

// flagValue: is v known under the specialisation SyncEnable=true?
func (a *syncAnalysis) flagValue(v ssa.Value) (bool, bool) {
	neg := false
	for {
		if u, ok := v.(*ssa.UnOp); ok && u.Op == token.NOT {
			neg = !neg
			v = u.X
			continue
		}
		break
	}
	v = resolve1(v)
	if isSyncEnableLoad(v) {
		return !neg, true
	}
	if p, ok := v.(*ssa.Parameter); ok && a.bound[p] {
		return !neg, true
	}
	if b, ok := v.(*ssa.BinOp); ok && (b.Op == token.EQL || b.Op == token.NEQ) {
		if cb, ok := constBool(b.Y); ok {
			if val, ok := a.flagValue(b.X); ok {
				r := val == cb
				if b.Op == token.NEQ {
					r = !r
				}
				return r != neg, true
			}
		}
	}
	return false, false
}

func (a *syncAnalysis) prune(b *ssa.BasicBlock, si int) bool {
	if !a.special {
		return false
	}
	i, ok := b.Instrs[len(b.Instrs)-1].(*ssa.If)
	if !ok {
		return false
	}
	val, known := a.flagValue(i.Cond)
	if !known {
		return false
	}
	// succ 0 taken when cond true
	if val {
		return si == 1
	}
	return si == 0
}

// computeBound: greatest fixpoint of "bool parameter receives SyncEnable at every call site".
func (a *syncAnalysis) computeBound() {
	a.bound = map[*ssa.Parameter]bool{}
	for _, f := range a.cone {
		for _, p := range f.Params {
			if b, ok := p.Type().Underlying().(*types.Basic); ok && b.Kind() == types.Bool {
				a.bound[p] = true
			}
		}
	}
	changed := true
	for changed {
		changed = false
		for _, f := range a.cone {
			for i, p := range f.Params {
				if !a.bound[p] {
					continue
				}
				sites := a.p.CallersOf(f)
				okAll := len(sites) > 0
				for _, s := range sites {
					args := s.Common().Args
					if s.Common().IsInvoke() {
						okAll = false
						break
					}
					if i >= len(args) {
						okAll = false
						break
					}
					v := resolve1(args[i])
					if isSyncEnableLoad(v) {
						continue
					}
					if q, ok := v.(*ssa.Parameter); ok && a.bound[q] {
						continue
					}
					okAll = false
					break
				}
				if !okAll {
					a.bound[p] = false
					changed = true
				}
			}
		}
	}
}

func isMMapType(t types.Type) bool {
	n := namedOf(t)
	return n != nil && n.Obj().Name() == "MMap" && n.Obj().Pkg() != nil && n.Obj().Pkg().Path() == pkgMmap
}

// events lists the write / sync events of fn in instruction order.
func (a *syncAnalysis) events(fn *ssa.Function) []syncEvent {
	var out []syncEvent
	instrs(fn, func(in ssa.Instruction) {
		cc := callOf(in)
		if cc == nil {
			return
		}
		if _, isDefer := in.(*ssa.Defer); isDefer {
			return
		}
		switch {
		case calleeIs(cc, pkgOS, "File", "WriteAt"), calleeIs(cc, pkgOS, "File", "Write"), calleeIs(cc, pkgOS, "File", "WriteString"):
			out = append(out, syncEvent{in, true, mkHandle(fn, recvOf(cc)), "(*os.File)." + cc.StaticCallee().Name()})
			return
		case calleeIs(cc, pkgOS, "File", "Sync"):
			out = append(out, syncEvent{in, false, mkHandle(fn, recvOf(cc)), "(*os.File).Sync"})
			return
		case calleeIs(cc, pkgMmap, "MMap", "Flush"):
			out = append(out, syncEvent{in, false, mkHandle(fn, recvOf(cc)), "mmap.MMap.Flush"})
			return
		case cc.IsInvoke() && cc.Method.Name() == "WriteAt" && isRWManager(cc.Value.Type()):
			out = append(out, syncEvent{in, true, mkHandle(fn, cc.Value), "RWManager.WriteAt"})
			return
		case cc.IsInvoke() && cc.Method.Name() == "Sync" && isRWManager(cc.Value.Type()):
			out = append(out, syncEvent{in, false, mkHandle(fn, cc.Value), "RWManager.Sync"})
			return
		}
		if bi, ok := cc.Value.(*ssa.Builtin); ok && bi.Name() == "copy" && len(cc.Args) == 2 {
			// copy into a memory map is a file write
			root, _ := splitPath(cc.Args[0])
			dst := cc.Args[0]
			if sl, ok := dst.(*ssa.Slice); ok {
				dst = sl.X
			}
			_ = root
			if isMMapType(dst.Type()) || isMMapType(derefType(dst.Type())) {
				out = append(out, syncEvent{in, true, mkHandle(fn, dst), "copy into mmap.MMap"})
			}
			return
		}
		callee := cc.StaticCallee()
		if callee == nil || !a.inCone[callee] {
			return
		}
		s := a.sum[callee]
		if s == nil {
			return
		}
		for _, h := range sortedHandles(s.unsynced) {
			if h.param < len(cc.Args) {
				ch := mkHandle(fn, cc.Args[h.param])
				ch.path += h.sfx
				ch.sfx += h.sfx
				ch.disp = strings.TrimSuffix(ch.disp+h.sfx, ".rwManager")
				ch.path = strings.TrimSuffix(ch.path, ".rwManager")
				ch.sfx = strings.TrimSuffix(ch.sfx, ".rwManager")
				out = append(out, syncEvent{in, true, ch, "call " + fnName(callee) + " (returns with an unsynced write)"})
			}
		}
		for _, h := range sortedHandles(s.syncs) {
			if h.param < len(cc.Args) {
				ch := mkHandle(fn, cc.Args[h.param])
				ch.path += h.sfx
				ch.sfx += h.sfx
				ch.disp = strings.TrimSuffix(ch.disp+h.sfx, ".rwManager")
				ch.path = strings.TrimSuffix(ch.path, ".rwManager")
				ch.sfx = strings.TrimSuffix(ch.sfx, ".rwManager")
				out = append(out, syncEvent{in, false, ch, "call " + fnName(callee) + " (always syncs)"})
			}
		}
	})
	return out
}

func derefType(t types.Type) types.Type {
	if p, ok := t.Underlying().(*types.Pointer); ok {
		return p.Elem()
	}
	return t
}

func sortedHandles(m map[string]handle) []handle {
	var ks []string
	for k := range m {
		ks = append(ks, k)
	}
	sort.Strings(ks)
	var out []handle
	for _, k := range ks {
		out = append(out, m[k])
	}
	return out
}

func isRWManager(t types.Type) bool {
	n := namedOf(t)
	return n != nil && n.Obj().Name() == "RWManager" && n.Obj().Pkg() != nil && n.Obj().Pkg().Path() == modPath
}

func isNormalReturn(in ssa.Instruction) bool {
	r, ok := in.(*ssa.Return)
	if !ok {
		return false
	}
	if r.Block() == r.Parent().Recover {
		return false
	}
	idx := errResultIndex(r.Parent())
	if idx < 0 {
		return true
	}
	return classifyRetOperand(r, idx) != retNonNil
}

type unsyncedPath struct {
	ev      syncEvent
	target  string // "normal-return" | "next-write"
	witness []ssa.Instruction
}

// unsyncedPaths finds, for every write event of fn, a path to a normal return
// (or to the next write event) that passes no sync of the same handle.
func (a *syncAnalysis) unsyncedPaths(fn *ssa.Function, evs []syncEvent) []unsyncedPath {
	var out []unsyncedPath
	evAt := map[ssa.Instruction][]syncEvent{}
	for _, e := range evs {
		evAt[e.in] = append(evAt[e.in], e)
	}
	for _, w := range evs {
		if !w.write {
			continue
		}
		barrier := func(in ssa.Instruction) bool {
			for _, e := range evAt[in] {
				if !e.write && e.h.key() == w.h.key() {
					return true
				}
			}
			return false
		}
		// a call that both leaves-unsynced and syncs the same handle is not possible by construction
		if p := findPath(fn, w.in, isNormalReturn, barrier, a.prune); p != nil {
			out = append(out, unsyncedPath{w, "normal-return", p})
		}
		nextWrite := func(in ssa.Instruction) bool {
			for _, e := range evAt[in] {
				if e.write {
					return true
				}
			}
			return false
		}
		if p := findPath(fn, w.in, nextWrite, barrier, a.prune); p != nil {
			out = append(out, unsyncedPath{w, "next-write", p})
		}
	}
	return out
}

func (a *syncAnalysis) summarise() {
	a.sum = map[*ssa.Function]*syncSummary{}
	for _, f := range a.cone {
		a.sum[f] = &syncSummary{unsynced: map[string]handle{}, syncs: map[string]handle{}}
	}
	for round := 0; round < 12; round++ {
		changed := false
		for _, f := range a.cone {
			evs := a.events(f)
			ns := &syncSummary{unsynced: map[string]handle{}, syncs: map[string]handle{}}
			for _, up := range a.unsyncedPaths(f, evs) {
				if up.target == "normal-return" && up.ev.h.param >= 0 {
					ns.unsynced[up.ev.h.key()] = up.ev.h
				}
			}
			// always-syncs: a param-rooted handle h such that no path entry -> normal return avoids S(h)
			cands := map[string]handle{}
			for _, e := range evs {
				if !e.write && e.h.param >= 0 {
					cands[e.h.key()] = e.h
				}
			}
			for k, h := range cands {
				barrier := func(in ssa.Instruction) bool {
					for _, e := range evs {
						if e.in == in && !e.write && e.h.key() == k {
							return true
						}
					}
					return false
				}
				if findPath(f, nil, isNormalReturn, barrier, a.prune) == nil {
					ns.syncs[k] = h
				}
			}
			old := a.sum[f]
			if len(old.unsynced) != len(ns.unsynced) || len(old.syncs) != len(ns.syncs) {
				changed = true
			}
			a.sum[f] = ns
		}
		if !changed {
			break
		}
	}
}

func newSyncAnalysis(c *Ctx, root *ssa.Function) *syncAnalysis {
	a := &syncAnalysis{c: c, p: c.P, special: true}
	a.cone = c.P.ModCone(root)
	a.inCone = map[*ssa.Function]bool{}
	for _, f := range a.cone {
		a.inCone[f] = true
	}
	a.computeBound()
	a.summarise()
	return a
}

func ruleSync(c *Ctx) {
	commit := c.P.MustFunc("(*Tx).Commit")
	a := newSyncAnalysis(c, commit)
	nWrites := 0
	for _, f := range a.cone {
		c.touch(f)
		evs := a.events(f)
		ups := a.unsyncedPaths(f, evs)
		bad := map[ssa.Instruction]map[string]unsyncedPath{}
		for _, up := range ups {
			// param-rooted handles are the caller's obligation unless f is the API root
			if up.ev.h.param >= 0 && f != commit {
				continue
			}
			if bad[up.ev.in] == nil {
				bad[up.ev.in] = map[string]unsyncedPath{}
			}
			bad[up.ev.in][up.target] = up
		}
		ord := map[string]int{}
		for _, e := range evs {
			if !e.write {
				continue
			}
			if e.h.param >= 0 && f != commit {
				// if the write can stay unsynced it is propagated to the callers through the summary and judged there
				prop := false
				for _, up := range ups {
					if up.ev.in == e.in && up.target == "normal-return" {
						prop = true
					}
				}
				if prop {
					continue
				}
			}
			c.Sites++
			nWrites++
			base := e.desc + " on " + e.h.disp
			ord[base]++
			det := base
			if ord[base] > 1 {
				det = fmt.Sprintf("%s #%d", base, ord[base])
			}
			for _, tgt := range []string{"normal-return", "next-write"} {
				if up, ok := bad[e.in][tgt]; ok {
					c.bad(fnName(f), det+" -> "+tgt, c.P.ipos(e.in),
						fmt.Sprintf("with SyncEnable=true a path from this file write reaches a %s without a sync of the same handle (%s)", tgt, e.h.disp),
						c.witnessOf(up.witness)...)
				} else {
					c.ok(fnName(f), det+" -> "+tgt, c.P.ipos(e.in), "every path from the write passes a sync of "+e.h.disp+" first (SyncEnable=true specialisation)")
				}
			}
		}
	}
	c.minInstances("file-write sites in the commit cone", nWrites, 2)
}

// ruleFlagBind: every bool parameter that guards a sync event is bound to
// Options.SyncEnable at all call sites.
func ruleFlagBind(c *Ctx) {
	commit := c.P.MustFunc("(*Tx).Commit")
	a := newSyncAnalysis(c, commit)
	n := 0
	for _, f := range a.cone {
		evs := a.events(f)
		for _, p := range f.Params {
			if b, ok := p.Type().Underlying().(*types.Basic); !ok || b.Kind() != types.Bool {
				continue
			}
			// does p guard a sync event (directly or by being passed on as a sync flag)?
			guards := false
			edgesTrue := boolEdges(f, true, func(x ssa.Value) bool { return resolve1(x) == ssa.Value(p) })
			for _, e := range evs {
				if !e.write && len(edgesTrue) > 0 && edgesDominate(f, edgesTrue, e.in.Block()) {
					guards = true
				}
			}
			passed := false
			calls(f, func(ci ssa.CallInstruction) {
				cal := ci.Common().StaticCallee()
				if cal == nil || !a.inCone[cal] {
					return
				}
				for i, arg := range ci.Common().Args {
					if resolve1(arg) == ssa.Value(p) && i < len(cal.Params) && a.guardsSync(cal, cal.Params[i], 0) {
						passed = true
					}
				}
			})
			if !guards && !passed {
				continue
			}
			n++
			c.touch(f)
			sites := c.P.CallersOf(f)
			for i, s := range sites {
				idx := paramIndex(f, p)
				arg := s.Common().Args[idx]
				v := resolve1(arg)
				okb := isSyncEnableLoad(v)
				if q, isP := v.(*ssa.Parameter); isP && a.bound[q] {
					okb = true
				}
				c.Sites++
				c.check(okb, fnName(f), fmt.Sprintf("param %s at call site %s#%d", p.Name(), fnName(s.Parent()), i+1), c.P.ipos(s),
					"sync flag receives Options.SyncEnable", "a parameter that guards a sync is not bound to Options.SyncEnable here (argument "+arg.String()+")")
			}
		}
	}
	c.minInstances("sync-flag parameters", n, 3)
}

func paramIndex(f *ssa.Function, p *ssa.Parameter) int {
	for i, q := range f.Params {
		if q == p {
			return i
		}
	}
	return -1
}

func (a *syncAnalysis) guardsSync(f *ssa.Function, p *ssa.Parameter, depth int) bool {
	if depth > 4 {
		return false
	}
	evs := a.events(f)
	edgesTrue := boolEdges(f, true, func(x ssa.Value) bool { return resolve1(x) == ssa.Value(p) })
	for _, e := range evs {
		if !e.write && len(edgesTrue) > 0 && edgesDominate(f, edgesTrue, e.in.Block()) {
			return true
		}
	}
	res := false
	calls(f, func(ci ssa.CallInstruction) {
		cal := ci.Common().StaticCallee()
		if cal == nil || !a.inCone[cal] {
			return
		}
		for i, arg := range ci.Common().Args {
			if resolve1(arg) == ssa.Value(p) && i < len(cal.Params) && a.guardsSync(cal, cal.Params[i], depth+1) {
				res = true
			}
		}
	})
	return res
}

// ruleSyncImpl: every RWManager implementation's Sync reaches a real sync
// primitive on the handle its WriteAt writes.
func ruleSyncImpl(c *Ctx) {
	iface := c.P.Named("", "RWManager")
	it := iface.Underlying().(*types.Interface)
	n := 0
	for _, name := range c.P.Main.Pkg.Scope().Names() {
		tn, ok := c.P.Main.Pkg.Scope().Lookup(name).(*types.TypeName)
		if !ok {
			continue
		}
		nt, ok := tn.Type().(*types.Named)
		if !ok || types.IsInterface(nt) {
			continue
		}
		if !types.Implements(types.NewPointer(nt), it) && !types.Implements(nt, it) {
			continue
		}
		n++
		var syncFn, writeFn *ssa.Function
		for _, m := range c.P.Methods(nt) {
			switch m.Name() {
			case "Sync":
				syncFn = m
			case "WriteAt":
				writeFn = m
			}
		}
		if syncFn == nil || writeFn == nil {
			c.undecided(name, "methods", "", "Sync/WriteAt method bodies not found")
			continue
		}
		c.touch(syncFn)
		c.touch(writeFn)
		a := &syncAnalysis{c: c, p: c.P, special: false, inCone: map[*ssa.Function]bool{}, sum: map[*ssa.Function]*syncSummary{}}
		wev := a.events(writeFn)
		sev := a.events(syncFn)
		wh := map[string]bool{}
		for _, e := range wev {
			if e.write {
				wh[e.h.sfx] = true
			}
		}
		c.check(len(wh) > 0, name+".WriteAt", "writes a file", c.P.pos(writeFn.Pos()), "WriteAt reaches a file-write primitive", "WriteAt reaches no file-write primitive")
		// every path entry -> normal return passes a primitive sync of a written handle
		barrier := func(in ssa.Instruction) bool {
			for _, e := range sev {
				if e.in == in && !e.write && wh[e.h.sfx] {
					return true
				}
			}
			return false
		}
		path := findPath(syncFn, nil, isNormalReturn, barrier, nil)
		c.Sites += len(sev) + len(wev)
		if path == nil {
			c.ok(name+".Sync", "reaches sync primitive", c.P.pos(syncFn.Pos()), "every normal return of Sync passes (*os.File).Sync / mmap.Flush on the handle WriteAt writes")
		} else {
			c.bad(name+".Sync", "reaches sync primitive", c.P.pos(syncFn.Pos()), "Sync can return normally without syncing the handle that WriteAt writes", c.witnessOf(path)...)
		}
	}
	c.minInstances("RWManager implementations", n, 2)
}
