package main

import (
	"fmt"
	"go/token"
	"go/types"

	"golang.org/x/tools/go/ssa"
)

// ---------------------------------------------------------------------------
// R-POS, R-ACTIVEFILE, R-UPDATE (C01, C08, C15, C19)

// forwardHas: can `to` execute after `from` without crossing a barrier instruction?
func forwardHas(fn *ssa.Function, from, to ssa.Instruction, barrier func(ssa.Instruction) bool) bool {
	return findPath(fn, from, func(in ssa.Instruction) bool { return in == to }, barrier, nil) != nil
}

// writesLoc: instruction in (a store or a call) may write abstract location loc.
func writesLoc(c *Ctx, in ssa.Instruction, locs map[string]bool) bool {
	switch x := in.(type) {
	case *ssa.Store:
		return locs[locOfAddr(x.Addr)]
	case *ssa.Call:
		fx := getEffects(c)
		for _, cal := range c.P.Callees(x) {
			sm := fx.sum[cal]
			if sm == nil {
				continue
			}
			for _, ev := range sm.writes {
				if locs[ev.Loc] && ev.Root != "F" {
					return true
				}
			}
		}
	}
	return false
}

// interveningWrite finds an instruction that may write one of locs and can
// execute between a and b (a first), never crossing barrier.
func interveningWrite(c *Ctx, fn *ssa.Function, a, b ssa.Instruction, locs map[string]bool, barrier func(ssa.Instruction) bool) ssa.Instruction {
	var res ssa.Instruction
	instrs(fn, func(in ssa.Instruction) {
		if res != nil || in == a || in == b {
			return
		}
		if !writesLoc(c, in, locs) {
			return
		}
		if forwardHas(fn, a, in, barrier) && forwardHas(fn, in, b, func(x ssa.Instruction) bool { return x == a || (barrier != nil && barrier(x)) }) {
			res = in
		}
	})
	return res
}

func hintAllocs(fn *ssa.Function) []*ssa.Alloc {
	var out []*ssa.Alloc
	instrs(fn, func(in ssa.Instruction) {
		if a, ok := in.(*ssa.Alloc); ok && namedIs(a.Type(), "Hint") {
			fs := allocFieldStores(a)
			if fs["dataPos"] != nil && fs["fileID"] != nil {
				out = append(out, a)
			}
		}
	})
	return out
}

func rulePos(c *Ctx) {
	wl := findWriteLoop(c)
	f := wl.fn
	c.touch(f)
	// the WriteAt event of the write loop: the call that receives the Encode result
	var writeAt *ssa.Call
	for _, r := range *wl.encode.Referrers() {
		if call, ok := r.(*ssa.Call); ok && calleeIs(&call.Call, modPath, "DataFile", "WriteAt") {
			writeAt = call
		}
	}
	// writeEv: the instruction of f that stands for the write (the WriteAt itself, or the call to a helper
	// that encodes and writes the element it is handed)
	var writeEv ssa.Instruction = writeAt
	var helper *ssa.Function
	if writeAt == nil {
		if h := wl.encode.Call.StaticCallee(); h != nil && c.P.inModule(h) && h.Blocks != nil && !calleeIs(&wl.encode.Call, modPath, "Entry", "Encode") {
			calls(h, func(ci ssa.CallInstruction) {
				call, ok := ci.(*ssa.Call)
				if !ok || !calleeIs(&call.Call, modPath, "DataFile", "WriteAt") || len(call.Call.Args) < 3 {
					return
				}
				if e, ok := resolve1(call.Call.Args[1]).(*ssa.Call); ok && calleeIs(&e.Call, modPath, "Entry", "Encode") {
					if _, isParam := resolve1(e.Call.Args[0]).(*ssa.Parameter); isParam {
						writeAt, helper = call, h
					}
				}
			})
			// the helper must run on the same transaction and must not switch the active file itself
			if helper != nil {
				sameRecv := len(wl.encode.Call.Args) > 0 && len(f.Params) > 0 && sameValue(wl.encode.Call.Args[0], f.Params[0])
				if !sameRecv || writesLoc(c, wl.encode, map[string]bool{"DB.ActiveFile": true, "DataFile.fileID": true}) {
					writeAt, helper = nil, nil
				} else {
					writeEv = wl.encode
					c.touch(helper)
					pre := interveningWrite(c, helper, helper.Blocks[0].Instrs[0], writeAt, map[string]bool{"DataFile.writeOff": true, "DB.ActiveFile": true}, nil)
					c.check(pre == nil, fnName(helper), "the write helper does not move the offset or the active file before it writes", c.P.ipos(writeAt), "", "the helper that writes the record changes the write offset or the active file before the WriteAt: the position read by its caller is stale")
				}
			}
		}
	}
	if writeAt == nil {
		c.undecided(fnName(f), "write call", c.P.ipos(wl.encode), "the Encode result is not passed directly to DataFile.WriteAt")
		return
	}
	// access paths are compared relative to the receiver when the write sits in a helper
	relPath := func(v ssa.Value) string {
		root, sfx := splitPath(v)
		if p, ok := root.(*ssa.Parameter); ok && len(p.Parent().Params) > 0 && p == p.Parent().Params[0] {
			return "recv" + sfx
		}
		return pathOf(v)
	}
	offArg := writeAt.Call.Args[2]
	okW := isFieldLoad(offArg, "DataFile", "writeOff")
	c.check(okW, fnName(f), "record is written at the file's own write offset", c.P.ipos(writeAt), "WriteAt offset is ActiveFile.writeOff", "the write offset passed to WriteAt is not DataFile.writeOff")
	// the file written is DB.ActiveFile and the offset belongs to the same file
	c.check(isFieldLoad(writeAt.Call.Args[0], "DB", "ActiveFile") && recordBase(pathOf(offArg)) == recordBase(pathOf(writeAt.Call.Args[0])) && pathOf(offArg) == pathOf(writeAt.Call.Args[0])+".writeOff",
		fnName(f), "offset and WriteAt receiver are the same active file", c.P.ipos(writeAt), "", "the offset is read from a different file object than the one written")
	incr := func(in ssa.Instruction) bool {
		b, ok := in.(*ssa.BinOp)
		return ok && b.Op == token.ADD && sameValue(b.X, wl.idx)
	}
	locs := map[string]bool{"DataFile.writeOff": true, "DB.ActiveFile": true}
	// Hint literals in the commit cone
	commit := c.P.MustFunc("(*Tx).Commit")
	n := 0
	inCommitCone := map[*ssa.Function]bool{}
	for _, g := range c.P.ModCone(commit) {
		inCommitCone[g] = true
	}
	for _, g := range c.P.ModCone(commit) {
		for _, h := range hintAllocs(g) {
			n++
			c.touch(g)
			fs := allocFieldStores(h)
			det := fmt.Sprintf("Hint literal #%d in %s", n, fnName(g))
			// dataPos
			dp := stripConv(resolve1(fs["dataPos"]))
			var posVal ssa.Value // value in the write-loop function
			var idxCall ssa.Instruction
			if p, ok := dp.(*ssa.Parameter); ok && g != f {
				for _, s := range c.P.CallersOf(g) {
					if s.Parent() == f {
						posVal = resolve1(s.Common().Args[paramIndex(g, p)])
						idxCall = s
					} else if inCommitCone[s.Parent()] {
						// a second indexing site outside the write loop: it cannot read the position and the
						// file id at the moment the record is written
						lf := resolve1(fs["fileID"])
						live := isFieldLoad(lf, "DataFile", "fileID") && func() bool { _, b := lastField(lf); return isFieldLoad(b, "DB", "ActiveFile") }()
						if live {
							c.bad(fnName(g), det+": indexed only from the commit write loop", c.P.ipos(s),
								"the hint is also built from "+fnName(s.Parent())+", outside the loop that writes the records, yet its file id is a live read of DB.ActiveFile.fileID: later records of the transaction may have rotated the active file, so the hint pairs the old offset with the new segment and HintKeyAndRAMIdxMode reads another record")
						} else {
							c.undecided(fnName(g), det+": indexed only from the commit write loop", c.P.ipos(s), "the hint is also built from "+fnName(s.Parent())+" with a recorded file id; the rule cannot relate it to the segment the record was written to")
						}
					}
				}
			} else if g == f {
				posVal = dp
				idxCall = h
			}
			if posVal == nil {
				c.bad(fnName(g), det+": dataPos comes from the write loop", c.P.ipos(h), "Hint.dataPos is not the offset variable of the commit write loop")
				continue
			}
			// the write helper may hand back the offset it wrote at: off, err := tx.appendToActiveFile(...)
			if ex, isEx := posVal.(*ssa.Extract); isEx && helper != nil && ex.Tuple == ssa.Value(wl.encode) {
				rets := returnsOf(helper)
				okRet := len(rets) > 0
				for _, r := range rets {
					if ex.Index >= len(r.Results) {
						okRet = false
						continue
					}
					for _, hv := range resolve(r.Results[ex.Index]) {
						if k, isC := constInt(hv); isC && (k == 0 || k == -1) && classifyRetOperand(r, errResultIndex(helper)) == retNonNil {
							continue // error exits return a dummy offset
						}
						hi, _ := hv.(ssa.Instruction)
						if !(isFieldLoad(hv, "DataFile", "writeOff") && relPath(hv) == relPath(offArg)) || hi == nil ||
							interveningWrite(c, helper, hi, writeAt, locs, nil) != nil {
							okRet = false
						}
					}
				}
				c.check(okRet, fnName(g), det+": dataPos is the offset the record was written at", c.P.ipos(h),
					"the write helper returns the write offset it read before writing", "Hint.dataPos is the result of the write helper, which does not return the offset passed to WriteAt")
				// fileID and rotation are judged below relative to the helper call
				fid := resolve1(fs["fileID"])
				okF := isFieldLoad(fid, "DataFile", "fileID") && func() bool { _, b := lastField(fid); return isFieldLoad(b, "DB", "ActiveFile") }()
				c.check(okF, fnName(g), det+": fileID is the active file's id", c.P.ipos(h), "", "Hint.fileID is not read from DB.ActiveFile.fileID")
				if okF && idxCall != nil {
					bad := interveningWrite(c, f, writeEv, idxCall, map[string]bool{"DB.ActiveFile": true, "DataFile.fileID": true}, incr)
					msg := ""
					if bad != nil {
						msg = "between writing the record and indexing it, " + c.P.ipos(bad) + " may switch the active file: the hint would name another segment"
					}
					c.check(bad == nil, fnName(g), det+": no rotation between writing and indexing", c.P.ipos(h), "", msg)
				}
				continue
			}
			same := isFieldLoad(posVal, "DataFile", "writeOff") && relPath(posVal) == relPath(offArg)
			c.check(same, fnName(g), det+": dataPos is the offset the record was written at", c.P.ipos(h),
				"Hint.dataPos and the WriteAt offset are reads of the same location "+dispPath(offArg), "Hint.dataPos ("+dispPath(posVal)+") is not the location passed to WriteAt ("+dispPath(offArg)+")")
			if same {
				pi, _ := posVal.(ssa.Instruction)
				oi, _ := resolve1(offArg).(ssa.Instruction)
				if helper != nil {
					oi = writeEv // in f the helper call is where the offset is read again and the record written
				}
				if pi != nil && oi != nil {
					first, second := pi, oi
					if !forwardHas(f, pi, oi, incr) {
						first, second = oi, pi
					}
					var bad ssa.Instruction
					if first != second {
						bad = interveningWrite(c, f, first, second, locs, incr)
					}
					if bad == nil {
						// also nothing between the later read and the WriteAt itself
						if second != writeEv {
							bad = interveningWrite(c, f, second, writeEv, locs, incr)
						}
					}
					msg := ""
					if bad != nil {
						msg = "between reading the offset for the index and writing the record, " + c.P.ipos(bad) + " (" + shortInstr(bad) + ") may change the active file or its write offset"
					}
					c.check(bad == nil, fnName(g), det+": no rotation or offset change between reading dataPos and writing", c.P.ipos(h), "", msg)
				}
			}
			// fileID
			fid := resolve1(fs["fileID"])
			okF := isFieldLoad(fid, "DataFile", "fileID") && func() bool { _, b := lastField(fid); return isFieldLoad(b, "DB", "ActiveFile") }()
			c.check(okF, fnName(g), det+": fileID is the active file's id", c.P.ipos(h), "", "Hint.fileID is not read from DB.ActiveFile.fileID")
			if okF && idxCall != nil {
				bad := interveningWrite(c, f, writeEv, idxCall, map[string]bool{"DB.ActiveFile": true, "DataFile.fileID": true}, incr)
				msg := ""
				if bad != nil {
					msg = "between writing the record and indexing it, " + c.P.ipos(bad) + " may switch the active file: the hint would name another segment"
				}
				c.check(bad == nil, fnName(g), det+": no rotation between writing and indexing", c.P.ipos(h), "", msg)
			}
		}
	}
	c.minInstances("Hint literals in the commit cone", n, 2)
	// open side: the hint built while scanning names the scan position
	nOpen := 0
	for _, sl := range findScanLoops(c.P) {
		for _, h := range hintAllocs(sl.fn) {
			nOpen++
			c.touch(sl.fn)
			fs := allocFieldStores(h)
			det := fmt.Sprintf("replay Hint literal #%d", nOpen)
			c.check(linEq(linOf(fs["dataPos"], nil), linOf(sl.read.Call.Args[1], nil)), fnName(sl.fn), det+": dataPos is the scan offset", c.P.ipos(h),
				"", "the hint built during replay does not record the offset the entry was read at")
			// file id: the id used to open the file being scanned
			okF := false
			if ex, ok := resolve1(sl.read.Call.Args[0]).(*ssa.Extract); ok {
				if nd, ok := ex.Tuple.(*ssa.Call); ok && calleeIs(&nd.Call, modPath, "", "NewDataFile") {
					if gp, ok := resolve1(nd.Call.Args[0]).(*ssa.Call); ok && calleeIs(&gp.Call, modPath, "DB", "getDataPath") {
						okF = linEq(linOf(gp.Call.Args[1], nil), linOf(fs["fileID"], nil))
					}
				}
			}
			c.check(okF, fnName(sl.fn), det+": fileID is the id of the file being scanned", c.P.ipos(h), "", "the hint built during replay names a different file than the one being scanned")
		}
	}
	c.minInstances("Hint literals in scan loops", nOpen, 1)
}

// ---- field memory resolution ---------------------------------------------------

// fieldValueAt: if load L of x.f is dominated by a store to the same path in
// the same function with no possible write to that field in between, return
// the stored value; else L.
func fieldValueAt(c *Ctx, v ssa.Value) ssa.Value {
	ld, ok := v.(*ssa.UnOp)
	if !ok || ld.Op != token.MUL {
		return v
	}
	fa, ok := ld.X.(*ssa.FieldAddr)
	if !ok {
		return v
	}
	fn := ld.Parent()
	loc := locOfAddr(fa)
	path := pathOf(fa)
	var best *ssa.Store
	instrs(fn, func(in ssa.Instruction) {
		st, ok := in.(*ssa.Store)
		if !ok || locOfAddr(st.Addr) != loc || pathOf(st.Addr) != path {
			return
		}
		// st must dominate ld
		if st.Block() == ld.Block() {
			if instrIndex(st) > instrIndex(ld) {
				return
			}
		} else if !st.Block().Dominates(ld.Block()) {
			return
		}
		if interveningWrite(c, fn, st, ld, map[string]bool{loc: true}, nil) != nil {
			return
		}
		best = st
	})
	if best != nil {
		return best.Val
	}
	return v
}

func ruleActiveFile(c *Ctx) {
	n := 0
	for _, st := range storesToField(c.P, "DB", "ActiveFile") {
		v := resolve1(st.Val)
		ex, ok := v.(*ssa.Extract)
		if !ok {
			continue
		}
		nd, ok := ex.Tuple.(*ssa.Call)
		if !ok || !calleeIs(&nd.Call, modPath, "", "NewDataFile") {
			continue
		}
		f := st.Parent()
		n++
		c.touch(f)
		c.Sites++
		gp, ok := resolve1(nd.Call.Args[0]).(*ssa.Call)
		if !ok || !calleeIs(&gp.Call, modPath, "DB", "getDataPath") {
			c.bad(fnName(f), "active file opened from getDataPath(id)", c.P.ipos(st), "the new active file is not opened from a data path built from a file id")
			continue
		}
		idArg := gp.Call.Args[1]
		sym := func(x ssa.Value) string { return pathOf(x) }
		var lx func(x ssa.Value) lin
		lx = func(x ssa.Value) lin {
			x = resolve1(x)
			r := fieldValueAt(c, x)
			if r != x {
				// resolved through a dominating store: normalise the stored expression, resolving its leaves as of the store... its leaves are older loads
				return linOf(r, sym)
			}
			return linOf(x, sym)
		}
		want := lx(idArg)
		isIDStore := func(in ssa.Instruction) bool {
			s2, ok := in.(*ssa.Store)
			if !ok {
				return false
			}
			fa, ok := s2.Addr.(*ssa.FieldAddr)
			if !ok || fieldVarOf(fa).Name() != "fileID" || !namedIs(fa.X.Type(), "DataFile") {
				return false
			}
			// the object is the new data file: the extract itself or a load of DB.ActiveFile
			if !(sameValue(fa.X, ex) || isFieldLoad(fa.X, "DB", "ActiveFile")) {
				return false
			}
			return linEq(lx(s2.Val), want)
		}
		p := findPath(f, st, isNormalReturn, isIDStore, nil)
		// a store before the ActiveFile assignment also counts (dataFile.fileID = id; db.ActiveFile = dataFile)
		if p != nil {
			pre := false
			instrs(f, func(in ssa.Instruction) {
				if isIDStore(in) && forwardHas(f, in, st, nil) && findPath(f, nd, func(x ssa.Instruction) bool { return x == ssa.Instruction(st) }, func(x ssa.Instruction) bool { return x == in }, nil) == nil {
					pre = true
				}
			})
			if pre {
				p = nil
			}
		}
		c.check(p == nil, fnName(f), "new active file gets its file id", c.P.ipos(st),
			"every normal return after switching DB.ActiveFile has stored the id it was opened with into its fileID", "DB.ActiveFile is switched to a file opened as getDataPath("+dispPath(idArg)+") but its fileID field is left unset (0): index hints written afterwards name segment 0", c.witnessOf(p)...)
	}
	c.minInstances("assignments of a new DB.ActiveFile", n, 1)
}

// ruleUpdateRecord: overwrite completeness.
func ruleUpdateRecord(c *Ctx) {
	f := c.P.MustFunc("(*Record).UpdateRecord")
	c.touch(f)
	st := c.P.Named("", "Record").Underlying().(*types.Struct)
	for i := 0; i < st.NumFields(); i++ {
		fld := st.Field(i)
		isStore := func(in ssa.Instruction) bool {
			s, ok := in.(*ssa.Store)
			if !ok {
				return false
			}
			fa, ok := s.Addr.(*ssa.FieldAddr)
			if !ok || fieldVarOf(fa) != fld || !sameValue(fa.X, f.Params[0]) {
				return false
			}
			// the stored value is a parameter of the update (the new hint / entry)
			_, isParam := resolve1(s.Val).(*ssa.Parameter)
			return isParam
		}
		p := findPath(f, nil, func(in ssa.Instruction) bool { _, ok := in.(*ssa.Return); return ok }, isStore, nil)
		c.check(p == nil, fnName(f), "overwrite replaces Record."+fld.Name(), c.P.pos(f.Pos()), "", "an overwrite of an existing key leaves Record."+fld.Name()+" at its old value: reads return stale data", c.witnessOf(p)...)
	}
	// Insert reaches UpdateRecord on the key-exists path and passes its own hint and entry
	ins := c.P.MustFunc("(*BPTree).Insert")
	c.touch(ins)
	okb := false
	calls(ins, func(ci ssa.CallInstruction) {
		cc := ci.Common()
		if calleeIs(cc, modPath, "Record", "UpdateRecord") {
			// args (r, h, e) with h,e parameters of Insert
			_, hp := resolve1(cc.Args[1]).(*ssa.Parameter)
			_, ep := resolve1(cc.Args[2]).(*ssa.Parameter)
			okb = hp && ep && namedIs(cc.Args[1].Type(), "Hint") && namedIs(cc.Args[2].Type(), "Entry")
		}
	})
	if !okb {
		// the key-exists path may live in a helper that is handed Insert's own hint and entry
		calls(ins, func(ci ssa.CallInstruction) {
			h := ci.Common().StaticCallee()
			if okb || h == nil || !c.P.inModule(h) || h.Blocks == nil {
				return
			}
			calls(h, func(cj ssa.CallInstruction) {
				cc := cj.Common()
				if !calleeIs(cc, modPath, "Record", "UpdateRecord") {
					return
				}
				hp, ok1 := resolve1(cc.Args[1]).(*ssa.Parameter)
				ep, ok2 := resolve1(cc.Args[2]).(*ssa.Parameter)
				if !ok1 || !ok2 || !namedIs(cc.Args[1].Type(), "Hint") || !namedIs(cc.Args[2].Type(), "Entry") {
					return
				}
				hi, ei := paramIndex(h, hp), paramIndex(h, ep)
				args := ci.Common().Args
				if hi < len(args) && ei < len(args) {
					_, a1 := resolve1(args[hi]).(*ssa.Parameter)
					_, a2 := resolve1(args[ei]).(*ssa.Parameter)
					if a1 && a2 {
						okb = true
						c.touch(h)
					}
				}
			})
		})
	}
	c.check(okb, fnName(ins), "existing key is overwritten with the new hint and entry", c.P.pos(ins.Pos()), "", "Insert does not update an existing record with the hint and entry it was given")
	// ... on EVERY path that found the key: from the edge on which Find reported the record, no return is
	// reached without the update (directly or through the helper recognised above)
	var findCall *ssa.Call
	calls(ins, func(ci ssa.CallInstruction) {
		if call, ok := ci.(*ssa.Call); ok && calleeIs(&call.Call, modPath, "BPTree", "Find") {
			findCall = call
		}
	})
	if findCall != nil {
		isUpdate := func(in ssa.Instruction) bool {
			cc := callOf(in)
			if cc == nil {
				return false
			}
			if calleeIs(cc, modPath, "Record", "UpdateRecord") {
				return true
			}
			if h := cc.StaticCallee(); h != nil && c.P.inModule(h) && h.Blocks != nil {
				// a helper all of whose paths update the record it is handed
				var upd []ssa.Instruction
				calls(h, func(cj ssa.CallInstruction) {
					if calleeIs(cj.Common(), modPath, "Record", "UpdateRecord") {
						upd = append(upd, cj)
					}
				})
				if len(upd) > 0 {
					anyRet := func(x ssa.Instruction) bool { _, ok := x.(*ssa.Return); return ok }
					isU := func(x ssa.Instruction) bool {
						for _, u := range upd {
							if u == x {
								return true
							}
						}
						return false
					}
					return findPath(h, nil, anyRet, isU, nil) == nil
				}
			}
			return false
		}
		// edges on which the found record is non-nil
		var rec ssa.Value
		for _, r := range *findCall.Referrers() {
			if ex, ok := r.(*ssa.Extract); ok && ex.Index == 0 {
				rec = ex
			}
		}
		if rec != nil {
			found := nilEdges(ins, false, func(x ssa.Value) bool { return sameValue(x, rec) })
			var w []ssa.Instruction
			for _, e := range found {
				start := e.b.Succs[e.si]
				if len(start.Instrs) == 0 {
					continue
				}
				first := start.Instrs[0]
				if isUpdate(first) {
					continue
				}
				if p := findPath(ins, first, func(x ssa.Instruction) bool { _, ok := x.(*ssa.Return); return ok }, isUpdate, nil); p != nil {
					w = p
				}
			}
			c.check(len(found) > 0 && w == nil, fnName(ins), "every path that found the key overwrites the record", c.P.ipos(findCall), "",
				"on some path Insert returns for an existing key without replacing the record's hint and entry together (for instance only the hint, or nothing, under a flag): the cached entry and the position on disk drift apart, so the two RAM index modes return different values", c.witnessOf(w)...)
		}
	}
}
