package main

import (
	"fmt"
	"go/types"

	"golang.org/x/tools/go/ssa"
)

// crcEqualEdges: edges of f on which GetCrc(rec, ...) == rec.crc is known to hold.
func crcEqualEdges(c *Ctx, f *ssa.Function) []succEdge {
	return eqEdges(f, true, func(x, y ssa.Value) bool {
		cx, ok := resolve1(x).(*ssa.Call)
		if !ok {
			return false
		}
		cal := cx.Call.StaticCallee()
		if cal == nil || cal.Name() != "GetCrc" || !c.P.inModule(cal) {
			return false
		}
		fv, base := lastField(y)
		if fv == nil || fv.Name() != "crc" {
			return false
		}
		r1, _ := splitPath(cx.Call.Args[0])
		r2, _ := splitPath(base)
		return r1 == r2
	})
}

// crcVerifiedDecoder: f has a pointer result and every return where it may be non-nil is dominated by a CRC match.
func crcVerifiedDecoder(c *Ctx, f *ssa.Function) bool {
	ri := -1
	res := f.Signature.Results()
	for i := 0; i < res.Len(); i++ {
		if _, ok := res.At(i).Type().Underlying().(*types.Pointer); ok {
			ri = i
		}
	}
	if ri < 0 {
		return false
	}
	edges := crcEqualEdges(c, f)
	if len(edges) == 0 {
		return false
	}
	for _, r := range returnsOf(f) {
		if classifyRetOperand(r, ri) == retNil {
			continue
		}
		if !edgesDominate(f, edges, r.Block()) {
			return false
		}
	}
	return true
}

// ---------------------------------------------------------------------------
// R-RAWREAD (C21): segment bytes reach callers only through the CRC-verifying decoder. Every
// call of RWManager.ReadAt outside the RWManager implementations sits in a function whose
// every non-nil record return is dominated by the CRC comparison. A second reader that seeks
// straight to a value (using sizes remembered in the index) serves flipped bits as data.

func ruleRawRead(c *Ctx) {
	n := 0
	per := map[*ssa.Function]int{}
	rwT := c.P.Named("", "RWManager")
	for _, f := range c.P.SrcFuncs {
		if !c.P.inModule(f) {
			continue
		}
		// the implementations themselves
		if f.Signature.Recv() != nil {
			if rn := namedOf(f.Signature.Recv().Type()); rn != nil && rwT != nil && types.Implements(types.NewPointer(rn), rwT.Underlying().(*types.Interface)) {
				continue
			}
		}
		calls(f, func(ci ssa.CallInstruction) {
			cc := ci.Common()
			isRead := false
			if cc.IsInvoke() && cc.Method.Name() == "ReadAt" && namedOf(cc.Value.Type()) == rwT {
				isRead = true
			}
			if cal := cc.StaticCallee(); cal != nil && cal.Name() == "ReadAt" && cal.Signature.Recv() != nil {
				if rn := namedOf(cal.Signature.Recv().Type()); rn != nil && rwT != nil && rn.Obj().Pkg() != nil && rn.Obj().Pkg().Path() == modPath &&
					types.Implements(types.NewPointer(rn), rwT.Underlying().(*types.Interface)) {
					isRead = true
				}
			}
			if !isRead {
				return
			}
			n++
			per[f]++
			c.touch(f)
			c.check(crcVerifiedDecoder(c, f), fnName(f), fmt.Sprintf("segment read #%d happens inside a CRC-verifying decoder", per[f]), c.P.ipos(ci), "",
				"segment bytes are read by a function that can return them without the stored and recomputed CRC having compared equal: a bit flipped on disk is served as data")
		})
	}
	c.Sites += n
	c.minInstances("RWManager.ReadAt call sites", n, 4)
}
