package main

import (
	"fmt"
	"go/token"
	"go/types"
	"strings"

	"golang.org/x/tools/go/ssa"
)

// crcEqualEdges: edges of f on which GetCrc(rec, ...) == rec.crc is known to hold.
func crcEqualEdges(c *Ctx, f *ssa.Function) []succEdge {
	return eqEdges(f, true, func(x, y ssa.Value) bool {
		cx, ok := resolve1(x).(*ssa.Call)
		if !ok {
			return false
		}
		cal := cx.Call.StaticCallee()
		if cal == nil || cal.Name() != "GetCrc" || !c.P.inModule(cal) {
			return false
		}
		fv, base := lastField(y)
		if fv == nil || fv.Name() != "crc" {
			return false
		}
		r1, _ := splitPath(cx.Call.Args[0])
		r2, _ := splitPath(base)
		return r1 == r2
	})
}

// crcVerifiedDecoder: f has a pointer result and every return where it may be non-nil is dominated by a CRC match.
func crcVerifiedDecoder(c *Ctx, f *ssa.Function) bool {
	ri := -1
	res := f.Signature.Results()
	for i := 0; i < res.Len(); i++ {
		if _, ok := res.At(i).Type().Underlying().(*types.Pointer); ok {
			ri = i
		}
	}
	if ri < 0 {
		return false
	}
	edges := crcEqualEdges(c, f)
	if len(edges) == 0 {
		return false
	}
	for _, r := range returnsOf(f) {
		if classifyRetOperand(r, ri) == retNil {
			continue
		}
		if !edgesDominate(f, edges, r.Block()) {
			return false
		}
	}
	return true
}

// ---------------------------------------------------------------------------
// R-RAWREAD (C21): segment bytes reach callers only through the CRC-verifying decoder. Every
// call of RWManager.ReadAt outside the RWManager implementations sits in a function whose
// every non-nil record return is dominated by the CRC comparison. A second reader that seeks
// straight to a value (using sizes remembered in the index) serves flipped bits as data.

func ruleRawRead(c *Ctx) {
	n := 0
	per := map[*ssa.Function]int{}
	rwT := c.P.Named("", "RWManager")
	for _, f := range c.P.SrcFuncs {
		if !c.P.inModule(f) {
			continue
		}
		// the implementations themselves
		if f.Signature.Recv() != nil {
			if rn := namedOf(f.Signature.Recv().Type()); rn != nil && rwT != nil && types.Implements(types.NewPointer(rn), rwT.Underlying().(*types.Interface)) {
				continue
			}
		}
		calls(f, func(ci ssa.CallInstruction) {
			cc := ci.Common()
			isRead := false
			if cc.IsInvoke() && cc.Method.Name() == "ReadAt" && namedOf(cc.Value.Type()) == rwT {
				isRead = true
			}
			if cal := cc.StaticCallee(); cal != nil && cal.Name() == "ReadAt" && cal.Signature.Recv() != nil {
				if rn := namedOf(cal.Signature.Recv().Type()); rn != nil && rwT != nil && rn.Obj().Pkg() != nil && rn.Obj().Pkg().Path() == modPath &&
					types.Implements(types.NewPointer(rn), rwT.Underlying().(*types.Interface)) {
					isRead = true
				}
			}
			if !isRead {
				return
			}
			n++
			per[f]++
			c.touch(f)
			c.check(crcVerifiedDecoder(c, f) || rawReadHelperOf(c, f, 0), fnName(f), fmt.Sprintf("segment read #%d happens inside a CRC-verifying decoder", per[f]), c.P.ipos(ci), "",
				"segment bytes are read by a function that can return them without the stored and recomputed CRC having compared equal: a bit flipped on disk is served as data")
		})
	}
	c.Sites += n
	c.minInstances("RWManager.ReadAt call sites", n, 2)
}

// ---------------------------------------------------------------------------
// R-RWBOUNDS (C09, C19): what the segment scan loops tolerate as "end of data" is io.EOF, a zero
// header, and any error once the offset has reached the capacity. FileIO reports a read that
// starts inside the file and is cut short by its end as a short read / io.EOF. So an RWManager
// implementation must not refuse (with one of the module's own errors) a ReadAt that merely
// extends past the end: a bounds test that involves the LENGTH OF THE BUFFER together with the
// offset makes the 42-byte header probe at the first free offset fail whenever fewer than 42
// free bytes remain, and Open fails on a directory written by successful calls.

func ruleRWBounds(c *Ctx) {
	rwT := c.P.Named("", "RWManager")
	if rwT == nil {
		c.undecided("RWManager", "interface", "", "type not found")
		return
	}
	iface := rwT.Underlying().(*types.Interface)
	n := 0
	for _, f := range c.P.SrcFuncs {
		if !c.P.inModule(f) || f.Name() != "ReadAt" || f.Signature.Recv() == nil {
			continue
		}
		rn := namedOf(f.Signature.Recv().Type())
		if rn == nil || !types.Implements(types.NewPointer(rn), iface) {
			continue
		}
		n++
		c.touch(f)
		// does it return a module error (not io.EOF, not the error of an underlying call)?
		ownErr := false
		ei := errResultIndex(f)
		for _, r := range returnsOf(f) {
			for _, v := range resolve(r.Results[ei]) {
				if ld, ok := v.(*ssa.UnOp); ok {
					if g, ok := ld.X.(*ssa.Global); ok && g.Pkg != nil && g.Pkg.Pkg.Path() == modPath {
						ownErr = true
					}
				}
				if call, ok := v.(*ssa.Call); ok {
					if cal := call.Call.StaticCallee(); cal != nil && (cal.String() == "errors.New" || cal.String() == "fmt.Errorf") {
						ownErr = true
					}
				}
			}
		}
		// comparisons that combine an integer parameter with len(of a slice parameter), in f and in the bool helpers it calls
		subjects := []*ssa.Function{f}
		bind := map[*ssa.Parameter]ssa.Value{} // helper parameter -> argument in f
		calls(f, func(ci ssa.CallInstruction) {
			cal := ci.Common().StaticCallee()
			if cal != nil && c.P.inModule(cal) && cal.Blocks != nil && cal.Signature.Results().Len() == 1 {
				if b, ok := cal.Signature.Results().At(0).Type().Underlying().(*types.Basic); ok && b.Kind() == types.Bool {
					subjects = append(subjects, cal)
					for i, a := range ci.Common().Args {
						if i < len(cal.Params) {
							bind[cal.Params[i]] = a
						}
					}
				}
			}
		})
		var offender ssa.Instruction
		for _, g := range subjects {
			var sym func(v ssa.Value) string
			sym = func(v ssa.Value) string {
				v = resolve1(v)
				if p, ok := v.(*ssa.Parameter); ok && p.Parent() != f {
					if a, ok := bind[p]; ok {
						a = resolve1(stripConv(a))
						if call, ok := a.(*ssa.Call); ok {
							if bi, ok := call.Call.Value.(*ssa.Builtin); ok && bi.Name() == "len" {
								return "len(" + sym(call.Call.Args[0]) + ")"
							}
						}
						return sym(a)
					}
				}
				if p, ok := v.(*ssa.Parameter); ok {
					if _, isSlice := p.Type().Underlying().(*types.Slice); isSlice {
						return "bufparam"
					}
					if isIntegerType(p.Type()) {
						return "intparam:" + p.Name()
					}
				}
				return pathOf(v)
			}
			instrs(g, func(in ssa.Instruction) {
				b, ok := in.(*ssa.BinOp)
				if !ok {
					return
				}
				switch b.Op {
				case token.LSS, token.LEQ, token.GTR, token.GEQ:
				default:
					return
				}
				d := linAdd(linOf(b.X, sym), linOf(b.Y, sym), -1)
				hasInt, hasBuf := false, false
				for k, v := range d.terms {
					if v == 0 {
						continue
					}
					if strings.HasPrefix(k, "intparam:") {
						hasInt = true
					}
					if strings.Contains(k, "len(bufparam)") {
						hasBuf = true
					}
				}
				if hasInt && hasBuf && offender == nil {
					offender = in
				}
			})
		}
		bad := ownErr && offender != nil
		pos := c.P.pos(f.Pos())
		if offender != nil {
			pos = c.P.ipos(offender)
		}
		c.check(!bad, fnName(f), "a read cut short by the end of the segment is not refused with a module error", pos, "",
			"this ReadAt compares offset+len(buffer) with the size of the region and returns one of the module's own errors: a header probe that starts inside the segment but extends past its end (fewer free bytes than a header) is refused, which no scan loop treats as end of data, so Open fails on an almost-full segment")
	}
	c.Sites += n
	c.minInstances("RWManager.ReadAt implementations", n, 2)
}

// rawReadHelperOf: f is an unexported helper all of whose callers are CRC-verifying decoders (or such
// helpers themselves): the bytes it reads are returned to code that verifies them before returning.
func rawReadHelperOf(c *Ctx, f *ssa.Function, depth int) bool {
	if depth > 2 || f.Object() == nil || f.Object().Exported() {
		return false
	}
	callers := c.P.CallersOf(f)
	if len(callers) == 0 {
		return false
	}
	for _, s := range callers {
		g := s.Parent()
		if g == f {
			continue
		}
		if !crcVerifiedDecoder(c, g) && !rawReadHelperOf(c, g, depth+1) {
			return false
		}
	}
	return true
}

// readHelperParams recognises a payload-read helper: it allocates make([]byte, size) from one parameter,
// reads it with ReadAt at an offset that is another parameter, and returns that buffer as its first
// result on every path where the result is not nil. Returns the indexes of the offset and size parameters.
func readHelperParams(f *ssa.Function) (offIdx, sizeIdx int, ok bool) {
	if f.Signature.Results().Len() < 1 {
		return 0, 0, false
	}
	var buf *ssa.MakeSlice
	offIdx, sizeIdx = -1, -1
	n := 0
	calls(f, func(ci ssa.CallInstruction) {
		cc := ci.Common()
		isRead := calleeIs(cc, pkgOS, "File", "ReadAt") || (cc.IsInvoke() && cc.Method.Name() == "ReadAt" && isRWManager(cc.Value.Type()))
		if !isRead {
			return
		}
		n++
		args := argsOf(cc)
		ms, isMS := args[0].(*ssa.MakeSlice)
		if !isMS {
			return
		}
		ps, ok1 := stripConv(resolve1(ms.Len)).(*ssa.Parameter)
		po, ok2 := stripConv(resolve1(args[1])).(*ssa.Parameter)
		if ok1 && ok2 {
			buf = ms
			sizeIdx, offIdx = paramIndex(f, ps), paramIndex(f, po)
		}
	})
	if n != 1 || buf == nil {
		return 0, 0, false
	}
	for _, r := range returnsOf(f) {
		for _, v := range resolve(r.Results[0]) {
			if isNilConst(v) {
				continue
			}
			if v != ssa.Value(buf) {
				return 0, 0, false
			}
		}
	}
	return offIdx, sizeIdx, true
}
