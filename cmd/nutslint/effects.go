package main

import (
	"fmt"
	"go/token"
	"go/types"
	"sort"
	"strings"

	"golang.org/x/tools/go/ssa"
)

// ---------------------------------------------------------------------------
// Engine A: effect / ownership summaries.
//
// Every SSA value gets a cell with three root sets: s[0] = roots of the object
// the value points to (self), s[1] = roots of the objects directly stored in
// that object, s[2] = everything deeper. Roots are tokens: "F" (allocated in
// this activation), "P<i>.<d>" (depth d below parameter i), "G:<name>",
// "FV" (free variable of a closure), "U" (unknown). Summaries are parametric
// in the P tokens and instantiated at call sites with the actuals' cells.

type rootSet map[string]struct{}

func (r rootSet) add(t string) bool {
	if _, ok := r[t]; ok {
		return false
	}
	r[t] = struct{}{}
	return true
}

func (r rootSet) addAll(o rootSet) bool {
	ch := false
	for t := range o {
		if r.add(t) {
			ch = true
		}
	}
	return ch
}

func (r rootSet) list() []string {
	var out []string
	for t := range r {
		out = append(out, t)
	}
	sort.Strings(out)
	return out
}

type cell struct{ s [3]rootSet }

func newCell() *cell { return &cell{[3]rootSet{{}, {}, {}}} }

type effEvent struct {
	Loc     string
	Root    string
	Pos     token.Pos
	Fn      *ssa.Function // function containing the primitive write/read
	CondPar int           // -1: unconditional; else event happens only if bool parameter CondPar == CondVal
	CondVal bool
	Via     string // call chain (outermost first) for reports
}

func (e *effEvent) key() string {
	return fmt.Sprintf("%s|%s|%d|%v", e.Loc, e.Root, e.CondPar, e.CondVal)
}

type effSummary struct {
	writes map[string]*effEvent
	reads  map[string]*effEvent
	ret    []*cell
}

type Effects struct {
	p     *Prog
	sum   map[*ssa.Function]*effSummary
	cells map[*ssa.Function]map[ssa.Value]*cell
	round int
}

func isAggregate(t types.Type) bool {
	switch t.Underlying().(type) {
	case *types.Struct, *types.Array:
		return true
	}
	return false
}

func isPointerLike(t types.Type) bool {
	switch u := t.Underlying().(type) {
	case *types.Pointer, *types.Slice, *types.Map, *types.Interface, *types.Signature, *types.Chan:
		return true
	case *types.Basic:
		return u.Kind() == types.UnsafePointer
	}
	return false
}

func getEffects(c *Ctx) *Effects {
	if c.fx != nil {
		return c.fx
	}
	e := &Effects{p: c.P, sum: map[*ssa.Function]*effSummary{}, cells: map[*ssa.Function]map[ssa.Value]*cell{}}
	for _, f := range c.P.SrcFuncs {
		e.sum[f] = &effSummary{writes: map[string]*effEvent{}, reads: map[string]*effEvent{}}
	}
	for e.round = 0; e.round < 40; e.round++ {
		changed := false
		for _, f := range c.P.SrcFuncs {
			if e.analyse(f) {
				changed = true
			}
		}
		if !changed {
			break
		}
	}
	if e.round >= 40 {
		fail("effect summaries did not converge in 40 rounds")
	}
	c.fx = e
	return e
}

// aliasBase strips operations that yield an address inside / a view of the same object.
func aliasBase(v ssa.Value) ssa.Value {
	for {
		switch x := v.(type) {
		case *ssa.FieldAddr:
			v = x.X
		case *ssa.IndexAddr:
			v = x.X
		case *ssa.Slice:
			v = x.X
		case *ssa.ChangeType:
			v = x.X
		case *ssa.MakeInterface:
			if isAggregate(x.X.Type()) {
				return v
			}
			v = x.X
		case *ssa.ChangeInterface:
			v = x.X
		case *ssa.TypeAssert:
			if x.CommaOk {
				return v
			}
			v = x.X
		case *ssa.SliceToArrayPointer:
			v = x.X
		default:
			return v
		}
	}
}

type fstate struct {
	e     *Effects
	fn    *ssa.Function
	cells map[ssa.Value]*cell
	ch    bool
	sum   *effSummary
}

func (s *fstate) cellOf(v ssa.Value) *cell {
	v = aliasBase(v)
	if c, ok := s.cells[v]; ok {
		return c
	}
	c := newCell()
	s.cells[v] = c
	switch x := v.(type) {
	case *ssa.Parameter:
		i := paramIndex(s.fn, x)
		if isAggregate(x.Type()) {
			c.s[1].add(fmt.Sprintf("P%d.1", i))
			c.s[2].add(fmt.Sprintf("P%d.2", i))
		} else if isPointerLike(x.Type()) {
			c.s[0].add(fmt.Sprintf("P%d.0", i))
			c.s[1].add(fmt.Sprintf("P%d.1", i))
			c.s[2].add(fmt.Sprintf("P%d.2", i))
		}
	case *ssa.FreeVar:
		for d := 0; d < 3; d++ {
			c.s[d].add("FV")
		}
	case *ssa.Global:
		t := "G:" + x.Name()
		if x.Pkg != nil && x.Pkg.Pkg.Path() != modPath {
			t = "G:" + x.Pkg.Pkg.Name() + "." + x.Name()
		}
		for d := 0; d < 3; d++ {
			c.s[d].add(t)
		}
	case *ssa.Alloc, *ssa.MakeSlice, *ssa.MakeMap, *ssa.MakeChan, *ssa.MakeClosure:
		c.s[0].add("F")
	case *ssa.MakeInterface:
		// boxed aggregate: a fresh box holding the aggregate's contents
		c.s[0].add("F")
	}
	return c
}

func (s *fstate) union(dst *cell, d int, src rootSet) {
	if dst.s[d].addAll(src) {
		s.ch = true
	}
}

// setShift: dst = pointee view of src (one level down).
func (s *fstate) setShift(dst, src *cell) {
	s.union(dst, 0, src.s[1])
	s.union(dst, 1, src.s[2])
	s.union(dst, 2, src.s[2])
}

func (s *fstate) setCopy(dst, src *cell) {
	for d := 0; d < 3; d++ {
		s.union(dst, d, src.s[d])
	}
}

// storeInto: the object(s) addressed by cell a now hold val.
func (s *fstate) storeInto(a *cell, val ssa.Value) {
	vc := s.cellOf(val)
	if isAggregate(val.Type()) {
		s.union(a, 1, vc.s[1])
		s.union(a, 2, vc.s[2])
		return
	}
	s.union(a, 1, vc.s[0])
	s.union(a, 2, vc.s[1])
	s.union(a, 2, vc.s[2])
}

func typeStr(t types.Type) string {
	return types.TypeString(t, func(p *types.Package) string {
		if p.Path() == modPath {
			return ""
		}
		return p.Name()
	})
}

// containerDesc names the container a slice/map value was taken from.
func containerDesc(v ssa.Value) string {
	for {
		switch x := v.(type) {
		case *ssa.Slice:
			v = x.X
			continue
		case *ssa.ChangeType:
			v = x.X
			continue
		}
		break
	}
	v = resolve1(v)
	if fv, base := lastField(v); fv != nil {
		if _, isConv := v.(*ssa.Convert); !isConv {
			return fieldQual(base.Type(), fv)
		}
	}
	if g, ok := v.(*ssa.Global); ok {
		return "global " + g.Name()
	}
	if u, ok := v.(*ssa.UnOp); ok && u.Op == token.MUL {
		if g, ok := u.X.(*ssa.Global); ok {
			return "global " + g.Name()
		}
	}
	return typeStr(v.Type())
}

func locOfAddr(a ssa.Value) string {
	switch x := a.(type) {
	case *ssa.FieldAddr:
		return fieldQual(x.X.Type(), fieldVarOf(x))
	case *ssa.IndexAddr:
		return "elem of " + containerDesc(x.X)
	case *ssa.Global:
		return "global " + x.Name()
	}
	return "*" + typeStr(a.Type())
}

func (s *fstate) event(m map[string]*effEvent, loc string, roots rootSet, in ssa.Instruction) {
	cp, cv := s.condOf(in.Block())
	for r := range roots {
		if r == "F" {
			continue
		}
		ev := &effEvent{Loc: loc, Root: r, Pos: in.Pos(), Fn: s.fn, CondPar: cp, CondVal: cv}
		if !ev.Pos.IsValid() {
			ev.Pos = s.fn.Pos()
		}
		k := ev.key()
		if _, ok := m[k]; !ok {
			// an unconditional version subsumes conditional ones
			m[k] = ev
			s.ch = true
		}
	}
}

var condMemo = map[*ssa.BasicBlock][2]int{}

// condOf: is block b dominated by "bool parameter k is true/false"?
func (s *fstate) condOf(b *ssa.BasicBlock) (int, bool) {
	if v, ok := condMemo[b]; ok {
		return v[0], v[1] == 1
	}
	res := [2]int{-1, 0}
	for i, p := range s.fn.Params {
		bt, ok := p.Type().Underlying().(*types.Basic)
		if !ok || bt.Kind() != types.Bool {
			continue
		}
		match := func(x ssa.Value) bool { return resolve1(x) == ssa.Value(p) }
		if es := boolEdges(s.fn, true, match); len(es) > 0 && edgesDominate(s.fn, es, b) {
			res = [2]int{i, 1}
			break
		}
		if es := boolEdges(s.fn, false, match); len(es) > 0 && edgesDominate(s.fn, es, b) {
			res = [2]int{i, 0}
			break
		}
	}
	condMemo[b] = res
	return res[0], res[1] == 1
}

func (e *Effects) analyse(f *ssa.Function) bool {
	cs := e.cells[f]
	if cs == nil {
		cs = map[ssa.Value]*cell{}
		e.cells[f] = cs
	}
	s := &fstate{e: e, fn: f, cells: cs, sum: e.sum[f]}
	// iterate the function body to a local fixpoint
	for it := 0; it < 30; it++ {
		before := s.ch
		s.ch = false
		for _, b := range f.Blocks {
			if b == f.Recover {
				continue
			}
			for _, in := range b.Instrs {
				s.transfer(in)
			}
		}
		localChanged := s.ch
		s.ch = s.ch || before
		if !localChanged {
			break
		}
	}
	return s.ch
}

func (s *fstate) transfer(in ssa.Instruction) {
	switch x := in.(type) {
	case *ssa.Store:
		ac := s.cellOf(x.Addr)
		s.event(s.sum.writes, locOfAddr(x.Addr), ac.s[0], in)
		s.storeInto(ac, x.Val)
	case *ssa.MapUpdate:
		mc := s.cellOf(x.Map)
		s.event(s.sum.writes, "elem of "+containerDesc(x.Map), mc.s[0], in)
		s.storeInto(mc, x.Value)
		s.storeInto(mc, x.Key)
	case *ssa.UnOp:
		if x.Op != token.MUL {
			return
		}
		ac := s.cellOf(x.X)
		s.event(s.sum.reads, locOfAddr(x.X), ac.s[0], in)
		vc := s.cellOf(x)
		if isAggregate(x.Type()) {
			s.union(vc, 1, ac.s[1])
			s.union(vc, 2, ac.s[2])
		} else if isPointerLike(x.Type()) {
			s.setShift(vc, ac)
		}
	case *ssa.Field:
		xc := s.cellOf(x.X)
		vc := s.cellOf(x)
		if isAggregate(x.Type()) {
			s.union(vc, 1, xc.s[1])
			s.union(vc, 2, xc.s[2])
		} else if isPointerLike(x.Type()) {
			s.setShift(vc, xc)
		}
	case *ssa.Index:
		xc := s.cellOf(x.X)
		vc := s.cellOf(x)
		if isAggregate(x.Type()) {
			s.union(vc, 1, xc.s[1])
			s.union(vc, 2, xc.s[2])
		} else if isPointerLike(x.Type()) {
			s.setShift(vc, xc)
		}
	case *ssa.Lookup:
		if _, isMap := x.X.Type().Underlying().(*types.Map); !isMap {
			return
		}
		mc := s.cellOf(x.X)
		s.event(s.sum.reads, "elem of "+containerDesc(x.X), mc.s[0], in)
		if !x.CommaOk {
			vc := s.cellOf(x)
			s.lookupInto(vc, mc, x.Type())
		}
	case *ssa.Extract:
		vc := s.cellOf(x)
		switch t := x.Tuple.(type) {
		case *ssa.Lookup:
			if x.Index == 0 {
				if _, isMap := t.X.Type().Underlying().(*types.Map); isMap {
					s.lookupInto(vc, s.cellOf(t.X), x.Type())
				}
			}
		case *ssa.TypeAssert:
			if x.Index == 0 {
				s.setCopy(vc, s.cellOf(t.X))
			}
		case *ssa.Next:
			if x.Index > 0 {
				if rg, ok := t.Iter.(*ssa.Range); ok {
					if _, isMap := rg.X.Type().Underlying().(*types.Map); isMap {
						s.lookupInto(vc, s.cellOf(rg.X), x.Type())
					}
				}
			}
		case *ssa.Call:
			s.callResult(vc, t, x.Index)
		}
	case *ssa.Phi:
		vc := s.cellOf(x)
		for _, e := range x.Edges {
			s.setCopy(vc, s.cellOf(e))
		}
	case *ssa.Select:
	case *ssa.Convert:
		// string<->[]byte conversions copy; numeric conversions carry nothing
		if isPointerLike(x.Type()) && isPointerLike(x.X.Type()) {
			s.setCopy(s.cellOf(x), s.cellOf(x.X))
		} else if isPointerLike(x.Type()) {
			s.union(s.cellOf(x), 0, rootSet{"F": {}})
		}
	case *ssa.MakeInterface:
		if isAggregate(x.X.Type()) {
			vc := s.cellOf(x)
			xc := s.cellOf(x.X)
			s.union(vc, 1, xc.s[1])
			s.union(vc, 2, xc.s[2])
		}
	case *ssa.MakeClosure:
		vc := s.cellOf(x)
		for _, b := range x.Bindings {
			s.storeInto(vc, b)
		}
	case *ssa.Call:
		s.call(x, x)
	case *ssa.Defer:
		s.call(x, nil)
	case *ssa.Go:
		s.call(x, nil)
	case *ssa.Return:
		for len(s.sum.ret) < len(x.Results) {
			s.sum.ret = append(s.sum.ret, newCell())
		}
		for i, r := range x.Results {
			rc := s.cellOf(r)
			for d := 0; d < 3; d++ {
				if s.sum.ret[i].s[d].addAll(rc.s[d]) {
					s.ch = true
				}
			}
		}
	}
}

func (s *fstate) lookupInto(vc, mc *cell, t types.Type) {
	if isAggregate(t) {
		s.union(vc, 1, mc.s[1])
		s.union(vc, 2, mc.s[2])
	} else if isPointerLike(t) {
		s.setShift(vc, mc)
	}
}

// mapRoots translates a callee root token through the actual arguments.
func (s *fstate) mapRoot(tok string, args []ssa.Value) rootSet {
	out := rootSet{}
	switch {
	case tok == "F":
		// fresh in the callee: local to the callee's activation unless returned (handled by ret cells)
	case tok == "FV":
		out.add("U")
	case strings.HasPrefix(tok, "P"):
		var i, d int
		fmt.Sscanf(tok, "P%d.%d", &i, &d)
		if i < len(args) {
			ac := s.cellOf(args[i])
			out.addAll(ac.s[d])
		} else {
			out.add("U")
		}
	default:
		out.add(tok)
	}
	return out
}

func (s *fstate) callResult(vc *cell, call *ssa.Call, idx int) {
	cc := &call.Call
	if bi, ok := cc.Value.(*ssa.Builtin); ok {
		_ = bi
		return
	}
	for _, cal := range s.e.p.Callees(call) {
		sm := s.e.sum[cal]
		if sm == nil {
			s.libResult(vc, cal, cc, idx)
			continue
		}
		args := callArgs(cc, cal)
		if idx < len(sm.ret) {
			for d := 0; d < 3; d++ {
				for tok := range sm.ret[idx].s[d] {
					if tok == "F" {
						s.union(vc, d, rootSet{"F": {}})
						continue
					}
					s.union(vc, d, s.mapRoot(tok, args))
				}
			}
		}
	}
}

// callArgs returns the actuals aligned with the callee's Params (receiver first).
func callArgs(cc *ssa.CallCommon, cal *ssa.Function) []ssa.Value {
	if cc.IsInvoke() {
		return append([]ssa.Value{cc.Value}, cc.Args...)
	}
	if _, ok := cc.Value.(*ssa.MakeClosure); ok {
		return cc.Args
	}
	return cc.Args
}

func (s *fstate) libResult(vc *cell, cal *ssa.Function, cc *ssa.CallCommon, idx int) {
	// library results: fresh unless they return (part of) an argument
	full := cal.String()
	switch full {
	case "(*bytes.Buffer).Bytes":
		s.setShift(vc, s.cellOf(cc.Args[0]))
		return
	case "bytes.TrimPrefix", "bytes.TrimSpace", "bytes.TrimSuffix":
		s.setCopy(vc, s.cellOf(cc.Args[0]))
		return
	}
	s.union(vc, 0, rootSet{"F": {}})
}

func (s *fstate) call(ci ssa.CallInstruction, val *ssa.Call) {
	cc := ci.Common()
	if bi, ok := cc.Value.(*ssa.Builtin); ok {
		switch bi.Name() {
		case "append":
			sc := s.cellOf(cc.Args[0])
			s.event(s.sum.writes, "elem of "+containerDesc(cc.Args[0]), sc.s[0], ci)
			if val != nil {
				vc := s.cellOf(val)
				s.setCopy(vc, sc)
				s.union(vc, 0, rootSet{"F": {}})
				if len(cc.Args) > 1 {
					tc := s.cellOf(cc.Args[1])
					s.union(vc, 1, tc.s[1])
					s.union(vc, 2, tc.s[2])
					// the appended elements also land in the original backing array
					s.union(sc, 1, tc.s[1])
					s.union(sc, 2, tc.s[2])
				}
			}
		case "copy":
			dc := s.cellOf(cc.Args[0])
			s.event(s.sum.writes, "elem of "+containerDesc(cc.Args[0]), dc.s[0], ci)
			src := s.cellOf(cc.Args[1])
			s.union(dc, 1, src.s[1])
			s.union(dc, 2, src.s[2])
		case "delete":
			mc := s.cellOf(cc.Args[0])
			s.event(s.sum.writes, "elem of "+containerDesc(cc.Args[0]), mc.s[0], ci)
		}
		return
	}
	callees := s.e.p.Callees(ci)
	for _, cal := range callees {
		sm := s.e.sum[cal]
		if sm == nil {
			s.libCall(ci, cal)
			continue
		}
		args := callArgs(cc, cal)
		s.instantiate(sm.writes, s.sum.writes, cal, args, ci)
		s.instantiate(sm.reads, s.sum.reads, cal, args, ci)
	}
	if val != nil && val.Type() != nil {
		if _, isTuple := val.Type().(*types.Tuple); !isTuple {
			s.callResult(s.cellOf(val), val, 0)
		}
	}
}

func (s *fstate) instantiate(from, to map[string]*effEvent, cal *ssa.Function, args []ssa.Value, ci ssa.CallInstruction) {
	siteCP, siteCV := s.condOf(ci.Block())
	for _, ev := range from {
		cp, cv := -1, false
		if ev.CondPar >= 0 {
			if ev.CondPar < len(args) {
				a := resolve1(args[ev.CondPar])
				if b, ok := constBool(a); ok {
					if b != ev.CondVal {
						continue // the callee's effect cannot happen at this site
					}
				} else if p, ok := a.(*ssa.Parameter); ok && p.Parent() == s.fn {
					cp, cv = paramIndex(s.fn, p), ev.CondVal
				}
			}
		}
		if cp < 0 {
			cp, cv = siteCP, siteCV
		}
		for r := range s.mapRoot(ev.Root, args) {
			if r == "F" {
				continue
			}
			ne := &effEvent{Loc: ev.Loc, Root: r, Pos: ev.Pos, Fn: ev.Fn, CondPar: cp, CondVal: cv}
			k := ne.key()
			if _, ok := to[k]; !ok {
				ne.Via = fnName(cal)
				if ev.Via != "" {
					ne.Via += " > " + ev.Via
				}
				to[k] = ne
				s.ch = true
			}
		}
	}
}

// libCall: effect table for library functions that write through their arguments.
func (s *fstate) libCall(ci ssa.CallInstruction, cal *ssa.Function) {
	cc := ci.Common()
	full := cal.String()
	writeSelf := func(arg ssa.Value, what string) {
		ac := s.cellOf(arg)
		s.event(s.sum.writes, what, ac.s[0], ci)
	}
	switch full {
	case "sort.Sort", "sort.Stable":
		// calls Len/Less/Swap of the dynamic type
		if mi, ok := cc.Args[0].(*ssa.MakeInterface); ok {
			t := mi.X.Type()
			for _, mname := range []string{"Swap", "Less", "Len"} {
				sel := s.e.p.SSA.MethodSets.MethodSet(t).Lookup(s.fn.Pkg.Pkg, mname)
				if sel == nil {
					sel = s.e.p.SSA.MethodSets.MethodSet(t).Lookup(nil, mname)
				}
				if sel == nil {
					continue
				}
				m := s.e.p.SSA.MethodValue(sel)
				if m == nil {
					continue
				}
				if sm := s.e.sum[m]; sm != nil {
					args := []ssa.Value{mi.X}
					s.instantiate(sm.writes, s.sum.writes, m, args, ci)
					s.instantiate(sm.reads, s.sum.reads, m, args, ci)
				}
			}
		} else {
			writeSelf(cc.Args[0], "elem of "+containerDesc(cc.Args[0]))
			ac := s.cellOf(cc.Args[0])
			s.event(s.sum.writes, "elem of "+containerDesc(cc.Args[0]), ac.s[1], ci)
		}
	case "sort.Strings", "sort.Ints", "sort.Float64s", "sort.Slice", "sort.SliceStable":
		writeSelf(cc.Args[0], "elem of "+containerDesc(cc.Args[0]))
	case "encoding/binary.Read":
		writeSelf(cc.Args[2], "*"+typeStr(cc.Args[2].Type()))
	case "(*os.File).ReadAt", "(*os.File).Read", "io.ReadFull":
		i := 1
		writeSelf(cc.Args[i], "elem of "+containerDesc(cc.Args[i]))
	case "(*bytes.Buffer).Write", "(*bytes.Buffer).WriteString", "(*bytes.Buffer).WriteByte":
		writeSelf(cc.Args[0], "bytes.Buffer")
	case "(encoding/binary.littleEndian).PutUint16", "(encoding/binary.littleEndian).PutUint32", "(encoding/binary.littleEndian).PutUint64":
		writeSelf(cc.Args[1], "elem of "+containerDesc(cc.Args[1]))
	}
}

// ---------------------------------------------------------------------------
// Queries

// sharedWrites lists the write events of f (its whole cone, through summaries)
// that target non-fresh memory other than the receiver Tx's own fields.
func (e *Effects) sharedWrites(f *ssa.Function) []*effEvent {
	var out []*effEvent
	for _, ev := range e.sum[f].writes {
		if ev.Root == "F" {
			continue
		}
		if isTxPrivateLoc(ev.Loc) {
			continue
		}
		out = append(out, ev)
	}
	sort.Slice(out, func(i, j int) bool { return out[i].key() < out[j].key() })
	return out
}

func isTxPrivateLoc(loc string) bool {
	return strings.HasPrefix(loc, "Tx.") || strings.HasPrefix(loc, "elem of Tx.")
}

func (e *Effects) writeLocs(f *ssa.Function) map[string]*effEvent {
	out := map[string]*effEvent{}
	for _, ev := range e.sum[f].writes {
		if ev.Root != "F" {
			if _, ok := out[ev.Loc]; !ok {
				out[ev.Loc] = ev
			}
		}
	}
	return out
}

func (e *Effects) readLocs(f *ssa.Function) map[string]*effEvent {
	out := map[string]*effEvent{}
	for _, ev := range e.sum[f].reads {
		if ev.Root != "F" {
			if _, ok := out[ev.Loc]; !ok {
				out[ev.Loc] = ev
			}
		}
	}
	return out
}
