package main

import (
	"fmt"
	"go/token"
	"go/types"

	"golang.org/x/tools/go/ssa"
)

// backSlice visits the backward data slice of v inside its function: operands, values stored
// into local allocations (and their fields/elements) it is loaded from, arguments of calls.
func backSlice(v ssa.Value, visit func(ssa.Value)) {
	seen := map[ssa.Value]bool{}
	var walk func(v ssa.Value, d int)
	walk = func(v ssa.Value, d int) {
		if v == nil || seen[v] || d > 30 {
			return
		}
		seen[v] = true
		visit(v)
		if al, ok := v.(*ssa.Alloc); ok {
			for _, r := range *al.Referrers() {
				switch y := r.(type) {
				case *ssa.Store:
					if y.Addr == ssa.Value(al) {
						walk(y.Val, d+1)
					}
				case *ssa.FieldAddr, *ssa.IndexAddr:
					for _, rr := range *y.(ssa.Value).Referrers() {
						if st, ok := rr.(*ssa.Store); ok {
							walk(st.Val, d+1)
						}
					}
				}
			}
			return
		}
		if in, ok := v.(ssa.Instruction); ok {
			for _, op := range in.Operands(nil) {
				if *op != nil {
					walk(*op, d+1)
				}
			}
		}
	}
	walk(v, 0)
}

func isRecordSlice(t types.Type) bool {
	sl, ok := t.Underlying().(*types.Slice)
	if !ok {
		return false
	}
	p, ok := sl.Elem().(*types.Pointer)
	if !ok {
		return false
	}
	return namedIs(p.Elem(), "Entry") || namedIs(p.Elem(), "Record")
}

// ---------------------------------------------------------------------------
// R-RECKEY (C04): the identity of a stored record is (bucket, data structure, key). Code that
// matches or de-duplicates the elements of a record collection (the pending writes of a
// transaction, the rewrite set of Merge, scan results) by their key must take the element's
// bucket into the same comparison / map key, because these collections hold records of every
// bucket. One named exception: processEntriesScanOnDisk, whose input is the result of a scan
// that was already restricted to one bucket.

func ruleRecKey(c *Ctx) {
	nLoops, nUses := 0, 0
	for _, f := range c.P.SrcFuncs {
		if !c.P.inModule(f) || f.Pkg == nil || f.Pkg.Pkg.Path() != modPath {
			continue
		}
		// elements: loads of &slice[i] where slice is a record slice
		elems := map[ssa.Value]bool{}
		mixed := map[ssa.Value]bool{} // elements of Tx.pendingWrites: records of every data structure
		instrs(f, func(in ssa.Instruction) {
			ld, ok := in.(*ssa.UnOp)
			if !ok || ld.Op != token.MUL {
				return
			}
			ia, ok := ld.X.(*ssa.IndexAddr)
			if !ok || !isRecordSlice(ia.X.Type()) {
				return
			}
			if _, isConst := ia.Index.(*ssa.Const); isConst {
				return
			}
			elems[ld] = true
			if isFieldLoad(ia.X, "Tx", "pendingWrites") {
				mixed[ld] = true
			}
		})
		// entries decoded from a segment: the first result of (*DataFile).ReadAt
		calls(f, func(ci ssa.CallInstruction) {
			if !calleeIs(ci.Common(), modPath, "DataFile", "ReadAt") {
				return
			}
			if v, ok := ci.(ssa.Value); ok {
				for _, r := range *v.Referrers() {
					if ex, ok := r.(*ssa.Extract); ok && ex.Index == 0 {
						elems[ex] = true
					}
				}
			}
		})
		// a predicate over two records (sameCall(first, next *Record)) matches records by identity just the same
		var recParams []*ssa.Parameter
		for _, prm := range f.Params {
			if pt, ok := prm.Type().(*types.Pointer); ok && (namedIs(pt.Elem(), "Record") || namedIs(pt.Elem(), "Entry")) {
				recParams = append(recParams, prm)
			}
		}
		if len(recParams) >= 2 {
			for _, prm := range recParams {
				elems[prm] = true
			}
		}
		if len(elems) == 0 {
			continue
		}
		nLoops += len(elems)
		elemOf := func(v ssa.Value) ssa.Value { // the collection element v's access path starts at, or nil
			for i := 0; i < 16; i++ {
				if elems[v] {
					return v
				}
				switch x := v.(type) {
				case *ssa.UnOp:
					if x.Op != token.MUL {
						return nil
					}
					v = x.X
				case *ssa.FieldAddr:
					v = x.X
				case *ssa.Field:
					v = x.X
				case *ssa.Convert:
					v = x.X
				default:
					return nil
				}
			}
			return nil
		}
		isKeyOf := func(v ssa.Value) ssa.Value { // v is a load of elem.Key / elem.H.key: returns elem
			fv, base := lastField(v)
			if fv == nil || (fv.Name() != "Key" && fv.Name() != "key") {
				return nil
			}
			return elemOf(base)
		}
		fieldWanted := "bucket"
		isBucketOf := func(v ssa.Value, elem ssa.Value) bool {
			fv, base := lastField(v)
			if fv == nil || fv.Name() != fieldWanted {
				return false
			}
			return elemOf(base) == elem
		}
		dependsOnBucket := func(v ssa.Value, elem ssa.Value) bool {
			found := false
			backSlice(v, func(x ssa.Value) {
				if isBucketOf(x, elem) {
					found = true
				}
			})
			return found
		}
		keyElemIn := func(v ssa.Value) ssa.Value {
			var e ssa.Value
			backSlice(v, func(x ssa.Value) {
				if e == nil {
					if el := isKeyOf(x); el != nil {
						e = el
					}
				}
			})
			return e
		}
		// does the function compare the element's bucket anywhere?
		comparesBucket := func(elem ssa.Value) bool {
			found := false
			instrs(f, func(in ssa.Instruction) {
				switch x := in.(type) {
				case *ssa.BinOp:
					if x.Op == token.EQL || x.Op == token.NEQ {
						if dependsOnBucket(x.X, elem) || dependsOnBucket(x.Y, elem) {
							found = true
						}
					}
				case *ssa.Call:
					if calleeIs(&x.Call, "bytes", "", "Equal") || calleeIs(&x.Call, "bytes", "", "Compare") || calleeIs(&x.Call, modPath, "", "compare") {
						for _, a := range x.Call.Args {
							if dependsOnBucket(a, elem) {
								found = true
							}
						}
					}
				}
			})
			return found
		}
		exception := f.Name() == "processEntriesScanOnDisk"
		k := 0
		report := func(in ssa.Instruction, what string, okb bool) {
			k++
			nUses++
			c.touch(f)
			detail := fmt.Sprintf("key-based %s #%d over a record collection also uses the record's bucket", what, k)
			switch {
			case okb:
				c.ok(fnName(f), detail, c.P.ipos(in), "")
			case exception:
				c.ok(fnName(f), detail, c.P.ipos(in), "named exception: the input is the result of a scan restricted to one bucket")
			default:
				c.bad(fnName(f), detail, c.P.ipos(in), "records of a collection that spans buckets are matched or de-duplicated by key without their bucket: the same key stored in two buckets is treated as one record, so an operation on one bucket changes (or loses) data of another")
			}
		}
		reportDS := func(in ssa.Instruction, el ssa.Value) {
			if !mixed[el] {
				return
			}
			fieldWanted = "ds"
			okb := comparesBucket(el)
			fieldWanted = "bucket"
			c.check(okb, fnName(f), fmt.Sprintf("key-based comparison #%d over the transaction's pending writes also uses the record's data structure", k), c.P.ipos(in), "",
				"pending writes of every data structure share one list and key/value, set, list and sorted-set records reuse the same flag values: matching them by bucket and key alone lets a set or list operation stand in for (or hide) the key/value pair with the same bucket and key")
		}
		instrs(f, func(in ssa.Instruction) {
			switch x := in.(type) {
			case *ssa.Call:
				if calleeIs(&x.Call, "bytes", "", "Equal") || calleeIs(&x.Call, "bytes", "", "Compare") || calleeIs(&x.Call, modPath, "", "compare") {
					for _, a := range x.Call.Args {
						if el := isKeyOf(resolve1(a)); el != nil {
							report(in, "comparison", comparesBucket(el))
							reportDS(in, el)
							return
						}
					}
				}
			case *ssa.BinOp:
				if x.Op == token.EQL || x.Op == token.NEQ {
					for _, a := range []ssa.Value{x.X, x.Y} {
						if b, ok := a.Type().Underlying().(*types.Basic); ok && b.Kind() == types.String {
							if el := isKeyOf(resolve1(stripConv(a))); el != nil {
								report(in, "comparison", comparesBucket(el))
								reportDS(in, el)
								return
							}
						}
					}
				}
			case *ssa.MapUpdate:
				if el := keyElemIn(x.Key); el != nil {
					report(in, "map key", dependsOnBucket(x.Key, el))
				}
			case *ssa.Lookup:
				if _, isMap := x.X.Type().Underlying().(*types.Map); isMap {
					if el := keyElemIn(x.Index); el != nil {
						report(in, "map key", dependsOnBucket(x.Index, el))
					}
				}
			}
		})
	}
	c.Sites += nLoops
	c.minInstances("element reads of record collections examined", nLoops, 6)
	c.minInstances("key-based matches over record collections", nUses, 2)
}

// ---------------------------------------------------------------------------
// deadPredicate: fn is a one-argument boolean predicate over a record (Entry / Record / MetaData) that
// returns true whenever the record is a tombstone or has expired — so the false result establishes both
// live guards on the argument. Decided from fn's own returns: a result that may be false is either the
// value of IsExpired(record) reached only where Flag != DataDeleteFlag holds, the value of
// Flag == DataDeleteFlag reached only where !IsExpired holds, or the constant false behind both guards.

var deadPredMemo = map[*ssa.Function]int{} // 1 yes, 2 no, 3 in progress

func deadPredicate(p *Prog, fn *ssa.Function) bool {
	switch deadPredMemo[fn] {
	case 1:
		return true
	case 2, 3:
		return false
	}
	deadPredMemo[fn] = 3
	ok := deadPredicateCompute(p, fn)
	if ok {
		deadPredMemo[fn] = 1
	} else {
		deadPredMemo[fn] = 2
	}
	return ok
}

func deadPredicateCompute(p *Prog, fn *ssa.Function) bool {
	if fn == nil || fn.Blocks == nil || !p.inModule(fn) || len(fn.Params) != 1 || fn.Signature.Results().Len() != 1 {
		return false
	}
	if b, ok := fn.Signature.Results().At(0).Type().Underlying().(*types.Basic); !ok || b.Kind() != types.Bool {
		return false
	}
	if !isRecordLike(fn.Params[0].Type()) {
		return false
	}
	g := liveGuardsOf(p, fn)
	base := recordBase(pathOf(fn.Params[0]))
	del, _ := constIntVal(p.Const("DataDeleteFlag"))
	dom := func(edges []succEdge, b *ssa.BasicBlock) bool { return len(edges) > 0 && edgesDominate(fn, edges, b) }
	okVal := func(v ssa.Value, at *ssa.BasicBlock) bool {
		v = resolve1(v)
		if bv, isC := constBool(v); isC {
			if bv {
				return true
			}
			return dom(g.notDel[base], at) && dom(g.notExp[base], at)
		}
		switch x := v.(type) {
		case *ssa.Call:
			if calleeIs(&x.Call, modPath, "", "IsExpired") && len(x.Call.Args) == 2 &&
				isFieldLoad(x.Call.Args[0], "MetaData", "TTL") && isFieldLoad(x.Call.Args[1], "MetaData", "timestamp") &&
				recordBase(pathOf(x.Call.Args[0])) == base && recordBase(pathOf(x.Call.Args[1])) == base {
				return dom(g.notDel[base], at)
			}
			if calleeIs(&x.Call, modPath, "Record", "IsExpired") && recordBase(pathOf(x.Call.Args[0])) == base {
				return dom(g.notDel[base], at)
			}
		case *ssa.BinOp:
			if x.Op == token.EQL {
				for _, pr := range [][2]ssa.Value{{x.X, x.Y}, {x.Y, x.X}} {
					if k, ok := constInt(pr[1]); ok && k == del && isFieldLoad(pr[0], "MetaData", "Flag") && recordBase(pathOf(pr[0])) == base {
						return dom(g.notExp[base], at)
					}
				}
			}
		}
		return false
	}
	rets := returnsOf(fn)
	if len(rets) == 0 {
		return false
	}
	for _, r := range rets {
		v := r.Results[0]
		if ph, isPhi := v.(*ssa.Phi); isPhi {
			for i, e := range ph.Edges {
				if !okVal(e, ph.Block().Preds[i]) {
					return false
				}
			}
			continue
		}
		if !okVal(v, r.Block()) {
			return false
		}
	}
	return true
}

// guardedAtCallers: the entry v appended in fn derives from a record parameter of fn (r.E, or the entry read
// at r.H.dataPos), and every call site of fn passes a record that has passed the guards where fn is called.
func (a *liveAnalysis) guardedAtCallers(fn *ssa.Function, v ssa.Value, depth int) bool {
	if depth > 2 || (fn.Object() != nil && fn.Object().Exported()) {
		return false
	}
	// the record parameter(s) v derives from
	var params []*ssa.Parameter
	add := func(x ssa.Value) {
		root, _ := splitPath(x)
		if p, ok := root.(*ssa.Parameter); ok && isRecordLike(p.Type()) {
			params = append(params, p)
		}
	}
	add(v)
	if root, _ := splitPath(resolve1(v)); root != nil {
		if ex, ok := root.(*ssa.Extract); ok {
			if call, ok := ex.Tuple.(*ssa.Call); ok {
				for _, arg := range call.Call.Args {
					add(arg)
				}
			}
		}
	}
	if len(params) == 0 {
		return false
	}
	sites := a.c.P.CallersOf(fn)
	if len(sites) == 0 {
		return false
	}
	for _, p := range params {
		idx := paramIndex(fn, p)
		for _, s := range sites {
			if s.Common().IsInvoke() || idx >= len(s.Common().Args) {
				return false
			}
			arg := s.Common().Args[idx]
			if ok, _ := a.guardedAt(s.Parent(), arg, s.Block()); ok {
				continue
			}
			// the caller may itself only forward its own record parameter
			if !a.guardedAtCallers(s.Parent(), arg, depth+1) {
				return false
			}
		}
	}
	return true
}
