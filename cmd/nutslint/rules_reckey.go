package main

import (
	"fmt"
	"go/token"
	"go/types"

	"golang.org/x/tools/go/ssa"
)

// backSlice visits the backward data slice of v inside its function: operands, values stored
// into local allocations (and their fields/elements) it is loaded from, arguments of calls.
func backSlice(v ssa.Value, visit func(ssa.Value)) {
	seen := map[ssa.Value]bool{}
	var walk func(v ssa.Value, d int)
	walk = func(v ssa.Value, d int) {
		if v == nil || seen[v] || d > 30 {
			return
		}
		seen[v] = true
		visit(v)
		if al, ok := v.(*ssa.Alloc); ok {
			for _, r := range *al.Referrers() {
				switch y := r.(type) {
				case *ssa.Store:
					if y.Addr == ssa.Value(al) {
						walk(y.Val, d+1)
					}
				case *ssa.FieldAddr, *ssa.IndexAddr:
					for _, rr := range *y.(ssa.Value).Referrers() {
						if st, ok := rr.(*ssa.Store); ok {
							walk(st.Val, d+1)
						}
					}
				}
			}
			return
		}
		if in, ok := v.(ssa.Instruction); ok {
			for _, op := range in.Operands(nil) {
				if *op != nil {
					walk(*op, d+1)
				}
			}
		}
	}
	walk(v, 0)
}

func isRecordSlice(t types.Type) bool {
	sl, ok := t.Underlying().(*types.Slice)
	if !ok {
		return false
	}
	p, ok := sl.Elem().(*types.Pointer)
	if !ok {
		return false
	}
	return namedIs(p.Elem(), "Entry") || namedIs(p.Elem(), "Record")
}

// ---------------------------------------------------------------------------
// R-RECKEY (C04): the identity of a stored record is (bucket, data structure, key). Code that
// matches or de-duplicates the elements of a record collection (the pending writes of a
// transaction, the rewrite set of Merge, scan results) by their key must take the element's
// bucket into the same comparison / map key, because these collections hold records of every
// bucket. One named exception: processEntriesScanOnDisk, whose input is the result of a scan
// that was already restricted to one bucket.

func ruleRecKey(c *Ctx) {
	nLoops, nUses := 0, 0
	for _, f := range c.P.SrcFuncs {
		if !c.P.inModule(f) || f.Pkg == nil || f.Pkg.Pkg.Path() != modPath {
			continue
		}
		// elements: loads of &slice[i] where slice is a record slice
		elems := map[ssa.Value]bool{}
		instrs(f, func(in ssa.Instruction) {
			ld, ok := in.(*ssa.UnOp)
			if !ok || ld.Op != token.MUL {
				return
			}
			ia, ok := ld.X.(*ssa.IndexAddr)
			if !ok || !isRecordSlice(ia.X.Type()) {
				return
			}
			if _, isConst := ia.Index.(*ssa.Const); isConst {
				return
			}
			elems[ld] = true
		})
		// entries decoded from a segment: the first result of (*DataFile).ReadAt
		calls(f, func(ci ssa.CallInstruction) {
			if !calleeIs(ci.Common(), modPath, "DataFile", "ReadAt") {
				return
			}
			if v, ok := ci.(ssa.Value); ok {
				for _, r := range *v.Referrers() {
					if ex, ok := r.(*ssa.Extract); ok && ex.Index == 0 {
						elems[ex] = true
					}
				}
			}
		})
		if len(elems) == 0 {
			continue
		}
		nLoops += len(elems)
		elemOf := func(v ssa.Value) ssa.Value { // the collection element v's access path starts at, or nil
			for i := 0; i < 16; i++ {
				if elems[v] {
					return v
				}
				switch x := v.(type) {
				case *ssa.UnOp:
					if x.Op != token.MUL {
						return nil
					}
					v = x.X
				case *ssa.FieldAddr:
					v = x.X
				case *ssa.Field:
					v = x.X
				case *ssa.Convert:
					v = x.X
				default:
					return nil
				}
			}
			return nil
		}
		isKeyOf := func(v ssa.Value) ssa.Value { // v is a load of elem.Key / elem.H.key: returns elem
			fv, base := lastField(v)
			if fv == nil || (fv.Name() != "Key" && fv.Name() != "key") {
				return nil
			}
			return elemOf(base)
		}
		isBucketOf := func(v ssa.Value, elem ssa.Value) bool {
			fv, base := lastField(v)
			if fv == nil || fv.Name() != "bucket" {
				return false
			}
			return elemOf(base) == elem
		}
		dependsOnBucket := func(v ssa.Value, elem ssa.Value) bool {
			found := false
			backSlice(v, func(x ssa.Value) {
				if isBucketOf(x, elem) {
					found = true
				}
			})
			return found
		}
		keyElemIn := func(v ssa.Value) ssa.Value {
			var e ssa.Value
			backSlice(v, func(x ssa.Value) {
				if e == nil {
					if el := isKeyOf(x); el != nil {
						e = el
					}
				}
			})
			return e
		}
		// does the function compare the element's bucket anywhere?
		comparesBucket := func(elem ssa.Value) bool {
			found := false
			instrs(f, func(in ssa.Instruction) {
				switch x := in.(type) {
				case *ssa.BinOp:
					if x.Op == token.EQL || x.Op == token.NEQ {
						if dependsOnBucket(x.X, elem) || dependsOnBucket(x.Y, elem) {
							found = true
						}
					}
				case *ssa.Call:
					if calleeIs(&x.Call, "bytes", "", "Equal") || calleeIs(&x.Call, "bytes", "", "Compare") || calleeIs(&x.Call, modPath, "", "compare") {
						for _, a := range x.Call.Args {
							if dependsOnBucket(a, elem) {
								found = true
							}
						}
					}
				}
			})
			return found
		}
		exception := f.Name() == "processEntriesScanOnDisk"
		k := 0
		report := func(in ssa.Instruction, what string, okb bool) {
			k++
			nUses++
			c.touch(f)
			detail := fmt.Sprintf("key-based %s #%d over a record collection also uses the record's bucket", what, k)
			switch {
			case okb:
				c.ok(fnName(f), detail, c.P.ipos(in), "")
			case exception:
				c.ok(fnName(f), detail, c.P.ipos(in), "named exception: the input is the result of a scan restricted to one bucket")
			default:
				c.bad(fnName(f), detail, c.P.ipos(in), "records of a collection that spans buckets are matched or de-duplicated by key without their bucket: the same key stored in two buckets is treated as one record, so an operation on one bucket changes (or loses) data of another")
			}
		}
		instrs(f, func(in ssa.Instruction) {
			switch x := in.(type) {
			case *ssa.Call:
				if calleeIs(&x.Call, "bytes", "", "Equal") || calleeIs(&x.Call, "bytes", "", "Compare") || calleeIs(&x.Call, modPath, "", "compare") {
					for _, a := range x.Call.Args {
						if el := isKeyOf(resolve1(a)); el != nil {
							report(in, "comparison", comparesBucket(el))
							return
						}
					}
				}
			case *ssa.BinOp:
				if x.Op == token.EQL || x.Op == token.NEQ {
					for _, a := range []ssa.Value{x.X, x.Y} {
						if b, ok := a.Type().Underlying().(*types.Basic); ok && b.Kind() == types.String {
							if el := isKeyOf(resolve1(stripConv(a))); el != nil {
								report(in, "comparison", comparesBucket(el))
								return
							}
						}
					}
				}
			case *ssa.MapUpdate:
				if el := keyElemIn(x.Key); el != nil {
					report(in, "map key", dependsOnBucket(x.Key, el))
				}
			case *ssa.Lookup:
				if _, isMap := x.X.Type().Underlying().(*types.Map); isMap {
					if el := keyElemIn(x.Index); el != nil {
						report(in, "map key", dependsOnBucket(x.Index, el))
					}
				}
			}
		})
	}
	c.Sites += nLoops
	c.minInstances("element reads of record collections examined", nLoops, 6)
	c.minInstances("key-based matches over record collections", nUses, 2)
}
