package main

import (
	"fmt"
	"go/token"
	"sort"
	"strings"

	"golang.org/x/tools/go/ssa"
)

// ---------------------------------------------------------------------------
// R-HINTKEY (C08 C02): the Hint stored with a key/value record carries a copy of the key. What that copy
// holds is decided twice: by the literal built at commit time and by the one built when the log is replayed.
// Where the two differ (sparse mode: bucket+key at commit, the bare key on reopen) the field has no
// meaning that survives Close/Open, so nothing on a read path of that index may look at it.

func ruleHintKey(c *Ctx) {
	type side struct {
		keys map[bool][]string // sparse? -> recipes of Hint.key
		pos  map[bool]string
	}
	collect := func(root *ssa.Function) side {
		s := side{map[bool][]string{}, map[bool]string{}}
		cone := map[*ssa.Function]bool{}
		for _, f := range c.P.ModCone(root) {
			cone[f] = true
		}
		// Hint literals that reach a Record literal (the replay path hands r.H on)
		var viaRecord []string
		for _, f := range c.P.ModCone(root) {
			instrs(f, func(in ssa.Instruction) {
				al, ok := in.(*ssa.Alloc)
				if !ok || !namedIs(derefT(al.Type()), "Record") {
					return
				}
				if hv, ok := allocFieldStores(al)["H"]; ok {
					if ha, ok := resolve1(hv).(*ssa.Alloc); ok {
						if kv, ok := allocFieldStores(ha)["key"]; ok {
							viaRecord = append(viaRecord, (&recipeCtx{p: c.P, cone: cone}).recipe(kv, 0))
						}
					}
				}
			})
		}
		for _, f := range c.P.ModCone(root) {
			calls(f, func(ci ssa.CallInstruction) {
				call, ok := ci.(*ssa.Call)
				if !ok || !calleeIs(&call.Call, modPath, "BPTree", "Insert") || len(call.Call.Args) < 4 {
					return
				}
				rr := (&recipeCtx{p: c.P, cone: cone}).recipe(call.Call.Args[0], 0)
				var sparse bool
				switch {
				case strings.HasPrefix(rr, "Lookup(DB.BPTreeIdx,"):
				case rr == "DB.ActiveBPTreeIdx":
					sparse = true
				default:
					return
				}
				c.touch(f)
				s.pos[sparse] = c.P.ipos(call)
				h := resolve1(call.Call.Args[3])
				if ha, ok := h.(*ssa.Alloc); ok {
					if kv, ok := allocFieldStores(ha)["key"]; ok {
						s.keys[sparse] = append(s.keys[sparse], (&recipeCtx{p: c.P, cone: cone}).recipe(kv, 0))
						return
					}
				}
				if isFieldLoad(call.Call.Args[3], "Record", "H") {
					s.keys[sparse] = append(s.keys[sparse], viaRecord...)
					return
				}
				s.keys[sparse] = append(s.keys[sparse], "?")
			})
		}
		return s
	}
	co := collect(c.P.MustFunc("(*Tx).Commit"))
	op := collect(c.P.MustFunc("Open"))
	readCone := c.P.ModCone(kvReadAPIs(c)...)
	n := 0
	for _, sparse := range []bool{false, true} {
		mode, field := "RAM modes", "BPTreeIdx"
		if sparse {
			mode, field = "sparse mode", "ActiveBPTreeIdx"
		}
		a, b := dedupSorted(co.keys[sparse]), dedupSorted(op.keys[sparse])
		if len(a) == 0 || len(b) == 0 {
			continue
		}
		n++
		construct := "Hint.key of the B+ tree index (" + mode + ")"
		if strings.Join(a, "|") == strings.Join(b, "|") && !strings.Contains(strings.Join(a, "|"), "?") {
			c.ok(construct, "commit-time and open-time contents agree, or the field is not read on a read path", co.pos[sparse], "both literals hold "+strings.Join(a, "|"))
			continue
		}
		// the contents differ: find readers
		var roots []*ssa.Function
		for _, f := range readCone {
			uses := false
			instrs(f, func(in ssa.Instruction) {
				if fa, ok := in.(*ssa.FieldAddr); ok && namedIs(derefT(fa.X.Type()), "DB") && fieldVarOf(fa).Name() == field {
					uses = true
				}
			})
			if uses {
				roots = append(roots, f)
			}
		}
		var readers []string
		var rpos string
		for _, f := range c.P.ModCone(roots...) {
			instrs(f, func(in ssa.Instruction) {
				fa, ok := in.(*ssa.FieldAddr)
				if !ok || !namedIs(derefT(fa.X.Type()), "Hint") || fieldVarOf(fa).Name() != "key" {
					return
				}
				for _, r := range *fa.Referrers() {
					if u, ok := r.(*ssa.UnOp); ok && u.X == ssa.Value(fa) {
						readers = append(readers, fnName(f))
						if rpos == "" {
							rpos = c.P.ipos(u)
						}
					}
				}
			})
		}
		readers = dedupSorted(readers)
		if len(readers) == 0 {
			c.ok(construct, "commit-time and open-time contents agree, or the field is not read on a read path", co.pos[sparse],
				fmt.Sprintf("the literals differ (commit %s, reopen %s) and no function on a read path of DB.%s loads the field", strings.Join(a, "|"), strings.Join(b, "|"), field))
			continue
		}
		c.bad(construct, "commit-time and open-time contents agree, or the field is not read on a read path", rpos,
			fmt.Sprintf("%s read(s) Hint.key of records of DB.%s, but the field holds %s for records indexed at commit and %s for records indexed on reopen: the same read gives different results before Close and after Open", strings.Join(readers, ", "), field, strings.Join(a, "|"), strings.Join(b, "|")))
	}
	c.minInstances("B+ tree indexes with a commit-time and an open-time Hint literal", n, 2)
}

func dedupSorted(in []string) []string {
	seen := map[string]bool{}
	var out []string
	for _, s := range in {
		if !seen[s] {
			seen[s] = true
			out = append(out, s)
		}
	}
	sort.Strings(out)
	return out
}

// ---------------------------------------------------------------------------
// R-INSERT-TOTAL (C09 C08): Commit discards the error of (*BPTree).Insert (the record is already in the
// log when the index is updated), while the replay in Open turns the same error into a failed Open. The
// two agree only because Insert cannot fail: every return of Insert, and of every module function whose
// error it passes on, yields a nil error.

func alwaysNilError(p *Prog, f *ssa.Function, memo map[*ssa.Function]int, offender *ssa.Instruction) bool {
	switch memo[f] {
	case 1, 3:
		return true // 3: in progress (recursion through the tree's own helpers)
	case 2:
		return false
	}
	memo[f] = 3
	ei := errResultIndex(f)
	ok := true
	if ei < 0 || len(f.Blocks) == 0 || !p.inModule(f) {
		ok = ei < 0 && p.inModule(f)
	} else {
		var okVal func(v ssa.Value, d int) bool
		okVal = func(v ssa.Value, d int) bool {
			if d > 6 {
				return false
			}
			if isNilConst(v) {
				return true
			}
			switch x := v.(type) {
			case *ssa.Phi:
				for _, e := range x.Edges {
					if !okVal(e, d+1) {
						return false
					}
				}
				return true
			case *ssa.Call:
				cal := x.Call.StaticCallee()
				return cal != nil && alwaysNilError(p, cal, memo, offender)
			case *ssa.Extract:
				if call, ok := x.Tuple.(*ssa.Call); ok {
					cal := call.Call.StaticCallee()
					return cal != nil && errResultIndex(cal) == x.Index && alwaysNilError(p, cal, memo, offender)
				}
			case *ssa.UnOp:
				// named result spilled to a cell: every store to the cell
				if al, isAl := x.X.(*ssa.Alloc); isAl && x.Op == token.MUL {
					for _, r := range *al.Referrers() {
						if st, isSt := r.(*ssa.Store); isSt && st.Addr == ssa.Value(al) && !okVal(st.Val, d+1) {
							return false
						}
					}
					return true
				}
			}
			return false
		}
		for _, r := range returnsOf(f) {
			if !okVal(r.Results[ei], 0) {
				ok = false
				if *offender == nil {
					*offender = r
				}
			}
		}
	}
	if ok {
		memo[f] = 1
	} else {
		memo[f] = 2
	}
	return ok
}

func ruleInsertTotal(c *Ctx) {
	ins := c.P.MustFunc("(*BPTree).Insert")
	c.touch(ins)
	// is there a commit-time site that discards the error and an open-time site that fails on it?
	discards, fails := 0, 0
	for _, root := range []*ssa.Function{c.P.MustFunc("(*Tx).Commit"), c.P.MustFunc("Open")} {
		for _, f := range c.P.ModCone(root) {
			calls(f, func(ci ssa.CallInstruction) {
				call, ok := ci.(*ssa.Call)
				if !ok || call.Call.StaticCallee() != ins {
					return
				}
				if hasRealReferrers(call) {
					fails++
				} else {
					discards++
				}
			})
		}
	}
	c.Sites += discards + fails
	if discards == 0 || fails == 0 {
		c.ok("(*BPTree).Insert", "cannot fail (its error is discarded at commit time and fatal on replay)", c.P.pos(ins.Pos()),
			fmt.Sprintf("no longer needed: %d sites discard the error, %d use it", discards, fails))
		return
	}
	var off ssa.Instruction
	ok := alwaysNilError(c.P, ins, map[*ssa.Function]int{}, &off)
	pos := c.P.pos(ins.Pos())
	if off != nil {
		pos = c.P.ipos(off)
	}
	c.check(ok, "(*BPTree).Insert", "cannot fail (its error is discarded at commit time and fatal on replay)", pos,
		fmt.Sprintf("every return of Insert and of the helpers whose error it passes on yields nil (%d sites discard the error, %d fail on it)", discards, fails),
		"Insert can return a non-nil error: Commit ignores it for a record that is already logged, and the replay of that record makes every later Open fail")
}
