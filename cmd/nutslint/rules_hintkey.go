package main

import (
	"fmt"
	"go/token"
	"go/types"
	"sort"
	"strings"

	"golang.org/x/tools/go/ssa"
)

// ---------------------------------------------------------------------------
// R-HINTKEY (C08 C02): the Hint stored with a key/value record carries a copy of the key. What that copy
// holds is decided twice: by the literal built at commit time and by the one built when the log is replayed.
// Where the two differ (sparse mode: bucket+key at commit, the bare key on reopen) the field has no
// meaning that survives Close/Open, so nothing on a read path of that index may look at it.

func ruleHintKey(c *Ctx) {
	type side struct {
		keys map[bool][]string // sparse? -> recipes of Hint.key
		pos  map[bool]string
	}
	collect := func(root *ssa.Function) side {
		s := side{map[bool][]string{}, map[bool]string{}}
		cone := map[*ssa.Function]bool{}
		for _, f := range c.P.ModCone(root) {
			cone[f] = true
		}
		// Hint literals that reach a Record literal (the replay path hands r.H on)
		var viaRecord []string
		for _, f := range c.P.ModCone(root) {
			instrs(f, func(in ssa.Instruction) {
				al, ok := in.(*ssa.Alloc)
				if !ok || !namedIs(derefT(al.Type()), "Record") {
					return
				}
				if hv, ok := allocFieldStores(al)["H"]; ok {
					if ha, ok := resolve1(hv).(*ssa.Alloc); ok {
						if kv, ok := allocFieldStores(ha)["key"]; ok {
							viaRecord = append(viaRecord, (&recipeCtx{p: c.P, cone: cone}).recipe(kv, 0))
						}
					}
				}
			})
		}
		for _, f := range c.P.ModCone(root) {
			calls(f, func(ci ssa.CallInstruction) {
				call, ok := ci.(*ssa.Call)
				if !ok || !calleeIs(&call.Call, modPath, "BPTree", "Insert") || len(call.Call.Args) < 4 {
					return
				}
				rr := (&recipeCtx{p: c.P, cone: cone}).recipe(call.Call.Args[0], 0)
				var sparse bool
				switch {
				case strings.HasPrefix(rr, "Lookup(DB.BPTreeIdx,"):
				case rr == "DB.ActiveBPTreeIdx":
					sparse = true
				default:
					return
				}
				c.touch(f)
				s.pos[sparse] = c.P.ipos(call)
				h := resolve1(call.Call.Args[3])
				if ha, ok := h.(*ssa.Alloc); ok {
					if kv, ok := allocFieldStores(ha)["key"]; ok {
						s.keys[sparse] = append(s.keys[sparse], (&recipeCtx{p: c.P, cone: cone}).recipe(kv, 0))
						return
					}
				}
				if isFieldLoad(call.Call.Args[3], "Record", "H") {
					s.keys[sparse] = append(s.keys[sparse], viaRecord...)
					return
				}
				s.keys[sparse] = append(s.keys[sparse], "?")
			})
		}
		return s
	}
	co := collect(c.P.MustFunc("(*Tx).Commit"))
	op := collect(c.P.MustFunc("Open"))
	readCone := c.P.ModCone(kvReadAPIs(c)...)
	n := 0
	for _, sparse := range []bool{false, true} {
		mode, field := "RAM modes", "BPTreeIdx"
		if sparse {
			mode, field = "sparse mode", "ActiveBPTreeIdx"
		}
		a, b := dedupSorted(co.keys[sparse]), dedupSorted(op.keys[sparse])
		if len(a) == 0 || len(b) == 0 {
			continue
		}
		n++
		construct := "Hint.key of the B+ tree index (" + mode + ")"
		if strings.Join(a, "|") == strings.Join(b, "|") && !strings.Contains(strings.Join(a, "|"), "?") {
			c.ok(construct, "commit-time and open-time contents agree, or the field is not read on a read path", co.pos[sparse], "both literals hold "+strings.Join(a, "|"))
			continue
		}
		// the contents differ: find readers
		var roots []*ssa.Function
		for _, f := range readCone {
			uses := false
			instrs(f, func(in ssa.Instruction) {
				if fa, ok := in.(*ssa.FieldAddr); ok && namedIs(derefT(fa.X.Type()), "DB") && fieldVarOf(fa).Name() == field {
					uses = true
				}
			})
			if uses {
				roots = append(roots, f)
			}
		}
		var readers []string
		var rpos string
		for _, f := range c.P.ModCone(roots...) {
			instrs(f, func(in ssa.Instruction) {
				fa, ok := in.(*ssa.FieldAddr)
				if !ok || !namedIs(derefT(fa.X.Type()), "Hint") || fieldVarOf(fa).Name() != "key" {
					return
				}
				for _, r := range *fa.Referrers() {
					if u, ok := r.(*ssa.UnOp); ok && u.X == ssa.Value(fa) {
						readers = append(readers, fnName(f))
						if rpos == "" {
							rpos = c.P.ipos(u)
						}
					}
				}
			})
		}
		readers = dedupSorted(readers)
		if len(readers) == 0 {
			c.ok(construct, "commit-time and open-time contents agree, or the field is not read on a read path", co.pos[sparse],
				fmt.Sprintf("the literals differ (commit %s, reopen %s) and no function on a read path of DB.%s loads the field", strings.Join(a, "|"), strings.Join(b, "|"), field))
			continue
		}
		c.bad(construct, "commit-time and open-time contents agree, or the field is not read on a read path", rpos,
			fmt.Sprintf("%s read(s) Hint.key of records of DB.%s, but the field holds %s for records indexed at commit and %s for records indexed on reopen: the same read gives different results before Close and after Open", strings.Join(readers, ", "), field, strings.Join(a, "|"), strings.Join(b, "|")))
	}
	c.minInstances("B+ tree indexes with a commit-time and an open-time Hint literal", n, 2)
}

func dedupSorted(in []string) []string {
	seen := map[string]bool{}
	var out []string
	for _, s := range in {
		if !seen[s] {
			seen[s] = true
			out = append(out, s)
		}
	}
	sort.Strings(out)
	return out
}

// ---------------------------------------------------------------------------
// R-INSERT-TOTAL (C09 C08): Commit discards the error of (*BPTree).Insert (the record is already in the
// log when the index is updated), while the replay in Open turns the same error into a failed Open. The
// two agree only because Insert cannot fail: every return of Insert, and of every module function whose
// error it passes on, yields a nil error.

func alwaysNilError(p *Prog, f *ssa.Function, memo map[*ssa.Function]int, offender *ssa.Instruction) bool {
	switch memo[f] {
	case 1, 3:
		return true // 3: in progress (recursion through the tree's own helpers)
	case 2:
		return false
	}
	memo[f] = 3
	ei := errResultIndex(f)
	ok := true
	if ei < 0 || len(f.Blocks) == 0 || !p.inModule(f) {
		ok = ei < 0 && p.inModule(f)
	} else {
		var okVal func(v ssa.Value, d int) bool
		okVal = func(v ssa.Value, d int) bool {
			if d > 6 {
				return false
			}
			if isNilConst(v) {
				return true
			}
			switch x := v.(type) {
			case *ssa.Phi:
				for _, e := range x.Edges {
					if !okVal(e, d+1) {
						return false
					}
				}
				return true
			case *ssa.Call:
				cal := x.Call.StaticCallee()
				return cal != nil && alwaysNilError(p, cal, memo, offender)
			case *ssa.Extract:
				if call, ok := x.Tuple.(*ssa.Call); ok {
					cal := call.Call.StaticCallee()
					return cal != nil && errResultIndex(cal) == x.Index && alwaysNilError(p, cal, memo, offender)
				}
			case *ssa.UnOp:
				// named result spilled to a cell: every store to the cell
				if al, isAl := x.X.(*ssa.Alloc); isAl && x.Op == token.MUL {
					for _, r := range *al.Referrers() {
						if st, isSt := r.(*ssa.Store); isSt && st.Addr == ssa.Value(al) && !okVal(st.Val, d+1) {
							return false
						}
					}
					return true
				}
			}
			return false
		}
		for _, r := range returnsOf(f) {
			if !okVal(r.Results[ei], 0) {
				ok = false
				if *offender == nil {
					*offender = r
				}
			}
		}
	}
	if ok {
		memo[f] = 1
	} else {
		memo[f] = 2
	}
	return ok
}

func ruleInsertTotal(c *Ctx) {
	ins := c.P.MustFunc("(*BPTree).Insert")
	c.touch(ins)
	// is there a commit-time site that discards the error and an open-time site that fails on it?
	discards, fails := 0, 0
	for _, root := range []*ssa.Function{c.P.MustFunc("(*Tx).Commit"), c.P.MustFunc("Open")} {
		for _, f := range c.P.ModCone(root) {
			calls(f, func(ci ssa.CallInstruction) {
				call, ok := ci.(*ssa.Call)
				if !ok || call.Call.StaticCallee() != ins {
					return
				}
				if hasRealReferrers(call) {
					fails++
				} else {
					discards++
				}
			})
		}
	}
	c.Sites += discards + fails
	if discards == 0 || fails == 0 {
		c.ok("(*BPTree).Insert", "cannot fail (its error is discarded at commit time and fatal on replay)", c.P.pos(ins.Pos()),
			fmt.Sprintf("no longer needed: %d sites discard the error, %d use it", discards, fails))
		return
	}
	var off ssa.Instruction
	ok := alwaysNilError(c.P, ins, map[*ssa.Function]int{}, &off)
	pos := c.P.pos(ins.Pos())
	if off != nil {
		pos = c.P.ipos(off)
	}
	c.check(ok, "(*BPTree).Insert", "cannot fail (its error is discarded at commit time and fatal on replay)", pos,
		fmt.Sprintf("every return of Insert and of the helpers whose error it passes on yields nil (%d sites discard the error, %d fail on it)", discards, fails),
		"Insert can return a non-nil error: Commit ignores it for a record that is already logged, and the replay of that record makes every later Open fail")
}

// ---------------------------------------------------------------------------
// R-COMMITSET-MONO (C15 C16 C17): Merge (and recovery) decide whether a record belongs to a committed
// transaction by looking its id up in DB.committedTxIds. A transaction's records may be spread over
// several segments, so an id has to stay in the set for as long as any segment may still hold one of its
// records: while the database is open the set only grows. Nothing deletes from it and nothing outside
// Open's recovery replaces it.

func ruleCommitSetMono(c *Ctx) {
	forbidden := map[*ssa.Function]bool{}
	for _, f := range c.P.ModCone(c.P.MustFunc("(*Tx).Commit"), c.P.MustFunc("(*DB).Merge")) {
		forbidden[f] = true
	}
	isSetField := func(v ssa.Value) bool { return isFieldLoad(v, "DB", "committedTxIds") }
	lookups, n := 0, 0
	for _, f := range c.P.ModCone(c.P.MustFunc("Open"), c.P.MustFunc("(*Tx).Commit"), c.P.MustFunc("(*DB).Merge"), c.P.MustFunc("(*Tx).Get")) {
		instrs(f, func(in ssa.Instruction) {
			switch x := in.(type) {
			case *ssa.Lookup:
				if isSetField(x.X) {
					lookups++
				}
			case *ssa.Call:
				if bi, ok := x.Call.Value.(*ssa.Builtin); ok && bi.Name() == "delete" && len(x.Call.Args) == 2 && isSetField(x.Call.Args[0]) {
					n++
					c.touch(f)
					c.bad(fnName(f), fmt.Sprintf("DB.committedTxIds only grows while the database is open (delete #%d)", n), c.P.ipos(x),
						"an id is deleted from DB.committedTxIds: the records of a committed transaction that lie in other segments (a commit that rotated the active file, or records not merged yet) fail the committed test afterwards; Merge drops them and recovery-time logic that consults the set disagrees with the log")
				}
			case *ssa.Store:
				fa, ok := x.Addr.(*ssa.FieldAddr)
				if ok && namedIs(derefT(fa.X.Type()), "DB") && fieldVarOf(fa).Name() == "committedTxIds" && forbidden[f] {
					n++
					c.touch(f)
					c.bad(fnName(f), fmt.Sprintf("DB.committedTxIds only grows while the database is open (replaced #%d)", n), c.P.ipos(x),
						"DB.committedTxIds is replaced on the commit or merge path: ids registered before are forgotten")
				}
			}
		})
	}
	c.Sites += lookups
	if n == 0 {
		c.ok("DB.committedTxIds", "only grows while the database is open", "", fmt.Sprintf("%d lookups; no delete and no replacement on the commit or merge path", lookups))
	}
	c.minInstances("lookups in DB.committedTxIds", lookups, 2)
}

// ---------------------------------------------------------------------------
// R-CONSTINDEX (C20): an exported function or method that addresses element k (a constant) of one of its
// slice parameters — a variadic list of members, a key — does so only where len(parameter) > k is
// established on the path. Callers control the length: an empty variadic call must not panic.

func ruleConstIndex(c *Ctx) {
	n := 0
	for _, f := range c.P.SrcFuncs {
		if f.Pkg != c.P.Main || f.Object() == nil || !f.Object().Exported() || len(f.Blocks) == 0 {
			continue // the ds packages are reached only through Tx, whose appliers pass exactly one member
		}
		k := 0
		instrs(f, func(in ssa.Instruction) {
			ia, ok := in.(*ssa.IndexAddr)
			if !ok {
				return
			}
			idx, isConst := constInt(ia.Index)
			if !isConst || idx < 0 {
				return
			}
			prm, ok := ia.X.(*ssa.Parameter)
			if !ok {
				return
			}
			if _, isSlice := prm.Type().Underlying().(*types.Slice); !isSlice {
				return
			}
			n++
			k++
			c.touch(f)
			symf := func(v ssa.Value) string {
				v = resolve1(v)
				if call, ok := v.(*ssa.Call); ok {
					if bi, ok := call.Call.Value.(*ssa.Builtin); ok && bi.Name() == "len" {
						return "len(" + pathOf(call.Call.Args[0]) + ")"
					}
				}
				return pathOf(v)
			}
			name := "len(" + pathOf(prm) + ")"
			edges := lowerBoundEdges(f, name, symf, idx+1, true)
			c.check(len(edges) > 0 && edgesDominate(f, edges, in.Block()), fnName(f), fmt.Sprintf("access #%d to element %d of parameter %s is guarded by its length", k, idx, prm.Name()), c.P.ipos(in), "",
				fmt.Sprintf("element %d of the caller-supplied slice %s is addressed with nothing on the path establishing len(%s) > %d: a call with an empty (or shorter) argument panics with 'index out of range' instead of returning an error", idx, prm.Name(), prm.Name(), idx))
		})
	}
	c.Sites += n
	c.ok("exported functions", "constant-index accesses to slice parameters examined", "", fmt.Sprintf("%d accesses", n))
}
