package main

import (
	"fmt"
	"go/token"
	"sort"
	"strings"

	"golang.org/x/tools/go/ssa"
)

// ---------------------------------------------------------------------------
// R-ATOMIC (C12): no reader-visible publication before the last fallible step.

type pubEvent struct {
	in   ssa.Instruction
	desc string
}

// describeErrReturn gives a position-independent description of an error exit.
func describeErrReturn(p *Prog, r *ssa.Return, idx int) string {
	var parts []string
	for _, v := range resolve(r.Results[idx]) {
		switch x := v.(type) {
		case *ssa.UnOp:
			if g, ok := x.X.(*ssa.Global); ok {
				parts = append(parts, g.Name())
				continue
			}
		case *ssa.Call:
			parts = append(parts, "error of "+calleeName(&x.Call))
			continue
		case *ssa.Extract:
			if c, ok := x.Tuple.(*ssa.Call); ok {
				parts = append(parts, "error of "+calleeName(&c.Call))
				continue
			}
		}
		parts = append(parts, dispPath(v))
	}
	sort.Strings(parts)
	s := ""
	for i, p := range parts {
		if i > 0 {
			s += "/"
		}
		s += p
	}
	return "return " + s
}

func ruleAtomic(c *Ctx) { ruleAtomicImpl(c, false) }

// ruleAtomicDS: R-ATOMIC restricted to publications into the list/set/sorted-set indexes (C05-C07): a failed
// commit must not leave data-structure operations applied.
func ruleAtomicDS(c *Ctx) { ruleAtomicImpl(c, true) }

func ruleAtomicImpl(c *Ctx, dsOnly bool) {
	commit := c.P.MustFunc("(*Tx).Commit")
	c.touch(commit)
	wl := findWriteLoop(c)
	if wl.fn != commit {
		c.undecided(fnName(commit), "write loop", "", "the commit write loop moved out of Tx.Commit; R-ATOMIC must be re-anchored")
		return
	}
	// publishing events
	var evs []pubEvent
	ord := map[string]int{}
	instrs(commit, func(in ssa.Instruction) {
		var d string
		switch x := in.(type) {
		case *ssa.MapUpdate:
			if isFieldLoad(x.Map, "DB", "committedTxIds") {
				d = "DB.committedTxIds[txID] = …"
			}
		case *ssa.Call:
			if cal := x.Call.StaticCallee(); cal != nil && c.P.inModule(cal) && reachesIndexMutator(c.P, cal) {
				// named by WHAT is published (the index mutators in the callee's cone), so that the
				// obligation keeps its identity when the call is wrapped or the helper renamed
				var ms []string
				seen := map[string]bool{}
				for g := range c.P.Cone(nil, cal) {
					if isIndexMutator(g) && !seen[fnName(g)] {
						seen[fnName(g)] = true
						ms = append(ms, fnName(g))
					}
				}
				sort.Strings(ms)
				d = "publish " + strings.Join(ms, ",") + " (call " + fnName(cal) + ")"
			}
		}
		if d == "" {
			return
		}
		if dsOnly && (strings.HasPrefix(d, "DB.committedTxIds") || strings.HasPrefix(d, "publish (*BPTree).Insert (")) {
			return
		}
		ord[d]++
		if ord[d] > 1 {
			d = fmt.Sprintf("%s #%d", d, ord[d])
		}
		evs = append(evs, pubEvent{in, d})
	})
	if dsOnly {
		c.minInstances("publishing events in Commit", len(evs), 1)
	} else {
		c.minInstances("publishing events in Commit", len(evs), 3)
	}
	// error exits
	idx := errResultIndex(commit)
	var exits []*ssa.Return
	for _, r := range returnsOf(commit) {
		if classifyRetOperand(r, idx) != retNil {
			exits = append(exits, r)
		}
	}
	c.minInstances("error exits of Commit", len(exits), 5)
	// last-iteration edges: idx == len(pendingWrites)-1
	sym := func(v ssa.Value) string {
		if sameValue(v, wl.idx) {
			return "IDX"
		}
		if isFieldLoad(v, "Tx", "pendingWrites") {
			return "PW"
		}
		return pathOf(v)
	}
	want := lin{terms: map[string]int64{"IDX": 1, "len(PW)": -1}, c: 1}
	lastEdges := eqEdges(commit, true, func(x, y ssa.Value) bool {
		d := linAdd(linOf(x, sym), linOf(y, sym), -1)
		return d.String() == want.String() || linScale(d, -1).String() == want.String()
	})
	// the loop-continue edge: If (idxPhi < len) true edge at the loop header
	var contEdges []succEdge
	for _, i := range ifsOf(commit) {
		ca := decomposeIf(i)
		if ca.Op != token.LSS && ca.Op != token.GTR && ca.Op != token.LEQ && ca.Op != token.GEQ && ca.Op != token.NEQ {
			continue
		}
		d := linAdd(linOf(ca.X, sym), linOf(ca.Y, sym), -1)
		w2 := lin{terms: map[string]int64{"IDX": 1, "len(PW)": -1}, c: 0}
		if d.String() == w2.String() && ca.Op == token.LSS && !ca.Neg {
			contEdges = append(contEdges, succEdge{i.Block(), 0})
		}
	}
	n := 0
	for _, e := range evs {
		var prune []succEdge
		// an event of the last iteration cannot be followed by another iteration
		if len(lastEdges) > 0 && edgesDominate(commit, lastEdges, e.in.Block()) {
			prune = contEdges
		}
		for _, x := range exits {
			n++
			c.Sites++
			xd := describeErrReturn(c.P, x, idx)
			// the event's own failure does not count as "after" unless it published first (callee-internal), which is judged in the callee
			p := findPath(commit, e.in, func(in ssa.Instruction) bool { return in == ssa.Instruction(x) }, nil, edgeSet(prune))
			if p != nil {
				// exclude the exit that returns this very call's error on the direct error edge: the callee failed before/while publishing
				if call, ok := e.in.(*ssa.Call); ok {
					own := false
					for _, v := range resolve(x.Results[idx]) {
						if v == ssa.Value(call) {
							own = true
						}
						if ex, ok := v.(*ssa.Extract); ok && ex.Tuple == ssa.Value(call) {
							own = true
						}
					}
					if own {
						// judge the callee: does it publish before its own error exits?
						cal := call.Call.StaticCallee()
						if !publishesBeforeError(c, cal) {
							c.ok(fnName(commit), e.desc+" -> "+xd, c.P.ipos(e.in), "the callee's error exits precede its own publications")
							continue
						}
					}
				}
				c.bad(fnName(commit), e.desc+" -> "+xd, c.P.ipos(e.in),
					"reader-visible index state is published and Commit can still fail afterwards: the failed transaction's writes stay visible", c.witnessOf(p)...)
			} else {
				c.ok(fnName(commit), e.desc+" -> "+xd, c.P.ipos(e.in), "no path from this publication to this error exit")
			}
		}
	}
	_ = n
}

// publishesBeforeError: fn has a path from an index mutation to one of its own error returns.
func publishesBeforeError(c *Ctx, fn *ssa.Function) bool {
	if fn == nil || fn.Blocks == nil {
		return true
	}
	idx := errResultIndex(fn)
	if idx < 0 {
		return false
	}
	res := false
	instrs(fn, func(in ssa.Instruction) {
		call, ok := in.(*ssa.Call)
		if !ok {
			return
		}
		cal := call.Call.StaticCallee()
		if cal == nil || !(isIndexMutator(cal) || (c.P.inModule(cal) && reachesIndexMutator(c.P, cal))) {
			return
		}
		if findPath(fn, in, func(x ssa.Instruction) bool {
			r, ok := x.(*ssa.Return)
			return ok && classifyRetOperand(r, idx) != retNil
		}, nil, nil) != nil {
			res = true
		}
	})
	return res
}
