package main

import (
	"fmt"

	"golang.org/x/tools/go/ssa"
)

// ---------------------------------------------------------------------------
// R-RECOVER-ORDER: recovery decides "did this record's transaction commit" by looking the
// record's txID up in the set of ids whose commit marker was seen. Only the LAST record of
// a transaction carries the marker, and a commit may rotate the segment in the middle, so
// the marker of a transaction can sit in a later file than its first records. The lookup is
// therefore only meaningful once every segment has been scanned: in the cone of Open no
// membership test on the committed-id set may be followed (on any path, including the next
// iteration of an enclosing loop) by an insertion into it.

func ruleRecoverOrder(c *Ctx) {
	open := c.P.MustFunc("Open")
	cone := c.P.ModCone(open)
	inCone := map[*ssa.Function]bool{}
	for _, f := range cone {
		inCone[f] = true
	}
	isIns := func(in ssa.Instruction) bool {
		mu, ok := in.(*ssa.MapUpdate)
		return ok && isFieldLoad(mu.Key, "MetaData", "txID")
	}
	isTest := func(in ssa.Instruction) bool {
		lk, ok := in.(*ssa.Lookup)
		return ok && lk.CommaOk && isFieldLoad(lk.Index, "MetaData", "txID")
	}
	hasIns, hasTest := map[*ssa.Function]bool{}, map[*ssa.Function]bool{}
	for _, f := range cone {
		instrs(f, func(in ssa.Instruction) {
			if isIns(in) {
				hasIns[f] = true
			}
			if isTest(in) {
				hasTest[f] = true
			}
		})
	}
	for changed := true; changed; {
		changed = false
		for _, f := range cone {
			calls(f, func(ci ssa.CallInstruction) {
				for _, cal := range c.P.Callees(ci) {
					if !inCone[cal] {
						continue
					}
					if hasIns[cal] && !hasIns[f] {
						hasIns[f] = true
						changed = true
					}
					if hasTest[cal] && !hasTest[f] {
						hasTest[f] = true
						changed = true
					}
				}
			})
		}
	}
	evIns := func(in ssa.Instruction) bool {
		if isIns(in) {
			return true
		}
		if ci, ok := in.(ssa.CallInstruction); ok {
			for _, cal := range c.P.Callees(ci) {
				if inCone[cal] && hasIns[cal] {
					return true
				}
			}
		}
		return false
	}
	evTest := func(in ssa.Instruction) bool {
		if isTest(in) {
			return true
		}
		if ci, ok := in.(ssa.CallInstruction); ok {
			for _, cal := range c.P.Callees(ci) {
				if inCone[cal] && hasTest[cal] {
					return true
				}
			}
		}
		return false
	}
	nT, nI := 0, 0
	for _, f := range cone {
		var tests, inss []ssa.Instruction
		instrs(f, func(in ssa.Instruction) {
			if evTest(in) {
				tests = append(tests, in)
			}
			if evIns(in) {
				inss = append(inss, in)
			}
		})
		for _, in := range inss {
			if isIns(in) {
				nI++
			}
		}
		for k, t := range tests {
			if isTest(t) {
				nT++
			}
			if len(inss) == 0 {
				continue
			}
			c.touch(f)
			c.Sites++
			detail := fmt.Sprintf("committed-id test #%d (%s) is not followed by an insertion into the set", k+1, shortInstr(t))
			w := findPath(f, t, evIns, nil, nil)
			if w != nil {
				c.bad(fnName(f), detail, c.P.ipos(t), "a record's transaction id is looked up in the committed-id set while segments are still being scanned: the commit marker of a transaction that rotated the segment during Commit lies in a later file, so its earlier records are judged uncommitted and dropped (or judged on a partial set) after reopen", c.witnessOf(w)...)
			} else {
				c.ok(fnName(f), detail, c.P.ipos(t), "every insertion precedes it")
			}
		}
	}
	c.minInstances("committed-id membership tests in the open cone", nT, 1)
	c.minInstances("committed-id insertions in the open cone", nI, 1)
}
