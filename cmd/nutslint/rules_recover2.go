package main

import (
	"fmt"

	"golang.org/x/tools/go/ssa"
)

// ---------------------------------------------------------------------------
// R-RECOVER-ORDER: recovery decides "did this record's transaction commit" by looking the
// record's txID up in the set of ids whose commit marker was seen. Only the LAST record of
// a transaction carries the marker, and a commit may rotate the segment in the middle, so
// the marker of a transaction can sit in a later file than its first records. The lookup is
// therefore only meaningful once every segment has been scanned: in the cone of Open no
// membership test on the committed-id set may be followed (on any path, including the next
// iteration of an enclosing loop) by an insertion into it.

func ruleRecoverOrder(c *Ctx) {
	open := c.P.MustFunc("Open")
	cone := c.P.ModCone(open)
	inCone := map[*ssa.Function]bool{}
	for _, f := range cone {
		inCone[f] = true
	}
	isIns := func(in ssa.Instruction) bool {
		mu, ok := in.(*ssa.MapUpdate)
		return ok && isFieldLoad(mu.Key, "MetaData", "txID")
	}
	isTest := func(in ssa.Instruction) bool {
		lk, ok := in.(*ssa.Lookup)
		return ok && lk.CommaOk && isFieldLoad(lk.Index, "MetaData", "txID")
	}
	hasIns, hasTest := map[*ssa.Function]bool{}, map[*ssa.Function]bool{}
	for _, f := range cone {
		instrs(f, func(in ssa.Instruction) {
			if isIns(in) {
				hasIns[f] = true
			}
			if isTest(in) {
				hasTest[f] = true
			}
		})
	}
	for changed := true; changed; {
		changed = false
		for _, f := range cone {
			calls(f, func(ci ssa.CallInstruction) {
				for _, cal := range c.P.Callees(ci) {
					if !inCone[cal] {
						continue
					}
					if hasIns[cal] && !hasIns[f] {
						hasIns[f] = true
						changed = true
					}
					if hasTest[cal] && !hasTest[f] {
						hasTest[f] = true
						changed = true
					}
				}
			})
		}
	}
	evIns := func(in ssa.Instruction) bool {
		if isIns(in) {
			return true
		}
		if ci, ok := in.(ssa.CallInstruction); ok {
			for _, cal := range c.P.Callees(ci) {
				if inCone[cal] && hasIns[cal] {
					return true
				}
			}
		}
		return false
	}
	evTest := func(in ssa.Instruction) bool {
		if isTest(in) {
			return true
		}
		if ci, ok := in.(ssa.CallInstruction); ok {
			for _, cal := range c.P.Callees(ci) {
				if inCone[cal] && hasTest[cal] {
					return true
				}
			}
		}
		return false
	}
	nT, nI := 0, 0
	for _, f := range cone {
		var tests, inss []ssa.Instruction
		instrs(f, func(in ssa.Instruction) {
			if evTest(in) {
				tests = append(tests, in)
			}
			if evIns(in) {
				inss = append(inss, in)
			}
		})
		for _, in := range inss {
			if isIns(in) {
				nI++
			}
		}
		for k, t := range tests {
			if isTest(t) {
				nT++
			}
			if len(inss) == 0 {
				continue
			}
			c.touch(f)
			c.Sites++
			detail := fmt.Sprintf("committed-id test #%d (%s) is not followed by an insertion into the set", k+1, shortInstr(t))
			w := findPath(f, t, evIns, nil, nil)
			if w != nil {
				c.bad(fnName(f), detail, c.P.ipos(t), "a record's transaction id is looked up in the committed-id set while segments are still being scanned: the commit marker of a transaction that rotated the segment during Commit lies in a later file, so its earlier records are judged uncommitted and dropped (or judged on a partial set) after reopen", c.witnessOf(w)...)
			} else {
				c.ok(fnName(f), detail, c.P.ipos(t), "every insertion precedes it")
			}
		}
	}
	c.minInstances("committed-id membership tests in the open cone", nT, 1)
	c.minInstances("committed-id insertions in the open cone", nI, 1)
}

// ---------------------------------------------------------------------------
// R-ENTRY-PRESENT: list, set and sorted-set records are replayed from their payload
// (Record.E.Key / E.Value) on reopen, in whatever index mode the directory was written: the
// commit-time appliers accept them in every mode. So a Record built by recovery may have a nil
// entry only when it is a key/value record (which can be indexed by position alone). A nil
// entry on a non-KV record makes the open-time applier fail Open (or dereference nil) on a
// directory produced by successful calls, and makes the two RAM index modes disagree.

func ruleEntryPresent(c *Ctx) {
	open := c.P.MustFunc("Open")
	kv, ok := constIntVal(c.P.Const("DataStructureBPTree"))
	if !ok {
		c.undecided("DataStructureBPTree", "constant", "", "constant not found")
		return
	}
	n := 0
	perFn := map[*ssa.Function]int{}
	for _, f := range c.P.ModCone(open) {
		dsEq := eqEdges(f, true, func(x, y ssa.Value) bool {
			if !isFieldLoad(x, "MetaData", "ds") {
				return false
			}
			k, ok := constInt(y)
			return ok && k == kv
		})
		isDsEdge := func(b *ssa.BasicBlock, si int) bool {
			for _, e := range dsEq {
				if e.b == b && e.si == si {
					return true
				}
			}
			return false
		}
		instrs(f, func(in ssa.Instruction) {
			st, ok := in.(*ssa.Store)
			if !ok {
				return
			}
			fa, ok := st.Addr.(*ssa.FieldAddr)
			if !ok {
				return
			}
			fv := fieldVarOf(fa)
			if fv == nil || fv.Name() != "E" || !namedIs(derefT(fa.X.Type()), "Record") {
				return
			}
			n++
			perFn[f]++
			c.touch(f)
			detail := fmt.Sprintf("Record.E store #%d: a nil entry only on key/value records", perFn[f])
			bad := ""
			und := ""
			var visit func(v ssa.Value, viaBlock *ssa.BasicBlock, viaSucc int, depth int)
			seen := map[ssa.Value]bool{}
			visit = func(v ssa.Value, viaBlock *ssa.BasicBlock, viaSucc int, depth int) {
				if depth > 6 {
					und = "value flow too deep"
					return
				}
				switch x := v.(type) {
				case *ssa.Phi:
					if seen[x] {
						return
					}
					seen[x] = true
					for i, e := range x.Edges {
						pred := x.Block().Preds[i]
						si := 0
						for k, s := range pred.Succs {
							if s == x.Block() {
								si = k
							}
						}
						visit(e, pred, si, depth+1)
					}
				case *ssa.Alloc, *ssa.Parameter:
					// a fresh entry, or the caller's record (obligation on the callers' own stores)
				case *ssa.Const:
					if !isNilConst(x) {
						return
					}
					// where does the nil come from: the edge (viaBlock, viaSucc) or the store's own block
					at := st.Block()
					if viaBlock != nil {
						if isDsEdge(viaBlock, viaSucc) || edgesDominate(f, dsEq, viaBlock) {
							return
						}
						bad = "a nil entry reaches this record on a path that is not restricted to ds == DataStructureBPTree (edge out of block " + fmt.Sprint(viaBlock.Index) + ")"
						return
					}
					if !edgesDominate(f, dsEq, at) {
						bad = "a nil entry is stored without ds == DataStructureBPTree being established"
					}
				case *ssa.UnOp, *ssa.Call, *ssa.Extract, *ssa.FieldAddr, *ssa.Field:
					// loaded from an existing record / produced by a decoder: entries read from disk are non-nil behind the nil test of the scan loop
				default:
					und = fmt.Sprintf("cannot classify %T", v)
				}
			}
			visit(st.Val, nil, 0, 0)
			switch {
			case bad != "":
				c.bad(fnName(f), detail, c.P.ipos(st), bad+": a list/set/sorted-set record is rebuilt without its payload, so the open-time applier returns an error (or dereferences nil) and Open fails on a directory written by successful calls in this index mode")
			case und != "":
				c.undecided(fnName(f), detail, c.P.ipos(st), und)
			default:
				c.ok(fnName(f), detail, c.P.ipos(st), "")
			}
		})
	}
	c.Sites += n
	c.minInstances("stores to Record.E in the open cone", n, 1)
}
