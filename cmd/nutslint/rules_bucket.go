package main

import (
	"fmt"
	"go/token"
	"go/types"
	"strings"

	"golang.org/x/tools/go/ssa"
)

// ---------------------------------------------------------------------------
// C04: bucket isolation

func ruleBucketKey(c *Ctx) {
	n := 0
	ord := map[string]int{}
	commitOpen := map[*ssa.Function]bool{}
	for _, f := range c.P.ModCone(c.P.MustFunc("(*Tx).Commit"), c.P.MustFunc("Open"), c.P.MustFunc("(*DB).Merge")) {
		commitOpen[f] = true
	}
	for _, f := range c.P.SrcFuncs {
		if f.Pkg != c.P.Main {
			continue
		}
		instrs(f, func(in ssa.Instruction) {
			var m, key ssa.Value
			switch x := in.(type) {
			case *ssa.Lookup:
				m, key = x.X, x.Index
			case *ssa.MapUpdate:
				m, key = x.Map, x.Key
			default:
				return
			}
			mp := bucketMapOf(m)
			if mp == "" {
				return
			}
			n++
			c.touch(f)
			c.Sites++
			ord[fnName(f)+mp]++
			det := fmt.Sprintf("%s key #%d", mp, ord[fnName(f)+mp])
			kv := resolve1(key)
			okb, why := false, ""
			switch k := kv.(type) {
			case *ssa.Parameter:
				if b, isB := k.Type().Underlying().(*types.Basic); isB && b.Kind() == types.String {
					okb = true
					why = "keyed by the function's own bucket parameter " + k.Name()
				}
			case *ssa.Convert:
				// string(record.Meta.bucket)
				if isFieldLoad(k.X, "MetaData", "bucket") && commitOpen[f] {
					okb = true
					why = "keyed by the record's own bucket"
				}
				if p, isP := resolve1(k.X).(*ssa.Parameter); isP && commitOpen[f] {
					// []byte bucket parameter (getRecordFromKey)
					_ = p
					okb = true
					why = "keyed by the function's own bucket parameter"
				}
			}
			if !okb {
				why = "the per-bucket index map is keyed by " + dispPath(key) + ", which is neither the method's own bucket parameter nor the record's own bucket"
			}
			c.check(okb, fnName(f), det, c.P.ipos(in), why, why)
		})
	}
	c.minInstances("per-bucket map accesses", n, 60)
	// two-bucket methods: each looked-up set is indexed only with the key parameter of the same position
	k := 0
	for _, m := range c.P.Methods(c.P.Named("", "Tx")) {
		var strParams []int
		for i, p := range m.Params {
			// a bucket parameter is a string parameter directly followed by its []byte key parameter
			if b, ok := p.Type().Underlying().(*types.Basic); ok && b.Kind() == types.String && i > 0 && i+1 < len(m.Params) {
				if sl, ok := m.Params[i+1].Type().Underlying().(*types.Slice); ok {
					if eb, ok := sl.Elem().Underlying().(*types.Basic); ok && eb.Kind() == types.Byte {
						strParams = append(strParams, i)
					}
				}
			}
		}
		if len(strParams) < 2 {
			continue
		}
		// lookups keyed by each bucket parameter
		used := map[int]bool{}
		instrs(m, func(in ssa.Instruction) {
			lk, ok := in.(*ssa.Lookup)
			if !ok || bucketMapOf(lk.X) == "" {
				return
			}
			bp, ok := resolve1(lk.Index).(*ssa.Parameter)
			if !ok {
				return
			}
			bi := paramIndex(m, bp)
			used[bi] = true
			// range of parameter positions that belong to this bucket
			hi := len(m.Params)
			for _, sp := range strParams {
				if sp > bi && sp < hi {
					hi = sp
				}
			}
			var setVal ssa.Value = lk
			if lk.CommaOk {
				for _, r := range *lk.Referrers() {
					if ex, ok := r.(*ssa.Extract); ok && ex.Index == 0 {
						setVal = ex
					}
				}
			}
			// every use of the set with a []byte-derived key
			checkUse := func(keyArg ssa.Value, at ssa.Instruction) {
				root, _ := splitPath(keyArg)
				kp, ok := root.(*ssa.Parameter)
				if !ok {
					return
				}
				if _, isSlice := kp.Type().Underlying().(*types.Slice); !isSlice {
					return
				}
				ki := paramIndex(m, kp)
				// item parameters (after all keys) are shared; only key parameters are positional
				isKey := false
				for _, sp := range strParams {
					if ki == sp+1 {
						isKey = true
					}
				}
				if !isKey {
					return
				}
				k++
				c.check(ki > bi && ki < hi, fnName(m), fmt.Sprintf("set of bucket parameter #%d is addressed with its own key parameter (use %d)", bi, k), c.P.ipos(at), "",
					fmt.Sprintf("the structure looked up with bucket parameter #%d is addressed with key parameter #%d, which belongs to the other bucket", bi, ki))
			}
			var follow func(v ssa.Value, depth int)
			follow = func(v ssa.Value, depth int) {
				if v.Referrers() == nil || depth > 4 {
					return
				}
				for _, r := range *v.Referrers() {
					switch x := r.(type) {
					case *ssa.Phi:
						follow(x, depth+1)
					case *ssa.FieldAddr:
						follow(x, depth+1)
					case *ssa.UnOp:
						if x.Op == token.MUL {
							follow(x, depth+1)
						}
					case *ssa.Lookup:
						if x.X == v {
							checkUse(x.Index, x)
						}
					case *ssa.Range:
					case ssa.CallInstruction:
						cc := x.Common()
						if len(cc.Args) > 1 && cc.Args[0] == v {
							for _, a := range cc.Args[1:] {
								checkUse(a, x)
							}
						}
					}
				}
			}
			follow(setVal, 0)
		})
		if len(used) > 0 {
			c.touch(m)
			for _, sp := range strParams {
				c.check(used[sp], fnName(m), fmt.Sprintf("bucket parameter #%d keys a lookup", sp), c.P.pos(m.Pos()), "", "a bucket parameter of a two-bucket method is never used to select a structure")
			}
		}
	}
	c.minInstances("positional key uses in two-bucket methods", k, 6)
}

// ruleComposite: composite byte keys built from two variable-length inputs must be injective.
func ruleComposite(c *Ctx) {
	rc := &recipeCtx{p: c.P}
	n := 0
	ord := map[string]int{}
	for _, f := range c.P.SrcFuncs {
		if f.Pkg != c.P.Main {
			continue
		}
		instrs(f, func(in ssa.Instruction) {
			var parts []ssa.Value
			switch x := in.(type) {
			case *ssa.Call:
				if bi, ok := x.Call.Value.(*ssa.Builtin); ok && bi.Name() == "append" && len(x.Call.Args) == 2 {
					if sl, ok := x.Type().Underlying().(*types.Slice); ok {
						if b, ok := sl.Elem().Underlying().(*types.Basic); ok && b.Kind() == types.Byte {
							parts = []ssa.Value{x.Call.Args[0], x.Call.Args[1]}
						}
					}
				}
			case *ssa.BinOp:
				if x.Op == token.ADD {
					if b, ok := x.Type().Underlying().(*types.Basic); ok && b.Kind() == types.String {
						parts = []ssa.Value{x.X, x.Y}
					}
				}
			}
			if parts == nil {
				return
			}
			isBucket := func(v ssa.Value) bool {
				r := rc.recipe(v, 0)
				if r == "BUCKET" {
					return true
				}
				if p, ok := stripConv(resolve1(v)).(*ssa.Parameter); ok && strings.Contains(strings.ToLower(p.Name()), "bucket") {
					return true
				}
				return false
			}
			isKey := func(v ssa.Value) bool {
				r := rc.recipe(v, 0)
				if r == "KEY" {
					return true
				}
				if p, ok := stripConv(resolve1(v)).(*ssa.Parameter); ok {
					if sl, ok := p.Type().Underlying().(*types.Slice); ok {
						if b, ok := sl.Elem().Underlying().(*types.Basic); ok && b.Kind() == types.Byte {
							return true
						}
					}
				}
				return false
			}
			if !(isBucket(parts[0]) && isKey(parts[1])) {
				return
			}
			n++
			c.touch(f)
			// the obligation is named by where the key goes (its sink), so that it keeps its identity when the
			// code that builds it is moved or renamed, and a composite key for a NEW purpose is a new obligation
			sink := compositeSink(in.(ssa.Value), f)
			ord[sink]++
			c.bad(sink, fmt.Sprintf("composite key #%d is injective (built in %s)", ord[sink], fnName(f)), c.P.ipos(in),
				"a sparse-mode index key is the plain concatenation bucket+key with no length prefix or separator: different (bucket, key) pairs collide (\"a\"+\"bc\" == \"ab\"+\"c\"), so one bucket can read or overwrite another bucket's entry")
		})
	}
	if n == 0 {
		c.ok("sparse-mode composite keys", "no ambiguous bucket+key concatenation", "", "")
	}
}

// compositeSink describes what a concatenated bucket+key value is used for.
func compositeSink(v ssa.Value, f *ssa.Function) string {
	seen := map[ssa.Value]bool{}
	var walk func(v ssa.Value, d int) string
	walk = func(v ssa.Value, d int) string {
		if v == nil || seen[v] || d > 6 || v.Referrers() == nil {
			return ""
		}
		seen[v] = true
		for _, r := range *v.Referrers() {
			switch x := r.(type) {
			case *ssa.MapUpdate:
				if x.Key == v {
					if fv, base := lastField(x.Map); fv != nil {
						return fieldQual(derefT(base.Type()), fv)
					}
					return "a local map in " + fnName(f)
				}
			case *ssa.Lookup:
				if x.Index == v {
					if fv, base := lastField(x.X); fv != nil {
						return fieldQual(derefT(base.Type()), fv)
					}
					return "a local map in " + fnName(f)
				}
			case ssa.CallInstruction:
				for _, a := range x.Common().Args {
					if a == v {
						return "argument of " + calleeName(x.Common())
					}
				}
			case *ssa.Return:
				return "result of " + fnName(f)
			case *ssa.Store:
				if x.Val == v {
					if fa, ok := x.Addr.(*ssa.FieldAddr); ok {
						return fieldQual(derefT(fa.X.Type()), fieldVarOf(fa))
					}
					if al, ok := x.Addr.(*ssa.Alloc); ok {
						for _, rr := range *al.Referrers() {
							if ld, ok := rr.(*ssa.UnOp); ok {
								if s := walk(ld, d+1); s != "" {
									return s
								}
							}
						}
					}
				}
			case *ssa.Convert, *ssa.ChangeType, *ssa.MakeInterface, *ssa.Slice, *ssa.Phi:
				if s := walk(r.(ssa.Value), d+1); s != "" {
					return s
				}
			}
		}
		return ""
	}
	if s := walk(v, 0); s != "" {
		return s
	}
	return "a value in " + fnName(f)
}
