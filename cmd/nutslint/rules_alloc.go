package main

import (
	"fmt"
	"go/token"
	"go/types"
	"sort"

	"golang.org/x/tools/go/ssa"
)

// ---------------------------------------------------------------------------
// R-ALLOC-BOUND (C20): no allocation size is computed from an integer the caller of the API
// chooses. Taint: integer parameters of the exported Tx methods, and integers decoded from a
// stored record by the appliers (strconv conversions: they are API integers that went through
// the log). Propagation: arithmetic, conversions, phis, call arguments into module callees,
// results of module callees, reaching stores of locals. An upper clamp (the value flows on
// only from the edge where it compared below an untainted bound) removes the taint.
// Sink: len/cap of make. "makeslice: len out of range" / exhaustion is a panic an argument
// can provoke; the existing code never sizes an allocation from an API integer.

type intTaint struct {
	c       *Ctx
	tainted map[ssa.Value]string // value -> origin description
	work    []ssa.Value
}

func (t *intTaint) add(v ssa.Value, why string) {
	if v == nil {
		return
	}
	if _, ok := t.tainted[v]; ok {
		return
	}
	if !isIntegerType(v.Type()) {
		if _, isTuple := v.Type().(*types.Tuple); !isTuple {
			return
		}
	}
	t.tainted[v] = why
	t.work = append(t.work, v)
}

// upperClamped: phi edge i brings x only from an edge on which x < U or x <= U held for an untainted U
func (t *intTaint) upperClamped(p *ssa.Phi, i int) bool {
	x := p.Edges[i]
	pred := p.Block().Preds[i]
	fn := p.Parent()
	var edges []succEdge
	for _, ifi := range ifsOf(fn) {
		a := decomposeIf(ifi)
		var lt bool // on succ 0: X < Y or X <= Y
		switch a.Op {
		case token.LSS, token.LEQ:
			lt = true
		case token.GTR, token.GEQ:
			lt = false
		default:
			continue
		}
		var other ssa.Value
		xIsLeft := false
		if sameValue(a.X, x) {
			other, xIsLeft = a.Y, true
		} else if sameValue(a.Y, x) {
			other = a.X
		} else {
			continue
		}
		if _, bad := t.tainted[resolve1(other)]; bad {
			continue
		}
		// edge on which x is below other
		below0 := (lt && xIsLeft) || (!lt && !xIsLeft)
		if a.Neg {
			below0 = !below0
		}
		si := 1
		if below0 {
			si = 0
		}
		edges = append(edges, succEdge{ifi.Block(), si})
	}
	if len(edges) == 0 {
		return false
	}
	// the phi edge itself, or its predecessor block, lies behind one of those edges
	for _, e := range edges {
		if e.b == pred && pred.Succs[e.si] == p.Block() {
			return true
		}
	}
	return edgesDominate(fn, edges, pred)
}

func ruleAllocBound(c *Ctx) {
	t := &intTaint{c: c, tainted: map[ssa.Value]string{}}
	// roots
	nRoots := 0
	for _, m := range c.P.Methods(c.P.Named("", "Tx")) {
		if m.Object() == nil || !m.Object().Exported() {
			continue
		}
		for _, p := range m.Params[1:] {
			if isIntegerType(p.Type()) {
				if b, ok := p.Type().Underlying().(*types.Basic); ok && (b.Kind() == types.Int || b.Kind() == types.Int64) {
					t.add(p, "parameter "+p.Name()+" of "+fnName(m))
					nRoots++
				}
			}
		}
	}
	for _, f := range c.P.SrcFuncs {
		if !c.P.inModule(f) {
			continue
		}
		calls(f, func(ci ssa.CallInstruction) {
			cal := ci.Common().StaticCallee()
			if cal == nil || cal.Pkg == nil {
				return
			}
			pk := cal.Pkg.Pkg.Path()
			if (pk == "strconv" && (cal.Name() == "Atoi" || cal.Name() == "ParseInt")) || (pk == "github.com/xujiajun/utils/strconv2" && (cal.Name() == "StrToInt" || cal.Name() == "StrToInt64")) {
				if v, ok := ci.(ssa.Value); ok {
					t.tainted[v] = "integer decoded by " + calleeName(ci.Common()) + " in " + fnName(f)
					t.work = append(t.work, v)
					nRoots++
				}
			}
		})
	}
	// propagate
	retOf := map[*ssa.Function][]*ssa.Return{}
	for len(t.work) > 0 {
		v := t.work[len(t.work)-1]
		t.work = t.work[:len(t.work)-1]
		why := t.tainted[v]
		refs := v.Referrers()
		if refs == nil {
			continue
		}
		for _, r := range *refs {
			switch x := r.(type) {
			case *ssa.BinOp:
				switch x.Op {
				case token.ADD, token.SUB, token.MUL, token.QUO, token.SHL:
					t.add(x, why)
				}
			case *ssa.UnOp:
				if x.Op == token.SUB {
					t.add(x, why)
				}
			case *ssa.Convert:
				t.add(x, why)
			case *ssa.ChangeType:
				t.add(x, why)
			case *ssa.Phi:
				for i, e := range x.Edges {
					if e == v && !t.upperClamped(x, i) {
						t.add(x, why)
					}
				}
			case *ssa.Extract:
				if isIntegerType(x.Type()) {
					// tuple results: handled at the call (below) by index
					if _, ok := t.tainted[x.Tuple]; ok {
						t.add(x, why)
					}
				}
			case *ssa.Store:
				if x.Val == v {
					if al, ok := x.Addr.(*ssa.Alloc); ok {
						for _, rr := range *al.Referrers() {
							if ld, ok := rr.(*ssa.UnOp); ok && ld.Op == token.MUL {
								t.add(ld, why)
							}
						}
					}
				}
			case *ssa.Return:
				f := x.Parent()
				if !c.P.inModule(f) {
					continue
				}
				retOf[f] = append(retOf[f], x)
				idx := -1
				for i, rv := range x.Results {
					if rv == v {
						idx = i
					}
				}
				for _, site := range c.P.CallersOf(f) {
					sv, ok := site.(ssa.Value)
					if !ok {
						continue
					}
					if len(x.Results) == 1 {
						t.add(sv, why)
						continue
					}
					for _, rr := range *sv.Referrers() {
						if ex, ok := rr.(*ssa.Extract); ok && ex.Index == idx {
							t.add(ex, why)
						}
					}
				}
			case ssa.CallInstruction:
				cc := x.Common()
				for _, cal := range c.P.Callees(x) {
					if !c.P.inModule(cal) || cal.Blocks == nil {
						continue
					}
					args := cc.Args
					params := cal.Params
					if cc.IsInvoke() {
						params = params[1:]
					}
					for i, a := range args {
						if a == v && i < len(params) {
							t.add(params[i], why)
						}
					}
				}
			}
		}
	}
	// sinks
	n, bad := 0, 0
	var fns []*ssa.Function
	for _, f := range c.P.SrcFuncs {
		if c.P.inModule(f) {
			fns = append(fns, f)
		}
	}
	sort.Slice(fns, func(i, j int) bool { return fnKey(fns[i]) < fnKey(fns[j]) })
	for _, f := range fns {
		k := 0
		instrs(f, func(in ssa.Instruction) {
			ms, ok := in.(*ssa.MakeSlice)
			if !ok {
				return
			}
			n++
			k++
			c.touch(f)
			for _, sz := range []ssa.Value{ms.Len, ms.Cap} {
				if why, isT := t.tainted[resolve1(sz)]; isT {
					bad++
					c.bad(fnName(f), fmt.Sprintf("allocation #%d is not sized from an API integer", k), c.P.ipos(ms),
						"the size of this make derives from "+why+" with no upper clamp: a huge (or negative) argument makes the call, or the Commit/Open that replays it, panic with 'makeslice: len/cap out of range' or exhaust memory")
					return
				}
			}
			c.ok(fnName(f), fmt.Sprintf("allocation #%d is not sized from an API integer", k), c.P.ipos(ms), "")
		})
	}
	c.Sites += n + len(t.tainted)
	c.minInstances("integer taint roots (API parameters and decoded integers)", nRoots, 15)
	c.minInstances("dynamically sized allocations examined", n, 8)
}

// ---------------------------------------------------------------------------
// R-LASTELEM (C20): an element access or slice start of the form x[S-k] (k >= 1), where S is a
// length (len(...) or the result of a module function that returns a len), panics when S < k.
// Every such access must be dominated by a comparison that establishes S >= k (S > 0, S != 0,
// len(x) == 0 -> return, ...). Accesses indexed by loop variables or by two symbols are outside
// this rule (they need a range prover).

// lenLike: v is len(...) or the int result of a module function all of whose returns yield len(...) or 0.
func lenLike(p *Prog, v ssa.Value, depth int) bool {
	v = resolve1(v)
	switch x := v.(type) {
	case *ssa.Call:
		if bi, ok := x.Call.Value.(*ssa.Builtin); ok {
			return bi.Name() == "len"
		}
		cal := x.Call.StaticCallee()
		if cal != nil && p.inModule(cal) && cal.Blocks != nil && cal.Signature.Results().Len() == 1 && depth < 3 {
			return retLenLike(p, cal, 0, depth)
		}
	case *ssa.Extract:
		if call, ok := x.Tuple.(*ssa.Call); ok {
			cal := call.Call.StaticCallee()
			if cal != nil && p.inModule(cal) && cal.Blocks != nil && depth < 3 {
				return retLenLike(p, cal, x.Index, depth)
			}
		}
	}
	return false
}

func retLenLike(p *Prog, f *ssa.Function, idx int, depth int) bool {
	rets := returnsOf(f)
	if len(rets) == 0 {
		return false
	}
	for _, r := range rets {
		if idx >= len(r.Results) {
			return false
		}
		for _, v := range resolve(r.Results[idx]) {
			if k, ok := constInt(v); ok && k == 0 {
				continue
			}
			if !lenLike(p, v, depth+1) {
				return false
			}
		}
	}
	return true
}

// lowerBoundEdges: edges of fn on which sym >= need is known, from comparisons whose linear difference is ±sym + c.
func lowerBoundEdges(fn *ssa.Function, symName string, symf func(ssa.Value) string, need int64, nonNeg bool) []succEdge {
	var out []succEdge
	for _, ifi := range ifsOf(fn) {
		a := decomposeIf(ifi)
		if a.X == nil || a.Y == nil {
			continue
		}
		d := linAdd(linOf(a.X, symf), linOf(a.Y, symf), -1)
		if len(d.terms) != 1 {
			continue
		}
		coef, ok := d.terms[symName]
		if !ok || (coef != 1 && coef != -1) {
			continue
		}
		op := a.Op
		c := d.c // coef*S + c op 0
		if coef == -1 {
			// -S + c op 0  <=>  S - c op' 0 with op' mirrored
			c = -c
			switch op {
			case token.LSS:
				op = token.GTR
			case token.LEQ:
				op = token.GEQ
			case token.GTR:
				op = token.LSS
			case token.GEQ:
				op = token.LEQ
			}
		}
		// now: S + c op 0, i.e. S op -c
		b := -c
		var lbTrue, lbFalse int64 = -1 << 62, -1 << 62
		switch op {
		case token.GTR:
			lbTrue = b + 1
		case token.GEQ:
			lbTrue = b
		case token.LSS:
			lbFalse = b
		case token.LEQ:
			lbFalse = b + 1
		case token.EQL:
			lbTrue = b
			if b == 0 && nonNeg {
				lbFalse = 1
			}
		case token.NEQ:
			lbFalse = b
			if b == 0 && nonNeg {
				lbTrue = 1
			}
		default:
			continue
		}
		t, f := 0, 1
		if a.Neg {
			t, f = 1, 0
		}
		if lbTrue >= need {
			out = append(out, succEdge{ifi.Block(), t})
		}
		if lbFalse >= need {
			out = append(out, succEdge{ifi.Block(), f})
		}
	}
	return out
}

func ruleLastElem(c *Ctx) {
	n := 0
	for _, f := range c.P.SrcFuncs {
		if !c.P.inModule(f) {
			continue
		}
		k := 0
		check := func(in ssa.Instruction, idx ssa.Value, what string) {
			if idx == nil {
				return
			}
			// the symbol: a len-like value
			var symVal ssa.Value
			symf := func(v ssa.Value) string {
				v = resolve1(v)
				if call, ok := v.(*ssa.Call); ok {
					if bi, ok := call.Call.Value.(*ssa.Builtin); ok && bi.Name() == "len" {
						return "len(" + pathOf(call.Call.Args[0]) + ")"
					}
				}
				return pathOf(v)
			}
			d := linOf(idx, symf)
			if len(d.terms) != 1 || d.c >= 0 {
				return
			}
			var name string
			for s, co := range d.terms {
				if co != 1 {
					return
				}
				name = s
			}
			// find the value behind the symbol
			backSlice(idx, func(v ssa.Value) {
				if symVal == nil && symf(v) == name && lenLike(c.P, v, 0) {
					symVal = v
				}
			})
			if symVal == nil {
				return
			}
			// the length of a parameter of an unexported function: the guard may live in the callers (out of scope)
			if call, ok := resolve1(symVal).(*ssa.Call); ok {
				if _, isLen := call.Call.Value.(*ssa.Builtin); isLen {
					root, _ := splitPath(call.Call.Args[0])
					if _, isParam := root.(*ssa.Parameter); isParam && (f.Object() == nil || !f.Object().Exported()) {
						return
					}
				}
			}
			need := -d.c
			n++
			k++
			c.touch(f)
			edges := lowerBoundEdges(f, name, symf, need, true)
			c.check(len(edges) > 0 && edgesDominate(f, edges, in.Block()), fnName(f), fmt.Sprintf("%s #%d at length-%d is guarded by length >= %d", what, k, need, need), c.P.ipos(in), "",
				fmt.Sprintf("an element is addressed at (length - %d) with nothing on the path establishing length >= %d: for an empty (or too short) list/slice the index is negative and the call, or the Commit/Open that replays it, panics with 'index out of range'", need, need))
		}
		instrs(f, func(in ssa.Instruction) {
			switch x := in.(type) {
			case *ssa.IndexAddr:
				check(in, x.Index, "element access")
			case *ssa.Index:
				check(in, x.Index, "element access")
			case *ssa.Slice:
				check(in, x.Low, "slice start")
			}
		})
	}
	c.Sites += n
	c.minInstances("accesses at (length - k)", n, 2)
}
