package main

// R-MEMBER-NEG: the membership predicates of ds/set (methods of *Set whose first result is a bool)
// answer "no" only after a lookup failed.
//
// A membership query is a conjunction of map lookups; it can be false only because one of them
// missed (or the looked-up map is empty). A negative answer decided from anything else - a count,
// a cached flag, the relative sizes of argument list and set - is wrong for some argument (repeated
// items, an item added since) while every lookup the function performs would have succeeded.

import (
	"fmt"
	"go/token"
	"go/types"

	"golang.org/x/tools/go/ssa"
)

func ruleMemberNeg(c *Ctx) {
	sp := c.P.DS["set"]
	if sp == nil {
		c.undecided("ds/set", "package present", "", "package ds/set not found")
		return
	}
	setT := c.P.Named("set", "Set")
	n := 0
	for _, f := range c.P.Methods(setT) {
		if len(f.Blocks) == 0 || f.Signature.Results().Len() == 0 {
			continue
		}
		if b, ok := f.Signature.Results().At(0).Type().Underlying().(*types.Basic); !ok || b.Kind() != types.Bool {
			continue
		}
		// edges on which some lookup is known to have missed
		isOk := func(x ssa.Value) bool {
			e, ok := x.(*ssa.Extract)
			if !ok || e.Index != 1 {
				return false
			}
			_, ok = e.Tuple.(*ssa.Lookup)
			return ok
		}
		miss := boolEdges(f, false, isOk)
		// the negative answer of another predicate of the same type (SHasKey inside SMove)
		miss = append(miss, boolEdges(f, false, func(x ssa.Value) bool {
			call, ok := x.(*ssa.Call)
			if !ok {
				return false
			}
			cal := call.Call.StaticCallee()
			return cal != nil && cal.Signature.Recv() != nil && namedOf(cal.Signature.Recv().Type()) == setT
		})...)
		// len(map) == 0
		for _, i := range ifsOf(f) {
			ca := decomposeIf(i)
			if ca.Op != token.EQL && ca.Op != token.NEQ {
				continue
			}
			x, y := ca.X, ca.Y
			if k, ok := constInt(x); ok && k == 0 {
				x, y = y, x
			}
			k, ok := constInt(y)
			call, ok2 := x.(*ssa.Call)
			if !ok || k != 0 || !ok2 {
				continue
			}
			if bi, ok := call.Call.Value.(*ssa.Builtin); !ok || bi.Name() != "len" {
				continue
			}
			if _, ok := call.Call.Args[0].Type().Underlying().(*types.Map); !ok {
				continue
			}
			eq := ca.Op == token.EQL
			if ca.Neg {
				eq = !eq
			}
			si := 0
			if !eq {
				si = 1
			}
			miss = append(miss, succEdge{i.Block(), si})
		}
		k := 0
		for _, r := range returnsOf(f) {
			var blocks []*ssa.BasicBlock
			if ph, ok := r.Results[0].(*ssa.Phi); ok {
				for i, e := range ph.Edges {
					if bv, ok := constBool(e); ok && !bv {
						blocks = append(blocks, ph.Block().Preds[i])
					}
				}
			} else {
				for _, v := range resolve(r.Results[0]) {
					if bv, ok := constBool(v); ok && !bv {
						blocks = append(blocks, r.Block())
						break
					}
				}
			}
			for _, b := range blocks {
				n++
				k++
				c.touch(f)
				c.check(len(miss) > 0 && edgesDominateFeasible(f, miss, b), fnName(f), fmt.Sprintf("negative answer #%d follows a failed lookup", k), c.P.ipos(r), "",
					"this 'false' is returned on a path on which every map lookup the predicate performed succeeded (or none was performed): the answer is decided from something other than membership, so it is wrong for some argument - e.g. repeated items against a smaller set, all of which are members")
			}
		}
	}
	c.Sites += n
	c.minInstances("negative answers of set membership predicates", n, 4)
	c.ok("ds/set", "membership predicates examined", "", fmt.Sprintf("%d negative answers", n))
}
