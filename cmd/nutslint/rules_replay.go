package main

import (
	"fmt"
	"go/token"
	"go/types"
	"sort"
	"strings"

	"golang.org/x/tools/go/ssa"
)

// ---------------------------------------------------------------------------
// Engine E: sibling agreement between the commit-time and the open-time
// appliers (R-REPLAY, R-ERRPOLICY, R-OPCODEC) and Merge's classification of op
// codes (R-MERGE-CLASSIFY).

type recipeCtx struct {
	p      *Prog
	cone   map[*ssa.Function]bool
	depth  int
	opaque bool
	bind   map[*ssa.Parameter]string // parameters of helpers being inlined -> recipe of the argument
	inl    int
}

// inlinable: a small module helper (not an index mutator, no receiver of index type) with exactly one
// return; its results are rendered in terms of the caller's arguments, so that moving a parse into a
// helper on one side is not a difference between the appliers.
func (rc *recipeCtx) inlinable(call *ssa.Call) (*ssa.Function, *ssa.Return) {
	cal := call.Call.StaticCallee()
	if cal == nil || cal.Blocks == nil || !rc.p.inModule(cal) || isIndexMutator(cal) || rc.inl > 3 {
		return nil, nil
	}
	if len(cal.Blocks) > 12 {
		return nil, nil
	}
	if r := cal.Signature.Recv(); r != nil && !namedIs(derefT(r.Type()), "DB") && !namedIs(derefT(r.Type()), "Tx") {
		return nil, nil
	}
	rets := returnsOf(cal)
	if len(rets) != 1 {
		return nil, nil
	}
	return cal, rets[0]
}

func (rc *recipeCtx) inlineResult(call *ssa.Call, cal *ssa.Function, ret *ssa.Return, idx int, d int) string {
	old := rc.bind
	nb := map[*ssa.Parameter]string{}
	for k, v := range old {
		nb[k] = v
	}
	for i, p := range cal.Params {
		if i < len(call.Call.Args) {
			switch {
			case namedIs(derefT(p.Type()), "DB"):
				nb[p] = "DB"
			case namedIs(derefT(p.Type()), "Tx"):
				nb[p] = "TX"
			default:
				nb[p] = rc.recipe(call.Call.Args[i], d+1)
			}
		}
	}
	rc.bind = nb
	rc.inl++
	r := rc.recipe(ret.Results[idx], d+1)
	rc.inl--
	rc.bind = old
	return r
}

func isRecordLike(t types.Type) bool {
	for _, n := range []string{"Entry", "Record", "Hint", "MetaData"} {
		if namedIs(t, n) {
			return true
		}
	}
	return false
}

var leafNames = map[string]string{"Key": "KEY", "key": "KEY", "Value": "VALUE", "Flag": "FLAG", "ds": "DS", "bucket": "BUCKET",
	"TTL": "TTL", "timestamp": "TIMESTAMP", "txID": "TXID", "status": "STATUS", "E": "ENTRY", "H": "HINT", "Meta": "META", "meta": "META"}

// recipe renders a value as a canonical expression over record leaves.
func (rc *recipeCtx) recipe(v ssa.Value, d int) string {
	if d > 12 {
		rc.opaque = true
		return "?deep"
	}
	v = resolve1(v)
	switch x := v.(type) {
	case *ssa.Const:
		if x.Value == nil {
			return "nil"
		}
		return x.Value.ExactString()
	case *zeroValue:
		return "zero"
	case *ssa.Convert:
		return rc.recipe(x.X, d+1)
	case *ssa.ChangeType:
		return rc.recipe(x.X, d+1)
	case *ssa.MakeInterface:
		return rc.recipe(x.X, d+1)
	case *ssa.UnOp:
		if x.Op == token.MUL {
			switch a := x.X.(type) {
			case *ssa.FieldAddr:
				fv := fieldVarOf(a)
				if isRecordLike(a.X.Type()) {
					if ln, ok := leafNames[fv.Name()]; ok {
						switch ln {
						case "ENTRY", "HINT", "META":
							return rc.recipe(a.X, d+1) // transparent wrappers of "the record"
						}
						return ln
					}
				}
				if namedIs(a.X.Type(), "DB") {
					return "DB." + fv.Name()
				}
				return rc.recipe(a.X, d+1) + "." + fv.Name()
			case *ssa.IndexAddr:
				return "Index(" + rc.recipe(a.X, d+1) + "," + rc.recipe(a.Index, d+1) + ")"
			case *ssa.Global:
				return "global:" + a.Name()
			}
			return "*" + rc.recipe(x.X, d+1)
		}
		return x.Op.String() + rc.recipe(x.X, d+1)
	case *ssa.FieldAddr:
		if isRecordLike(x.X.Type()) {
			return rc.recipe(x.X, d+1)
		}
		return "&" + rc.recipe(x.X, d+1) + "." + fieldVarOf(x).Name()
	case *ssa.Lookup:
		return "Lookup(" + rc.recipe(x.X, d+1) + "," + rc.recipe(x.Index, d+1) + ")"
	case *ssa.Extract:
		if lk, ok := x.Tuple.(*ssa.Lookup); ok && x.Index == 0 {
			return "Lookup(" + rc.recipe(lk.X, d+1) + "," + rc.recipe(lk.Index, d+1) + ")"
		}
		if call, ok := x.Tuple.(*ssa.Call); ok {
			if cal, ret := rc.inlinable(call); cal != nil && x.Index < len(ret.Results) {
				return rc.inlineResult(call, cal, ret, x.Index, d)
			}
		}
		return fmt.Sprintf("%s#%d", rc.recipe(x.Tuple, d+1), x.Index)
	case *ssa.Call:
		if cal, ret := rc.inlinable(x); cal != nil && len(ret.Results) == 1 {
			return rc.inlineResult(x, cal, ret, 0, d)
		}
		var as []string
		for _, a := range x.Call.Args {
			as = append(as, rc.recipe(a, d+1))
		}
		return "Call(" + calleeName(&x.Call) + ";" + strings.Join(as, ",") + ")"
	case *ssa.Slice:
		// variadic argument pack: slice of a fresh array with stored elements
		if arr, ok := x.X.(*ssa.Alloc); ok {
			elems := map[int64]string{}
			for _, r := range *arr.Referrers() {
				if ia, ok := r.(*ssa.IndexAddr); ok {
					k, _ := constInt(ia.Index)
					for _, rr := range *ia.Referrers() {
						if st, ok := rr.(*ssa.Store); ok && st.Addr == ssa.Value(ia) {
							elems[k] = rc.recipe(st.Val, d+1)
						}
					}
				}
			}
			var ks []int64
			for k := range elems {
				ks = append(ks, k)
			}
			sort.Slice(ks, func(i, j int) bool { return ks[i] < ks[j] })
			var es []string
			for _, k := range ks {
				es = append(es, elems[k])
			}
			return "Var(" + strings.Join(es, ",") + ")"
		}
		s := "Slice(" + rc.recipe(x.X, d+1)
		for _, b := range []ssa.Value{x.Low, x.High} {
			if b != nil {
				s += "," + rc.recipe(b, d+1)
			} else {
				s += ",_"
			}
		}
		return s + ")"
	case *ssa.BinOp:
		return "(" + rc.recipe(x.X, d+1) + x.Op.String() + rc.recipe(x.Y, d+1) + ")"
	case *ssa.Parameter:
		if r, ok := rc.bind[x]; ok {
			return r
		}
		if isRecordLike(x.Type()) {
			return "REC"
		}
		// substitute by what the callers in the cone pass
		fn := x.Parent()
		idx := paramIndex(fn, x)
		var got string
		n := 0
		for _, s := range rc.p.CallersOf(fn) {
			if rc.cone != nil && !rc.cone[s.Parent()] {
				continue
			}
			if s.Common().IsInvoke() || idx >= len(s.Common().Args) {
				continue
			}
			r := rc.recipe(s.Common().Args[idx], d+3)
			if n > 0 && r != got {
				rc.opaque = true
				return "?param:" + x.Name()
			}
			got = r
			n++
		}
		if n > 0 {
			return got
		}
		rc.opaque = true
		return "?param:" + x.Name()
	case *ssa.Alloc:
		return "new(" + typeStr(derefT(x.Type())) + ")"
	case *ssa.Phi:
		// get-or-create: v := m[k]; if v == nil (or !ok) { v = new; m[k] = v } — afterwards v is m[k]
		if len(x.Edges) == 2 {
			for i := 0; i < 2; i++ {
				var lk *ssa.Lookup
				switch e := x.Edges[i].(type) {
				case *ssa.Lookup:
					lk = e
				case *ssa.Extract:
					if l, ok := e.Tuple.(*ssa.Lookup); ok && e.Index == 0 {
						lk = l
					}
				}
				if lk == nil {
					continue
				}
				other := x.Edges[1-i]
				refs := other.Referrers()
				if refs == nil {
					continue
				}
				want := "Lookup(" + rc.recipe(lk.X, d+1) + "," + rc.recipe(lk.Index, d+1) + ")"
				for _, r := range *refs {
					if mu, ok := r.(*ssa.MapUpdate); ok && mu.Value == other && mu.Block() == x.Block().Preds[1-i] &&
						"Lookup("+rc.recipe(mu.Map, d+1)+","+rc.recipe(mu.Key, d+1)+")" == want {
						return want
					}
				}
			}
		}
		rc.opaque = true
		return "?phi"
	}
	rc.opaque = true
	return fmt.Sprintf("?%T", v)
}

type factSet map[string]int64 // leaf -> constant it equals

// localFacts: facts (FLAG/DS == const) that dominate block b in fn.
func localFacts(rc *recipeCtx, fn *ssa.Function, b *ssa.BasicBlock) factSet {
	out := factSet{}
	for _, i := range ifsOf(fn) {
		ca := decomposeIf(i)
		if ca.Op != token.EQL && ca.Op != token.NEQ {
			continue
		}
		var leaf string
		var k int64
		if kv, ok := constInt(ca.Y); ok {
			leaf, k = rc.recipe(ca.X, 0), kv
		} else if kv, ok := constInt(ca.X); ok {
			leaf, k = rc.recipe(ca.Y, 0), kv
		} else {
			continue
		}
		if leaf != "FLAG" && leaf != "DS" {
			continue
		}
		eq := ca.Op == token.EQL
		if ca.Neg {
			eq = !eq
		}
		si := 0
		if !eq {
			si = 1
		}
		if edgesDominate(fn, []succEdge{{i.Block(), si}}, b) {
			out[leaf] = k
		}
	}
	return out
}

// contextFacts: localFacts plus the facts that hold at every call site of fn in the cone.
func contextFacts(rc *recipeCtx, fn *ssa.Function, b *ssa.BasicBlock, depth int) factSet {
	out := localFacts(rc, fn, b)
	if depth > 3 {
		return out
	}
	var inh factSet
	n := 0
	for _, s := range rc.p.CallersOf(fn) {
		if rc.cone != nil && !rc.cone[s.Parent()] {
			continue
		}
		cf := contextFacts(rc, s.Parent(), s.Block(), depth+1)
		if n == 0 {
			inh = cf
		} else {
			for k, v := range inh {
				if cf[k] != v {
					delete(inh, k)
				}
				if _, ok := cf[k]; !ok {
					delete(inh, k)
				}
			}
		}
		n++
	}
	for k, v := range inh {
		if _, ok := out[k]; !ok {
			out[k] = v
		}
	}
	return out
}

type applierOp struct {
	ds, flag int64
	hasDS    bool
	hasFlag  bool
	callee   *ssa.Function
	call     *ssa.Call
	fn       *ssa.Function
	recv     string
	args     []string
	opaque   bool
	errUsed  bool
}

func (o *applierOp) key() string { return fmt.Sprintf("(ds=%d,flag=%d)", o.ds, o.flag) }

// collectAppliers lists the ds-mutator call sites in the cone of root.
func collectAppliers(c *Ctx, root *ssa.Function) []*applierOp {
	cone := map[*ssa.Function]bool{}
	for _, f := range c.P.ModCone(root) {
		cone[f] = true
	}
	var out []*applierOp
	for _, f := range c.P.ModCone(root) {
		if f.Pkg != c.P.Main {
			continue
		}
		calls(f, func(ci ssa.CallInstruction) {
			call, ok := ci.(*ssa.Call)
			if !ok {
				return
			}
			cal := call.Call.StaticCallee()
			if cal == nil || !isIndexMutator(cal) || cal.Pkg == c.P.Main {
				return
			}
			if cal.Name() == "GetByRankRange" {
				if b, ok := constBool(call.Call.Args[len(call.Call.Args)-1]); ok && !b {
					return
				}
			}
			rc := &recipeCtx{p: c.P, cone: cone}
			facts := contextFacts(rc, f, call.Block(), 0)
			op := &applierOp{callee: cal, call: call, fn: f}
			op.ds, op.hasDS = facts["DS"]
			op.flag, op.hasFlag = facts["FLAG"]
			rc.opaque = false // only what the receiver and argument recipes could not render counts
			op.recv = rc.recipe(call.Call.Args[0], 0)
			for _, a := range call.Call.Args[1:] {
				op.args = append(op.args, rc.recipe(a, 0))
			}
			op.opaque = rc.opaque
			// is the error result used?
			ei := -1
			res := cal.Signature.Results()
			for i := 0; i < res.Len(); i++ {
				if isErrorType(res.At(i).Type()) {
					ei = i
				}
			}
			if ei >= 0 {
				if res.Len() == 1 {
					op.errUsed = hasRealReferrers(call)
				} else {
					for _, r := range *call.Referrers() {
						if ex, ok := r.(*ssa.Extract); ok && ex.Index == ei && hasRealReferrers(ex) {
							op.errUsed = true
						}
					}
				}
			}
			out = append(out, op)
			c.touch(f)
		})
	}
	return out
}

func hasRealReferrers(v ssa.Value) bool {
	if v.Referrers() == nil {
		return false
	}
	for _, r := range *v.Referrers() {
		if _, ok := r.(*ssa.DebugRef); ok {
			continue
		}
		return true
	}
	return false
}

// canReturnError: some return of fn has a possibly non-nil error.
func canReturnError(fn *ssa.Function) bool {
	idx := errResultIndex(fn)
	if idx < 0 || fn.Blocks == nil {
		return false
	}
	for _, r := range returnsOf(fn) {
		if classifyRetOperand(r, idx) != retNil {
			return true
		}
	}
	return false
}

type emitted struct {
	ds, flag int64
	site     ssa.CallInstruction
	api      *ssa.Function
}

// emittedCodes: constant (ds, Flag) pairs at the call sites of the pending-write gate,
// propagated through wrapper parameters.
func emittedCodes(c *Ctx) ([]emitted, int) {
	gate, st, ap := findPutGate(c)
	_ = st
	// which gate parameters feed MetaData.Flag and MetaData.ds
	var elem ssa.Value
	if sl, ok := ap.Call.Args[1].(*ssa.Slice); ok {
		if arr, ok := sl.X.(*ssa.Alloc); ok {
			for _, r := range *arr.Referrers() {
				if ia, ok := r.(*ssa.IndexAddr); ok {
					for _, rr := range *ia.Referrers() {
						if s2, ok := rr.(*ssa.Store); ok && s2.Addr == ssa.Value(ia) {
							elem = s2.Val
						}
					}
				}
			}
		}
	}
	ea, _ := elem.(*ssa.Alloc)
	if ea == nil {
		fail("cannot identify the record literal of the gate")
	}
	ma, _ := allocFieldStores(ea)["Meta"].(*ssa.Alloc)
	if ma == nil {
		fail("cannot identify the MetaData literal of the gate")
	}
	mf := allocFieldStores(ma)
	fp, ok1 := resolve1(mf["Flag"]).(*ssa.Parameter)
	dp, ok2 := resolve1(mf["ds"]).(*ssa.Parameter)
	if !ok1 || !ok2 {
		fail("gate does not take Flag and ds from parameters")
	}
	var out []emitted
	nonConst := 0
	var walk func(fn *ssa.Function, fi, di int, fixedF, fixedD *int64, depth int)
	walk = func(fn *ssa.Function, fi, di int, fixedF, fixedD *int64, depth int) {
		if depth > 4 {
			return
		}
		for _, s := range c.P.CallersOf(fn) {
			args := s.Common().Args
			ff, dd := fixedF, fixedD
			nfi, ndi := -1, -1
			if ff == nil {
				if k, ok := constInt(args[fi]); ok {
					ff = &k
				} else if p, ok := resolve1(args[fi]).(*ssa.Parameter); ok && p.Parent() == s.Parent() {
					nfi = paramIndex(s.Parent(), p)
				}
			}
			if dd == nil {
				if k, ok := constInt(args[di]); ok {
					dd = &k
				} else if p, ok := resolve1(args[di]).(*ssa.Parameter); ok && p.Parent() == s.Parent() {
					ndi = paramIndex(s.Parent(), p)
				}
			}
			switch {
			case ff != nil && dd != nil:
				out = append(out, emitted{*dd, *ff, s, s.Parent()})
			case (ff != nil || nfi >= 0) && (dd != nil || ndi >= 0):
				walk(s.Parent(), nfi, ndi, ff, dd, depth+1)
			default:
				nonConst++ // re-emission of stored codes (merge rewrite)
			}
		}
	}
	walk(gate, paramIndex(gate, fp), paramIndex(gate, dp), nil, nil, 0)
	return out, nonConst
}

func dedupCodes(es []emitted) [][2]int64 {
	seen := map[[2]int64]bool{}
	var out [][2]int64
	for _, e := range es {
		k := [2]int64{e.ds, e.flag}
		if !seen[k] {
			seen[k] = true
			out = append(out, k)
		}
	}
	sort.Slice(out, func(i, j int) bool {
		if out[i][0] != out[j][0] {
			return out[i][0] < out[j][0]
		}
		return out[i][1] < out[j][1]
	})
	return out
}

func codeName(c *Ctx, ds, flag int64) string {
	dn, fnm := fmt.Sprint(ds), fmt.Sprint(flag)
	for _, n := range c.P.Main.Pkg.Scope().Names() {
		if cst, ok := c.P.Main.Pkg.Scope().Lookup(n).(*types.Const); ok {
			if v, ok := constIntVal(cst); ok {
				if strings.HasPrefix(n, "DataStructure") && v == ds {
					dn = strings.TrimPrefix(n, "DataStructure")
				}
				if strings.HasPrefix(n, "Data") && strings.HasSuffix(n, "Flag") && !strings.HasPrefix(n, "DataStructure") && v == flag {
					fnm = strings.TrimSuffix(strings.TrimPrefix(n, "Data"), "Flag")
				}
			}
		}
	}
	return dn + "/" + fnm
}

type replayFacts struct {
	commit, open map[string][]*applierOp
	codes        [][2]int64
	nonConst     int
	bptDS        int64
}

func gatherReplay(c *Ctx) *replayFacts {
	rf := &replayFacts{commit: map[string][]*applierOp{}, open: map[string][]*applierOp{}}
	for _, op := range collectAppliers(c, c.P.MustFunc("(*Tx).Commit")) {
		rf.commit[op.key()] = append(rf.commit[op.key()], op)
	}
	for _, op := range collectAppliers(c, c.P.MustFunc("Open")) {
		rf.open[op.key()] = append(rf.open[op.key()], op)
	}
	es, nc := emittedCodes(c)
	rf.codes = dedupCodes(es)
	rf.nonConst = nc
	rf.bptDS, _ = constIntVal(c.P.Const("DataStructureBPTree"))
	return rf
}

func opSig(ops []*applierOp) string {
	var ss []string
	for _, o := range ops {
		ss = append(ss, fnName(o.callee)+" recv="+o.recv+" args=["+strings.Join(o.args, "; ")+"]")
	}
	sort.Strings(ss)
	return strings.Join(ss, " && ")
}

func ruleReplay(c *Ctx)     { replayRule(c, nil) }
func ruleReplayList(c *Ctx) { replayRule(c, []string{"DataStructureList"}) }
func ruleReplaySet(c *Ctx)  { replayRule(c, []string{"DataStructureSet"}) }
func ruleReplayZSet(c *Ctx) { replayRule(c, []string{"DataStructureSortedSet"}) }

func replayRule(c *Ctx, onlyDS []string) {
	rf := gatherReplay(c)
	want := map[int64]bool{}
	for _, n := range onlyDS {
		v, _ := constIntVal(c.P.Const(n))
		want[v] = true
	}
	n := 0
	if onlyDS == nil {
		c.minInstances("emitted (ds,Flag) codes", len(rf.codes), 16)
		c.check(rf.nonConst == 1, "pending-write gate", "one re-emitting call site (merge rewrite)", "", "", fmt.Sprintf("%d call sites pass non-constant (ds,Flag) codes to the gate; only the merge rewrite may re-emit stored codes", rf.nonConst))
	}
	for _, code := range rf.codes {
		ds, flag := code[0], code[1]
		if len(want) > 0 && !want[ds] {
			continue
		}
		if ds == rf.bptDS {
			continue // key/value records are indexed by R-POS / R-REPLAY-KV
		}
		n++
		k := fmt.Sprintf("(ds=%d,flag=%d)", ds, flag)
		name := "op " + codeName(c, ds, flag)
		co, op := rf.commit[k], rf.open[k]
		c.Sites++
		switch {
		case len(co) == 0 && len(op) == 0:
			c.bad(name, "emitted code has a commit-time and an open-time handler", "", "the API emits this code but neither Tx.Commit nor Open applies it")
			continue
		case len(co) == 0:
			c.bad(name, "emitted code has a commit-time handler", c.P.ipos(op[0].call), "the API emits this code, Open replays it, but Tx.Commit does not apply it: the in-memory state differs before and after a reopen")
			continue
		case len(op) == 0:
			c.bad(name, "emitted code has an open-time handler", c.P.ipos(co[0].call), "the API emits this code and Tx.Commit applies it, but Open does not replay it: the operation is lost on reopen")
			continue
		}
		opq := false
		for _, o := range append(append([]*applierOp{}, co...), op...) {
			if o.opaque {
				opq = true
			}
		}
		a, b := opSig(co), opSig(op)
		if a == b {
			c.ok(name, "commit-time and open-time appliers agree", c.P.ipos(co[0].call), a)
		} else if opq {
			c.undecided(name, "commit-time and open-time appliers agree", c.P.ipos(co[0].call), "recipes contain values the canonicaliser cannot render: commit "+a+" / open "+b)
		} else {
			c.bad(name, "commit-time and open-time appliers agree", c.P.ipos(op[0].call), "the operation is applied differently at commit time and on reopen", "commit: "+a, "open:   "+b)
		}
	}
	// handlers for codes the API never emits are harmless but must also agree
	for k, co := range rf.commit {
		if op, ok := rf.open[k]; ok {
			_ = op
			_ = co
		}
	}
	// every applier call is keyed by both ds and Flag
	for _, side := range []map[string][]*applierOp{rf.commit, rf.open} {
		for _, ops := range side {
			for _, o := range ops {
				if len(want) > 0 && !(o.hasDS && want[o.ds]) {
					continue
				}
				if !o.hasDS || !o.hasFlag {
					c.bad(fnName(o.fn), "applier call "+fnName(o.callee)+" is selected by (ds, Flag)", c.P.ipos(o.call), "an index mutation during apply/replay is not guarded by both the record's data-structure code and its Flag")
				}
			}
		}
	}
	min := 14
	if len(want) > 0 {
		min = 2
	}
	c.minInstances("non-KV op codes", n, min)
}

// ruleReplayKV: key recipe of the B+ tree insert agrees between commit and open.
func ruleReplayKV(c *Ctx) {
	type ins struct {
		call   *ssa.Call
		fn     *ssa.Function
		key    string
		sparse bool
	}
	collect := func(root *ssa.Function) []ins {
		cone := map[*ssa.Function]bool{}
		for _, f := range c.P.ModCone(root) {
			cone[f] = true
		}
		var out []ins
		for _, f := range c.P.ModCone(root) {
			calls(f, func(ci ssa.CallInstruction) {
				call, ok := ci.(*ssa.Call)
				if !ok || !calleeIs(&call.Call, modPath, "BPTree", "Insert") {
					return
				}
				recv := call.Call.Args[0]
				var sparse bool
				switch {
				case isFieldLoad(recv, "DB", "ActiveBPTreeIdx"):
					sparse = true
				case bucketMapOf(func() ssa.Value {
					if lk, ok := resolve1(recv).(*ssa.Lookup); ok {
						return lk.X
					}
					return recv
				}()) == "BPTreeIdx":
					sparse = false
				default:
					// the tree may come from a get-or-create helper: decide by the recipe of the receiver
					rr := (&recipeCtx{p: c.P, cone: cone}).recipe(recv, 0)
					switch {
					case strings.HasPrefix(rr, "Lookup(DB.BPTreeIdx,"):
						sparse = false
					case rr == "DB.ActiveBPTreeIdx":
						sparse = true
					default:
						return // tx-id indexes and friends
					}
				}
				rc := &recipeCtx{p: c.P, cone: cone}
				out = append(out, ins{call, f, rc.recipe(call.Call.Args[1], 0), sparse})
				c.touch(f)
			})
		}
		return out
	}
	co := collect(c.P.MustFunc("(*Tx).Commit"))
	op := collect(c.P.MustFunc("Open"))
	for _, sparse := range []bool{false, true} {
		mode := "RAM modes"
		if sparse {
			mode = "sparse mode"
		}
		var a, b []string
		var pos string
		for _, i := range co {
			if i.sparse == sparse {
				a = append(a, i.key)
				pos = c.P.ipos(i.call)
			}
		}
		for _, i := range op {
			if i.sparse == sparse {
				b = append(b, i.key)
			}
		}
		sort.Strings(a)
		sort.Strings(b)
		if len(a) == 0 || len(b) == 0 {
			c.undecided("B+ tree index key ("+mode+")", "insert sites", "", fmt.Sprintf("commit sites %d, open sites %d", len(a), len(b)))
			continue
		}
		c.check(strings.Join(a, "|") == strings.Join(b, "|"), "B+ tree index key ("+mode+")", "commit-time and open-time index keys agree", pos,
			strings.Join(a, "|"), "the key a record is indexed under differs between commit ("+strings.Join(a, "|")+") and reopen ("+strings.Join(b, "|")+")")
	}
}

// ruleErrPolicy: what commit ignores, replay must not turn into a failure of Open.
func ruleErrPolicy(c *Ctx) {
	rf := gatherReplay(c)
	n := 0
	var keys []string
	for k := range rf.commit {
		keys = append(keys, k)
	}
	sort.Strings(keys)
	for _, k := range keys {
		co, op := rf.commit[k], rf.open[k]
		if len(op) == 0 {
			continue
		}
		for _, o := range co {
			if !canReturnError(o.callee) {
				continue
			}
			for _, p := range op {
				if p.callee != o.callee {
					continue
				}
				n++
				c.Sites++
				name := "op " + codeName(c, o.ds, o.flag)
				if !o.errUsed && p.errUsed {
					c.bad(name, "replay tolerates what commit ignored ("+fnName(o.callee)+")", c.P.ipos(p.call),
						"at commit time the error of "+fnName(o.callee)+" is discarded (the operation is a no-op and the transaction succeeds), but the open-time applier returns it: a directory produced by successful calls makes Open fail")
				} else {
					c.ok(name, "replay tolerates what commit ignored ("+fnName(o.callee)+")", c.P.ipos(p.call), "")
				}
			}
		}
	}
	c.minInstances("fallible replayed operations", n, 6)
	// the open-time appliers add no other failure that depends on the record contents: covered by R-REPLAY recipes
}

// ruleOpCodec: raw payloads must not be cut out of the stored bytes with an unbounded split.
func ruleOpCodec(c *Ctx) {
	rf := gatherReplay(c)
	n := 0
	for _, side := range []struct {
		name string
		m    map[string][]*applierOp
	}{{"commit", rf.commit}, {"open", rf.open}} {
		var keys []string
		for k := range side.m {
			keys = append(keys, k)
		}
		sort.Strings(keys)
		for _, k := range keys {
			for _, o := range side.m[k] {
				params := o.callee.Signature.Params()
				for i, a := range o.args {
					if i >= params.Len() {
						continue
					}
					pt := params.At(i).Type()
					isBytes := false
					if sl, ok := pt.Underlying().(*types.Slice); ok {
						if b, ok := sl.Elem().Underlying().(*types.Basic); ok && b.Kind() == types.Byte {
							isBytes = true
						}
						if s2, ok := sl.Elem().Underlying().(*types.Slice); ok {
							if b, ok := s2.Elem().Underlying().(*types.Basic); ok && b.Kind() == types.Byte {
								isBytes = true
							}
						}
					}
					if !isBytes {
						continue
					}
					n++
					c.Sites++
					bad := strings.Contains(a, "Call(strings.Split;")
					c.check(!bad, "op "+codeName(c, o.ds, o.flag), side.name+"-time payload of "+fnName(o.callee)+" is not cut with an unbounded split", c.P.ipos(o.call),
						a, "a user-supplied value is recovered as an element of strings.Split over the stored bytes: a value containing the separator is truncated ("+a+")")
				}
			}
		}
	}
	c.minInstances("byte payload arguments of appliers", n, 8)
	// keys that are later split must have been rejected by the API if they contain the separator
	es, _ := emittedCodes(c)
	k := 0
	for _, e := range es {
		nm := codeName(c, e.ds, e.flag)
		if !(strings.HasSuffix(nm, "/LPush") || strings.HasSuffix(nm, "/RPush") || strings.HasSuffix(nm, "/ZAdd")) {
			continue
		}
		f := e.api
		k++
		c.touch(f)
		// separator rejection: the emitting call is on the false edge of strings.Contains(string(key), SEP)
		edges := boolEdges(f, false, func(x ssa.Value) bool {
			call, ok := resolve1(x).(*ssa.Call)
			if !ok || call.Call.StaticCallee() == nil || call.Call.StaticCallee().String() != "strings.Contains" {
				return false
			}
			sep, ok := constString(call.Call.Args[1])
			if !ok || sep != "|" {
				return false
			}
			root, _ := splitPath(call.Call.Args[0])
			_, isParam := root.(*ssa.Parameter)
			return isParam
		})
		sepEdges := func(g *ssa.Function) []succEdge {
			return boolEdges(g, false, func(x ssa.Value) bool {
				call, ok := resolve1(x).(*ssa.Call)
				if !ok || call.Call.StaticCallee() == nil || call.Call.StaticCallee().String() != "strings.Contains" {
					return false
				}
				sep, ok := constString(call.Call.Args[1])
				if !ok || sep != "|" {
					return false
				}
				root, _ := splitPath(call.Call.Args[0])
				_, isParam := root.(*ssa.Parameter)
				return isParam
			})
		}
		// the rejection may sit in a helper between the API and the put gate: then every call of
		// that helper which leads on to the gate has to be behind the helper's own rejection
		gate, _, _ := findPutGate(c)
		var guardedDown func(g *ssa.Function, site ssa.CallInstruction, depth int) bool
		guardedDown = func(g *ssa.Function, site ssa.CallInstruction, depth int) bool {
			if edgesDominate(g, sepEdges(g), site.Block()) {
				return true
			}
			h := site.Common().StaticCallee()
			if depth > 3 || h == nil || h == gate || !c.P.inModule(h) || len(h.Blocks) == 0 {
				return false
			}
			found, all := false, true
			calls(h, func(ci ssa.CallInstruction) {
				cal := ci.Common().StaticCallee()
				if cal == nil || !c.P.inModule(cal) {
					return
				}
				if cal != gate && !c.P.Cone(nil, cal)[gate] {
					return
				}
				found = true
				if !guardedDown(h, ci, depth+1) {
					all = false
				}
			})
			return found && all
		}
		c.check(edgesDominate(f, edges, e.site.Block()) || guardedDown(f, e.site, 0), fnName(f), "keys containing the separator are rejected before a "+nm+" record is logged", c.P.ipos(e.site), "",
			"the API logs a record whose key is later split at the separator without rejecting keys that contain it")
	}
	c.minInstances("key-creating APIs with separator check", k, 3)
}

// ---------------------------------------------------------------------------
// R-MERGE-CLASSIFY

func ruleMergeClassify(c *Ctx) {
	merge := c.P.MustFunc("(*DB).Merge")
	rf := gatherReplay(c)
	commitCone := map[*ssa.Function]bool{}
	for _, f := range c.P.ModCone(c.P.MustFunc("(*Tx).Commit"), c.P.MustFunc("(*DB).Begin")) {
		commitCone[f] = true
	}
	// filter functions: bool-returning callees of Merge taking an *Entry
	var filters, keepers, keepPreds []*ssa.Function
	for _, f := range c.P.ModCone(merge) {
		if commitCone[f] || f == merge {
			continue
		}
		hasEntry := false
		for _, p := range f.Params {
			if isEntryPtr(p.Type()) || namedIs(derefT(p.Type()), "MetaData") {
				hasEntry = true
			}
		}
		if !hasEntry {
			continue
		}
		res := f.Signature.Results()
		if res.Len() == 1 {
			if b, ok := res.At(0).Type().Underlying().(*types.Basic); ok && b.Kind() == types.Bool {
				// a predicate whose TRUE result makes Merge append the scanned entry is a keeper written as a
				// predicate ("is this entry still live?"), not a filter
				isKeepPred := false
				trueEdges := boolEdges(merge, true, func(x ssa.Value) bool {
					call, ok := resolve1(x).(*ssa.Call)
					return ok && call.Call.StaticCallee() == f
				})
				if len(trueEdges) > 0 {
					instrs(merge, func(in ssa.Instruction) {
						call, ok := in.(*ssa.Call)
						if !ok {
							return
						}
						if bi, ok := call.Call.Value.(*ssa.Builtin); ok && bi.Name() == "append" && isEntrySliceType(call.Type()) && edgesDominate(merge, trueEdges, in.Block()) {
							isKeepPred = true
						}
					})
				}
				if isKeepPred {
					keepPreds = append(keepPreds, f)
					continue
				}
				filters = append(filters, f)
				continue
			}
			if isEntrySliceType(res.At(0).Type()) {
				keepers = append(keepers, f)
			}
		}
	}
	if len(filters) == 0 || len(keepers)+len(keepPreds) == 0 {
		c.undecided(fnName(merge), "classification functions", "", fmt.Sprintf("found %d filter and %d keeper functions in the cone of Merge", len(filters), len(keepers)+len(keepPreds)))
		return
	}
	rc := &recipeCtx{p: c.P}
	valuation := func(ds, flag int64) func(b *ssa.BasicBlock, si int) bool {
		return func(b *ssa.BasicBlock, si int) bool {
			if len(b.Instrs) == 0 {
				return false
			}
			i, ok := b.Instrs[len(b.Instrs)-1].(*ssa.If)
			if !ok {
				return false
			}
			ca := decomposeIf(i)
			if ca.Op != token.EQL && ca.Op != token.NEQ {
				return false
			}
			var leaf string
			var k int64
			if kv, ok := constInt(ca.Y); ok {
				leaf, k = rc.recipe(ca.X, 0), kv
			} else if kv, ok := constInt(ca.X); ok {
				leaf, k = rc.recipe(ca.Y, 0), kv
			} else {
				return false
			}
			var cur int64
			switch leaf {
			case "FLAG":
				cur = flag
			case "DS":
				cur = ds
			default:
				return false
			}
			val := cur == k
			if ca.Op == token.NEQ {
				val = !val
			}
			if ca.Neg {
				val = !val
			}
			if val {
				return si == 1
			}
			return si == 0
		}
	}
	for _, code := range rf.codes {
		ds, flag := code[0], code[1]
		name := "op " + codeName(c, ds, flag)
		pr := valuation(ds, flag)
		// dead: under the valuation some filter can only return true
		dead := false
		for _, f := range filters {
			c.touch(f)
			reach := reachFrom(f.Blocks[0], pr)
			allTrue, any := true, false
			for _, r := range returnsOf(f) {
				if !reach[r.Block()] {
					continue
				}
				any = true
				for _, v := range resolve(r.Results[0]) {
					if b, ok := constBool(v); !ok || !b {
						allTrue = false
					}
				}
			}
			if any && allTrue {
				dead = true
			}
		}
		kept := false
		for _, f := range keepers {
			c.touch(f)
			reach := reachFrom(f.Blocks[0], pr)
			instrs(f, func(in ssa.Instruction) {
				call, ok := in.(*ssa.Call)
				if !ok || !reach[in.Block()] {
					return
				}
				if bi, ok := call.Call.Value.(*ssa.Builtin); ok && bi.Name() == "append" && isEntrySliceType(call.Type()) {
					kept = true
				}
			})
		}
		for _, f := range keepPreds {
			c.touch(f)
			reach := reachFrom(f.Blocks[0], pr)
			for _, r := range returnsOf(f) {
				if !reach[r.Block()] {
					continue
				}
				for _, v := range resolve(r.Results[0]) {
					if b, ok := constBool(v); !ok || b {
						kept = true
					}
				}
			}
		}
		c.Sites++
		switch {
		case dead:
			c.ok(name, "classified by Merge", "", "filtered as dead (its effect is already reflected in the records that survive)")
		case kept:
			c.ok(name, "classified by Merge", "", "kept if still present in the index")
		default:
			c.bad(name, "classified by Merge", c.P.pos(merge.Pos()), "Merge neither filters records with this code as dead nor can keep them: such records vanish when their segment is merged, so the operation is undone after the next reopen")
		}
	}
	c.minInstances("emitted (ds,Flag) codes", len(rf.codes), 16)
}
