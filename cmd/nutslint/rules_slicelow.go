package main

import (
	"fmt"
	"go/token"
	"go/types"

	"golang.org/x/tools/go/ssa"
)

// ---------------------------------------------------------------------------
// R-SLICE-LOW (C20 C05): a slice expression x[lo:hi] panics when lo is negative. Where lo is computed
// from an integer argument of the function (an index supplied by the caller, possibly counted from the
// tail: size+start), the path to the slice expression has to establish lo >= 0: by a test of that very
// value, by clamping it, or because it is built only from lengths and non-negative constants.

// nonNegEdges: CFG edges on which v >= 0 is known from a comparison of v with a constant.
func nonNegEdges(f *ssa.Function, v ssa.Value) []succEdge {
	var out []succEdge
	for _, i := range ifsOf(f) {
		ca := decomposeIf(i)
		var k int64
		var op token.Token
		if kv, ok := constInt(ca.Y); ok && ca.X == v {
			k, op = kv, ca.Op
		} else if kv, ok := constInt(ca.X); ok && ca.Y == v {
			// k op v  ==  v op' k
			k = kv
			switch ca.Op {
			case token.LSS:
				op = token.GTR
			case token.LEQ:
				op = token.GEQ
			case token.GTR:
				op = token.LSS
			case token.GEQ:
				op = token.LEQ
			default:
				continue
			}
		} else {
			continue
		}
		t, fl := 0, 1
		if ca.Neg {
			t, fl = 1, 0
		}
		switch op {
		case token.LSS: // v < k : false edge v >= k
			if k >= 0 {
				out = append(out, succEdge{i.Block(), fl})
			}
		case token.LEQ: // v <= k : false edge v > k
			if k >= -1 {
				out = append(out, succEdge{i.Block(), fl})
			}
		case token.GTR: // v > k
			if k >= -1 {
				out = append(out, succEdge{i.Block(), t})
			}
		case token.GEQ:
			if k >= 0 {
				out = append(out, succEdge{i.Block(), t})
			}
		case token.EQL:
			if k >= 0 {
				out = append(out, succEdge{i.Block(), t})
			}
		}
	}
	return out
}

func nonNegAt(p *Prog, f *ssa.Function, v ssa.Value, at *ssa.BasicBlock, viaEdge *succEdge, depth int) bool {
	if depth > 8 {
		return false
	}
	if k, ok := constInt(v); ok {
		return k >= 0
	}
	edges := nonNegEdges(f, v)
	if len(edges) > 0 {
		if viaEdge != nil {
			for _, e := range edges {
				if e == *viaEdge {
					return true
				}
			}
		}
		if edgesDominate(f, edges, at) {
			return true
		}
	}
	// a guard in a helper: h(..., v, ...) returned a nil error on every path to here, and h returns nil
	// only where it has established that its parameter is >= 0
	if depth < 3 {
		found := false
		calls(f, func(ci ssa.CallInstruction) {
			call, ok := ci.(*ssa.Call)
			if !ok || found {
				return
			}
			h := call.Call.StaticCallee()
			if h == nil || !p.inModule(h) || len(h.Blocks) == 0 || errResultIndex(h) < 0 {
				return
			}
			ai := -1
			for i, a := range call.Call.Args {
				if a == v {
					ai = i
				}
			}
			if ai < 0 || ai >= len(h.Params) {
				return
			}
			isRes := func(x ssa.Value) bool {
				x = resolve1(x)
				if ex, ok := x.(*ssa.Extract); ok {
					return ex.Tuple == ssa.Value(call) && ex.Index == errResultIndex(h)
				}
				return x == ssa.Value(call)
			}
			edges := nilEdges(f, true, isRes)
			if len(edges) == 0 || !edgesDominate(f, edges, at) {
				return
			}
			okAll := true
			for _, r := range returnsOf(h) {
				if classifyRetOperand(r, errResultIndex(h)) == retNonNil {
					continue
				}
				if !nonNegAt(p, h, h.Params[ai], r.Block(), nil, depth+1) {
					okAll = false
				}
			}
			found = okAll
		})
		if found {
			return true
		}
	}
	switch x := v.(type) {
	case *ssa.Call:
		if bi, ok := x.Call.Value.(*ssa.Builtin); ok && (bi.Name() == "len" || bi.Name() == "cap" || bi.Name() == "copy") {
			return true
		}
		return lenLike(p, v, 0)
	case *ssa.Extract:
		return lenLike(p, v, 0)
	case *ssa.Convert:
		if isIntegerType(x.X.Type()) {
			if b, ok := x.X.Type().Underlying().(*types.Basic); ok && b.Info()&types.IsUnsigned != 0 {
				return false // may wrap
			}
			return nonNegAt(p, f, x.X, at, viaEdge, depth+1)
		}
	case *ssa.BinOp:
		switch x.Op {
		case token.ADD, token.MUL:
			return nonNegAt(p, f, x.X, at, nil, depth+1) && nonNegAt(p, f, x.Y, at, nil, depth+1)
		case token.QUO, token.REM:
			return nonNegAt(p, f, x.X, at, nil, depth+1) && nonNegAt(p, f, x.Y, at, nil, depth+1)
		}
	case *ssa.Phi:
		for i, e := range x.Edges {
			pred := x.Block().Preds[i]
			var via *succEdge
			for si, s := range pred.Succs {
				if s == x.Block() {
					via = &succEdge{pred, si}
				}
			}
			if !nonNegAt(p, f, e, pred, via, depth+1) {
				return false
			}
		}
		return true
	}
	return false
}

func ruleSliceLow(c *Ctx) {
	n := 0
	for _, f := range c.P.SrcFuncs {
		if !c.P.inModule(f) || len(f.Blocks) == 0 {
			continue
		}
		k := 0
		instrs(f, func(in ssa.Instruction) {
			sl, ok := in.(*ssa.Slice)
			if !ok || sl.Low == nil {
				return
			}
			if _, isConst := constInt(sl.Low); isConst {
				return
			}
			// only lows computed from an integer parameter of this function
			fromParam := false
			backSlice(sl.Low, func(v ssa.Value) {
				if prm, ok := v.(*ssa.Parameter); ok && prm.Parent() == f && isIntegerType(prm.Type()) {
					fromParam = true
				}
			})
			if !fromParam {
				return
			}
			n++
			k++
			c.touch(f)
			c.check(nonNegAt(c.P, f, sl.Low, sl.Block(), nil, 0), fnName(f), fmt.Sprintf("slice expression #%d: the start computed from an integer argument is known to be >= 0", k), c.P.ipos(in), "",
				"the start of this slice expression is computed from an integer argument (an index that may be negative, or size+index for an index counted from the tail) and no test or clamp on the path establishes that it is >= 0: an index further from the tail than the length makes it negative and the call panics with 'slice bounds out of range'")
		})
	}
	c.Sites += n
	c.minInstances("slice expressions whose start derives from an integer argument", n, 1)
}

// ---------------------------------------------------------------------------
// R-NEGATE (C20): -x of a caller-supplied integer overflows for the smallest value (math.MinInt64 stays
// negative). An exported function of the main package that negates an integer argument does so only
// where a lower bound of that argument has been established (x > k, x >= k, or the false side of
// x < k / x <= k); a range test written with the negation itself (-count > size) lets MinInt64 through.

func lowerBoundedEdges(f *ssa.Function, v ssa.Value) []succEdge {
	var out []succEdge
	for _, i := range ifsOf(f) {
		ca := decomposeIf(i)
		op := ca.Op
		switch {
		case ca.X == v:
		case ca.Y == v:
			switch op {
			case token.LSS:
				op = token.GTR
			case token.LEQ:
				op = token.GEQ
			case token.GTR:
				op = token.LSS
			case token.GEQ:
				op = token.LEQ
			}
		default:
			continue
		}
		t, fl := 0, 1
		if ca.Neg {
			t, fl = 1, 0
		}
		switch op {
		case token.LSS, token.LEQ:
			out = append(out, succEdge{i.Block(), fl})
		case token.GTR, token.GEQ, token.EQL:
			out = append(out, succEdge{i.Block(), t})
		}
	}
	return out
}

func ruleNegate(c *Ctx) {
	n := 0
	for _, f := range c.P.SrcFuncs {
		if f.Pkg != c.P.Main || f.Object() == nil || !f.Object().Exported() || len(f.Blocks) == 0 {
			continue
		}
		k := 0
		instrs(f, func(in ssa.Instruction) {
			u, ok := in.(*ssa.UnOp)
			if !ok || u.Op != token.SUB || !isIntegerType(u.Type()) {
				return
			}
			prm, ok := u.X.(*ssa.Parameter)
			if !ok || prm.Parent() != f {
				return
			}
			n++
			k++
			c.touch(f)
			edges := lowerBoundedEdges(f, prm)
			c.check(len(edges) > 0 && edgesDominate(f, edges, u.Block()), fnName(f), fmt.Sprintf("negation #%d of argument %s happens under an established lower bound", k, prm.Name()), c.P.ipos(in), "",
				fmt.Sprintf("-%s is computed from a caller-supplied integer with no lower bound on the path: for math.MinInt64 the negation overflows and stays negative, so a range test written with it accepts the value; the operation is logged and the applier that replays it at Commit indexes out of range (panic with the write lock held)", prm.Name()))
		})
	}
	// the data-structure packages negate counts too (List.LRemNum, List.LRem): where the callee establishes no lower
	// bound itself, every call from the main package that forwards the caller's own integer argument must sit under one
	m := 0
	for _, g := range c.P.SrcFuncs {
		if g.Pkg == c.P.Main || !c.P.inModule(g) || g.Object() == nil || !g.Object().Exported() || len(g.Blocks) == 0 {
			continue
		}
		for pi, prm := range g.Params {
			if !isIntegerType(prm.Type()) {
				continue
			}
			unbounded := false
			instrs(g, func(in ssa.Instruction) {
				u, ok := in.(*ssa.UnOp)
				if !ok || u.Op != token.SUB || u.X != ssa.Value(prm) {
					return
				}
				edges := lowerBoundedEdges(g, prm)
				if !(len(edges) > 0 && edgesDominate(g, edges, u.Block())) {
					unbounded = true
				}
			})
			if !unbounded {
				continue
			}
			k := 0
			for _, site := range c.P.CallersOf(g) {
				caller := site.Parent()
				if caller.Pkg != c.P.Main {
					continue
				}
				args := site.Common().Args
				if pi >= len(args) {
					continue
				}
				a, ok := stripConv(args[pi]).(*ssa.Parameter)
				m++
				if !ok || a.Parent() != caller {
					continue // a count decoded from the log was validated when it was logged
				}
				k++
				c.touch(caller)
				edges := lowerBoundedEdges(caller, a)
				c.check(len(edges) > 0 && edgesDominate(caller, edges, site.Block()), fnName(caller), fmt.Sprintf("argument %s reaches the negation in %s under an established lower bound", a.Name(), fnName(g)), c.P.ipos(site), "",
					fmt.Sprintf("%s negates its argument with no lower bound of its own, and this call forwards the caller-supplied %s without one: for math.MinInt64 the negation overflows and stays negative, the count is accepted and logged, and the applier that replays the record at Commit indexes out of range (panic with the write lock held)", fnName(g), a.Name()))
			}
		}
	}
	c.Sites += n + m
	c.ok("exported functions", "negations of integer arguments examined", "", fmt.Sprintf("%d negations in the main package, %d calls into data-structure functions that negate an argument", n, m))
}
