package main

import (
	"bytes"
	"fmt"
	"go/token"
	"go/types"
	"strings"

	"golang.org/x/tools/go/ssa"
)

// ---------------------------------------------------------------------------
// C02: sparse-mode read paths — segment-selection predicates (Engine G),
// newest-wins order, committed filter. C03: R-COUNT.

type segPred struct {
	fn      *ssa.Function
	cmps    []*ssa.Call // compare(...) calls involving BPTreeRootIdx.start/end
	visitor *ssa.Call   // the guarded per-segment call
	qAtoms  []ssa.Value
	// helper mode: the predicate is a bool function of the segment (or its bounds) and the query
	helper      *ssa.Function
	helperCall  *ssa.Call
	visitOnTrue bool
	paramAtom   map[*ssa.Parameter]string // helper parameter -> "seg.start" / "seg.end" / path of the query atom
}

func isSegBound(v ssa.Value) string {
	fv, base := lastField(v)
	if fv == nil || !namedIs(base.Type(), "BPTreeRootIdx") {
		return ""
	}
	if fv.Name() == "start" || fv.Name() == "end" {
		return fv.Name()
	}
	return ""
}

func findSegPreds(c *Ctx) []*segPred {
	var out []*segPred
	for _, f := range c.P.ModCone(kvReadAPIs(c)...) {
		sp := &segPred{fn: f}
		seenQ := map[string]bool{}
		calls(f, func(ci ssa.CallInstruction) {
			call, ok := ci.(*ssa.Call)
			if !ok || !calleeIs(&call.Call, modPath, "", "compare") {
				return
			}
			a0, a1 := call.Call.Args[0], call.Call.Args[1]
			if isSegBound(a0) == "" && isSegBound(a1) == "" {
				return
			}
			sp.cmps = append(sp.cmps, call)
			for _, a := range []ssa.Value{a0, a1} {
				if isSegBound(a) == "" && !seenQ[pathOf(a)] {
					seenQ[pathOf(a)] = true
					sp.qAtoms = append(sp.qAtoms, a)
				}
			}
		})
		if len(sp.cmps) == 0 {
			continue
		}
		// the visitor: a call to a module method whose block is dominated by an edge of an If fed by the comparisons
		calls(f, func(ci ssa.CallInstruction) {
			call, ok := ci.(*ssa.Call)
			if !ok || sp.visitor != nil {
				return
			}
			cal := call.Call.StaticCallee()
			if cal == nil || !c.P.inModule(cal) || calleeIs(&call.Call, modPath, "", "compare") || cal.Signature.Recv() == nil {
				return
			}
			if call.Block() == sp.cmps[0].Block() {
				return
			}
			if sp.cmps[0].Block().Dominates(call.Block()) && errResultIndex(cal) >= 0 {
				sp.visitor = call
			}
		})
		if sp.visitor != nil {
			out = append(out, sp)
		}
	}
	// helper mode
	for _, f := range c.P.ModCone(kvReadAPIs(c)...) {
		calls(f, func(ci ssa.CallInstruction) {
			call, ok := ci.(*ssa.Call)
			if !ok {
				return
			}
			h := call.Call.StaticCallee()
			if h == nil || !c.P.inModule(h) || len(h.Blocks) == 0 || h.Signature.Results().Len() != 1 {
				return
			}
			if b, ok := h.Signature.Results().At(0).Type().Underlying().(*types.Basic); !ok || b.Kind() != types.Bool {
				return
			}
			usesBound := false
			calls(h, func(hc ssa.CallInstruction) {
				for _, a := range hc.Common().Args {
					if isSegBound(a) != "" {
						usesBound = true
					}
				}
			})
			hargs := call.Call.Args
			for _, a := range hargs {
				if isSegBound(a) != "" {
					usesBound = true
				}
			}
			if !usesBound || len(hargs) != len(h.Params) {
				return
			}
			sp := &segPred{fn: f, helper: h, helperCall: call, paramAtom: map[*ssa.Parameter]string{}}
			sp.cmps = []*ssa.Call{call}
			for i, a := range hargs {
				switch {
				case isSegBound(a) != "":
					sp.paramAtom[h.Params[i]] = "seg." + isSegBound(a)
				case namedIs(derefT(a.Type()), "BPTreeRootIdx"):
				default:
					if sl, ok := a.Type().Underlying().(*types.Slice); ok {
						if b, ok := sl.Elem().Underlying().(*types.Basic); ok && b.Kind() == types.Byte {
							sp.paramAtom[h.Params[i]] = pathOf(a)
							sp.qAtoms = append(sp.qAtoms, a)
						}
					}
				}
			}
			// the visitor: a module method call returning an error, dominated by one side of the test of the helper's result
			isRes := func(x ssa.Value) bool { return resolve1(x) == ssa.Value(call) }
			for _, side := range []bool{true, false} {
				edges := boolEdges(f, side, isRes)
				if len(edges) == 0 {
					continue
				}
				calls(f, func(vi ssa.CallInstruction) {
					vc, ok := vi.(*ssa.Call)
					if !ok || sp.visitor != nil || vc == call {
						return
					}
					cal := vc.Call.StaticCallee()
					if cal == nil || !c.P.inModule(cal) || cal.Signature.Recv() == nil || errResultIndex(cal) < 0 {
						return
					}
					if edgesDominate(f, edges, vc.Block()) {
						sp.visitor = vc
						sp.visitOnTrue = side
					}
				})
			}
			if sp.visitor != nil && len(sp.qAtoms) > 0 {
				out = append(out, sp)
			}
		})
	}
	return out
}

// evalBoolFn interprets a loop-free bool function under an oracle for its calls.
func evalBoolFn(h *ssa.Function, callVal func(*ssa.Call) (interface{}, bool)) (res bool, ok bool) {
	vals := map[ssa.Value]interface{}{}
	var ev func(v ssa.Value) (interface{}, bool)
	ev = func(v ssa.Value) (interface{}, bool) {
		if r, ok := vals[v]; ok {
			return r, true
		}
		switch x := v.(type) {
		case *ssa.Const:
			if b, ok := constBool(x); ok {
				return b, true
			}
			if i, ok := constInt(x); ok {
				return i, true
			}
		case *ssa.Call:
			return callVal(x)
		case *ssa.BinOp:
			l, ok1 := ev(x.X)
			r, ok2 := ev(x.Y)
			if !ok1 || !ok2 {
				return nil, false
			}
			if li, lok := l.(int64); lok {
				if ri, rok := r.(int64); rok {
					switch x.Op {
					case token.EQL:
						return li == ri, true
					case token.NEQ:
						return li != ri, true
					case token.LSS:
						return li < ri, true
					case token.LEQ:
						return li <= ri, true
					case token.GTR:
						return li > ri, true
					case token.GEQ:
						return li >= ri, true
					}
				}
			}
			if lb, lok := l.(bool); lok {
				if rb, rok := r.(bool); rok {
					switch x.Op {
					case token.EQL:
						return lb == rb, true
					case token.NEQ:
						return lb != rb, true
					}
				}
			}
		case *ssa.UnOp:
			if x.Op == token.NOT {
				if r, ok := ev(x.X); ok {
					if b, ok := r.(bool); ok {
						return !b, true
					}
				}
			}
		}
		return nil, false
	}
	b := h.Blocks[0]
	var prev *ssa.BasicBlock
	for steps := 0; steps < 128; steps++ {
		for _, in := range b.Instrs {
			ph, isPhi := in.(*ssa.Phi)
			if !isPhi {
				break
			}
			for i, pb := range b.Preds {
				if pb == prev {
					if r, ok := ev(ph.Edges[i]); ok {
						vals[ph] = r
					}
				}
			}
		}
		if len(b.Instrs) == 0 {
			return false, false
		}
		switch t := b.Instrs[len(b.Instrs)-1].(type) {
		case *ssa.If:
			r, ok := ev(t.Cond)
			bv, isB := r.(bool)
			if !ok || !isB {
				return false, false
			}
			prev = b
			if bv {
				b = b.Succs[0]
			} else {
				b = b.Succs[1]
			}
		case *ssa.Jump:
			prev = b
			b = b.Succs[0]
		case *ssa.Return:
			r, ok := ev(t.Results[0])
			bv, isB := r.(bool)
			return bv, ok && isB
		default:
			return false, false
		}
	}
	return false, false
}

// walkDecision evaluates the loop-free region from block start under the
// oracle for compare calls; returns visit / skip / undecided.
func walkDecision(start, target *ssa.BasicBlock, cmpVal func(*ssa.Call) (int64, bool)) string {
	vals := map[ssa.Value]interface{}{}
	var ev func(v ssa.Value) (interface{}, bool)
	ev = func(v ssa.Value) (interface{}, bool) {
		if r, ok := vals[v]; ok {
			return r, true
		}
		switch x := v.(type) {
		case *ssa.Const:
			if i, ok := constInt(x); ok {
				return i, true
			}
			if b, ok := constBool(x); ok {
				return b, true
			}
		case *ssa.Call:
			if r, ok := cmpVal(x); ok {
				return r, true
			}
		case *ssa.BinOp:
			l, ok1 := ev(x.X)
			r, ok2 := ev(x.Y)
			if !ok1 || !ok2 {
				return nil, false
			}
			li, lok := l.(int64)
			ri, rok := r.(int64)
			if lok && rok {
				switch x.Op {
				case token.EQL:
					return li == ri, true
				case token.NEQ:
					return li != ri, true
				case token.LSS:
					return li < ri, true
				case token.LEQ:
					return li <= ri, true
				case token.GTR:
					return li > ri, true
				case token.GEQ:
					return li >= ri, true
				}
			}
		case *ssa.UnOp:
			if x.Op == token.NOT {
				if r, ok := ev(x.X); ok {
					if b, ok := r.(bool); ok {
						return !b, true
					}
				}
			}
		}
		return nil, false
	}
	b := start
	seen := map[*ssa.BasicBlock]bool{}
	for steps := 0; steps < 64; steps++ {
		if b == target {
			return "visit"
		}
		if seen[b] {
			return "skip"
		}
		seen[b] = true
		if b != start && !start.Dominates(b) {
			return "skip"
		}
		if len(b.Instrs) == 0 {
			return "undecided"
		}
		switch t := b.Instrs[len(b.Instrs)-1].(type) {
		case *ssa.If:
			r, ok := ev(t.Cond)
			bv, isB := r.(bool)
			if !ok || !isB {
				// a condition unrelated to the comparisons (loop header etc.): leaving the decision region
				return "skip"
			}
			if bv {
				b = b.Succs[0]
			} else {
				b = b.Succs[1]
			}
		case *ssa.Jump:
			b = b.Succs[0]
		default:
			return "skip"
		}
	}
	return "undecided"
}

func ruleSegPred(c *Ctx) {
	preds := findSegPreds(c)
	universe := []string{"", "a", "b", "aa", "ab", "ba", "bb"}
	get := c.P.MustFunc("(*Tx).Get")
	rng := c.P.MustFunc("(*Tx).RangeScan")
	n := 0
	for _, sp := range preds {
		f := sp.fn
		c.touch(f)
		kind := ""
		switch {
		case len(sp.qAtoms) == 2:
			kind = "range"
		case len(sp.qAtoms) == 1 && reachesFn(c.P, get, f):
			kind = "point"
		case len(sp.qAtoms) == 1 && !reachesFn(c.P, rng, f):
			kind = "prefix"
		default:
			c.undecided(fnName(f), "segment predicate", c.P.ipos(sp.cmps[0]), fmt.Sprintf("cannot classify a predicate with %d query atoms", len(sp.qAtoms)))
			continue
		}
		n++
		rows, bad, und := 0, 0, 0
		var firstBad string
		atomVal := map[string]string{}
		atomGet := func(a ssa.Value) (string, bool) {
			if k := isSegBound(a); k != "" {
				return atomVal["seg."+k], true
			}
			v, ok := atomVal[pathOf(a)]
			return v, ok
		}
		cmpVal := func(call *ssa.Call) (int64, bool) {
			if !calleeIs(&call.Call, modPath, "", "compare") && !calleeIs(&call.Call, "bytes", "", "Compare") {
				return 0, false
			}
			get := atomGet
			x, ok1 := get(call.Call.Args[0])
			y, ok2 := get(call.Call.Args[1])
			if !ok1 || !ok2 {
				return 0, false
			}
			return int64(bytes.Compare([]byte(x), []byte(y))), true
		}
		start := sp.cmps[0].Block()
		try := func(q []string, ss, se string, must bool, desc string) {
			atomVal = map[string]string{"seg.start": ss, "seg.end": se}
			for i, a := range sp.qAtoms {
				atomVal[pathOf(a)] = q[i]
			}
			rows++
			var r string
			if sp.helper != nil {
				for prm, at := range sp.paramAtom {
					atomVal[pathOf(prm)] = atomVal[at]
				}
				bv, ok := evalBoolFn(sp.helper, func(call *ssa.Call) (interface{}, bool) {
					if v, ok := cmpVal(call); ok {
						return v, true
					}
					return bytesPredVal(call, atomGet)
				})
				switch {
				case !ok:
					r = "undecided"
				case bv == sp.visitOnTrue:
					r = "visit"
				default:
					r = "skip"
				}
			} else {
				r = walkDecision(start, sp.visitor.Block(), cmpVal)
			}
			if r == "undecided" {
				und++
				return
			}
			if must && r != "visit" {
				bad++
				if firstBad == "" {
					firstBad = desc
				}
			}
		}
		for _, ss := range universe {
			for _, se := range universe {
				if ss > se {
					continue
				}
				switch kind {
				case "range":
					for _, qs := range universe {
						for _, qe := range universe {
							if qs > qe {
								continue
							}
							must := false
							for _, k := range universe {
								if qs <= k && k <= qe && ss <= k && k <= se {
									must = true
								}
							}
							try([]string{qs, qe}, ss, se, must, fmt.Sprintf("query [%q,%q] and a segment holding keys [%q,%q] share a key, yet the segment is skipped", qs, qe, ss, se))
						}
					}
				case "point":
					for _, q := range universe {
						try([]string{q}, ss, se, ss <= q && q <= se, fmt.Sprintf("key %q lies in a segment holding [%q,%q], yet the segment is skipped", q, ss, se))
					}
				case "prefix":
					for _, p := range universe {
						must := false
						for _, k := range universe {
							if strings.HasPrefix(k, p) && ss <= k && k <= se {
								must = true
							}
						}
						try([]string{p}, ss, se, must, fmt.Sprintf("prefix %q matches a key of a segment holding [%q,%q], yet the segment is skipped", p, ss, se))
					}
				}
			}
		}
		c.Sites += rows
		det := kind + " predicate selects every segment that can hold a matching key"
		switch {
		case und > 0:
			c.undecided(fnName(f), det, c.P.ipos(sp.cmps[0]), fmt.Sprintf("%d of %d orderings could not be evaluated", und, rows))
		case bad > 0:
			c.bad(fnName(f), det, c.P.ipos(sp.cmps[0]), fmt.Sprintf("%d of %d orderings: %s", bad, rows, firstBad))
		default:
			c.ok(fnName(f), det, c.P.ipos(sp.cmps[0]), fmt.Sprintf("%d orderings of query and segment bounds over a 7-string universe", rows))
		}
	}
	c.minInstances("segment-selection predicates", n, 4)
}

// ruleNewestWins: merge order of memory and disk results.
func ruleNewestWins(c *Ctx) {
	apis := kvReadAPIs(c)
	cone := c.P.ModCone(apis...)
	// (a) comparators passed to SortFID sort by descending fID
	n := 0
	for _, f := range cone {
		calls(f, func(ci ssa.CallInstruction) {
			if !calleeIs(ci.Common(), modPath, "", "SortFID") {
				return
			}
			n++
			c.touch(f)
			okb := false
			var lit *ssa.Function
			switch by := ci.Common().Args[1].(type) {
			case *ssa.MakeClosure:
				lit, _ = by.Fn.(*ssa.Function)
			case *ssa.Function:
				lit = by
			case *ssa.ChangeType:
				if mc, ok := by.X.(*ssa.MakeClosure); ok {
					lit, _ = mc.Fn.(*ssa.Function)
				}
				if fn, ok := by.X.(*ssa.Function); ok {
					lit = fn
				}
			}
			if lit != nil && len(lit.Params) == 2 {
				rs := returnsOf(lit)
				if len(rs) == 1 {
					if b, ok := rs[0].Results[0].(*ssa.BinOp); ok {
						px, _ := splitPath(b.X)
						py, _ := splitPath(b.Y)
						fx, _ := lastField(b.X)
						fy, _ := lastField(b.Y)
						if fx != nil && fy != nil && fx.Name() == "fID" && fy.Name() == "fID" {
							switch {
							case b.Op == token.GTR && px == ssa.Value(lit.Params[0]) && py == ssa.Value(lit.Params[1]):
								okb = true
							case b.Op == token.LSS && px == ssa.Value(lit.Params[1]) && py == ssa.Value(lit.Params[0]):
								okb = true
							}
						}
					}
				}
			}
			c.check(okb, fnName(f), fmt.Sprintf("segments are visited newest first (SortFID #%d)", n), c.P.ipos(ci), "comparator is p.fID > q.fID", "on-disk segments are not sorted by descending file id before being searched: an older value can win over a newer one")
			// the sorted slice is the one iterated
			sorted := ci.Common().Args[0]
			iter := false
			instrs(f, func(in ssa.Instruction) {
				if ia, ok := in.(*ssa.IndexAddr); ok && (ia.X == sorted || sameValue(ia.X, sorted)) {
					iter = forwardHas(f, ci, in, nil)
				}
			})
			if !iter && flowsToReturn(f, sorted) {
				// a helper that returns the sorted copy: every caller searches what it got back
				callers := c.P.CallersOf(f)
				iter = len(callers) > 0
				for _, s := range callers {
					sv, ok := s.(ssa.Value)
					if !ok {
						iter = false
						continue
					}
					found := false
					instrs(s.Parent(), func(in ssa.Instruction) {
						if ia, ok := in.(*ssa.IndexAddr); ok && (ia.X == sv || sameValue(ia.X, sv)) {
							found = true
						}
					})
					if !found {
						iter = false
					}
				}
			}
			c.check(iter, fnName(f), fmt.Sprintf("the sorted slice is the one searched (SortFID #%d)", n), c.P.ipos(ci), "", "the slice that is sorted is not the slice that is searched afterwards")
		})
	}
	c.minInstances("SortFID call sites in the read cone", n, 1)
	// (b) the merge keeps the first occurrence of a key
	k := 0
	for _, f := range cone {
		instrs(f, func(in ssa.Instruction) {
			mu, ok := in.(*ssa.MapUpdate)
			if !ok {
				return
			}
			mt, ok := mu.Map.Type().Underlying().(*types.Map)
			if !ok || !isEntryPtr(mt.Elem()) {
				return
			}
			k++
			c.touch(f)
			edges := boolEdges(f, false, func(x ssa.Value) bool {
				ex, ok := x.(*ssa.Extract)
				if !ok || ex.Index != 1 {
					return false
				}
				lk, ok := ex.Tuple.(*ssa.Lookup)
				return ok && lk.CommaOk && sameValue(lk.X, mu.Map) && pathOf(lk.Index) == pathOf(mu.Key)
			})
			c.check(len(edges) > 0 && edgesDominate(f, edges, mu.Block()), fnName(f), fmt.Sprintf("merge map insertion #%d keeps the first (newest) occurrence", k), c.P.ipos(mu), "", "the merge overwrites an entry that was already seen: with newest-first input the oldest version wins")
		})
	}
	c.minInstances("merge-map insertions", k, 1)
	// (b') what is fed to that merge still contains the dead records: the per-segment collectors (functions of the read
	// cone that walk an on-disk tree and return entries) apply no tombstone/expiry test of their own. A tombstone in a
	// newer segment is what hides the live version in an older one; dropped at collection, the old value reappears.
	mergeFns := map[*ssa.Function]bool{}
	for _, f := range cone {
		instrs(f, func(in ssa.Instruction) {
			if mu, ok := in.(*ssa.MapUpdate); ok {
				if mt, ok := mu.Map.Type().Underlying().(*types.Map); ok && isEntryPtr(mt.Elem()) {
					mergeFns[f] = true
				}
			}
		})
	}
	readNode := c.P.MustFunc("ReadNode")
	nc := 0
	for _, f := range cone {
		if mergeFns[f] || f.Pkg != c.P.Main || len(f.Blocks) == 0 || f.Signature.Results().Len() == 0 || !isEntrySliceType(f.Signature.Results().At(0).Type()) {
			continue
		}
		direct := false
		calls(f, func(ci ssa.CallInstruction) {
			if cal := ci.Common().StaticCallee(); cal == readNode {
				direct = true
			}
		})
		if !direct {
			continue
		}
		nc++
		c.touch(f)
		g := liveGuardsOf(c.P, f)
		tests := len(g.notDel) + len(g.notExp)
		c.check(tests == 0, fnName(f), "the per-segment collector hands dead records on to the newest-wins merge", c.P.pos(f.Pos()), "",
			"this function collects the candidates of one on-disk segment and tests them for the delete marker / expiry itself: a tombstone (or expired version) in this segment is dropped before the newest-wins merge has seen it, so it no longer hides the live version of the key in an older segment - the deleted key reappears in sparse-mode scans once its tombstone's segment is sealed")
	}
	c.minInstances("per-segment collectors of the sparse scans", nc, 2)
	// (c) memory results are appended before disk results
	m := 0
	for _, f := range cone {
		var diskApp []ssa.Instruction
		var memApp []ssa.Instruction
		instrs(f, func(in ssa.Instruction) {
			call, ok := in.(*ssa.Call)
			if !ok {
				return
			}
			bi, ok := call.Call.Value.(*ssa.Builtin)
			if !ok || bi.Name() != "append" || !isEntrySliceType(call.Type()) {
				return
			}
			// disk: second argument is the result of a module call reaching ReadNode
			src := resolve1(call.Call.Args[1])
			if ex, ok := src.(*ssa.Extract); ok {
				if dc, ok := ex.Tuple.(*ssa.Call); ok {
					if cal := dc.Call.StaticCallee(); cal != nil && c.P.inModule(cal) && reachesFn(c.P, cal, c.P.MustFunc("ReadNode")) {
						diskApp = append(diskApp, in)
						return
					}
				}
			}
			// memory: the element was read at a hint of the active in-memory index
			memApp = append(memApp, in)
		})
		if len(diskApp) == 0 || len(memApp) == 0 {
			continue
		}
		m++
		c.touch(f)
		okb := true
		for _, d := range diskApp {
			for _, ma := range memApp {
				if forwardHas(f, d, ma, nil) {
					okb = false
				}
			}
		}
		c.check(okb, fnName(f), "memory results precede disk results in the merged list", c.P.ipos(diskApp[0]), "", "entries of sealed segments can be placed before entries of the active segment: the first-occurrence merge would prefer the older value")
	}
	c.minInstances("functions merging memory and disk results", m, 2)
}

// ruleCommittedRead: reads return only data of committed transactions.
func ruleCommittedRead(c *Ctx) {
	get := c.P.MustFunc("(*Tx).Get")
	a := &liveAnalysis{c: c, spec: newNoLimitSpec(c, []*ssa.Function{get}), memo: map[*ssa.Function]int{}, why: map[*ssa.Function]string{}, committed: true}
	c.touch(get)
	k := 0
	for _, r := range returnsOf(get) {
		for _, rv := range r.Results {
			if !isEntryPtr(rv.Type()) {
				continue
			}
			allNil := true
			for _, v := range resolve(rv) {
				if !isNilConst(v) {
					allNil = false
				}
			}
			if allNil {
				continue
			}
			k++
			ok, why := a.valueLive(get, rv, r.Block(), 0)
			c.check(ok, fnName(get), fmt.Sprintf("result at return #%d belongs to a committed transaction", k), c.P.ipos(r), "", "Get can return the data of a transaction whose id is not in the committed set: "+why)
		}
	}
	c.minInstances("entry-returning paths of Get", k, 3)
}

// ruleCommittedScanSparse: the sparse-mode scans consult the committed-transaction index.
func ruleCommittedScanSparse(c *Ctx) {
	txidFn := c.P.Func("(*Tx).FindTxIDOnDisk")
	for _, name := range []string{"RangeScan", "PrefixScan", "PrefixSearchScan"} {
		m := c.P.MustFunc("(*Tx)." + name)
		c.touch(m)
		has := false
		for _, f := range c.P.ModCone(m) {
			if f == txidFn {
				has = true
			}
			instrs(f, func(in ssa.Instruction) {
				if v, ok := in.(ssa.Value); ok && isFieldLoad(v, "DB", "ActiveCommittedTxIdsIdx") {
					has = true
				}
			})
		}
		c.check(has, fnName(m), "sparse-mode results are filtered by the committed-transaction index", c.P.pos(m.Pos()), "", "in sparse mode this scan never consults the committed-transaction index (ActiveCommittedTxIdsIdx / FindTxIDOnDisk): entries written by a transaction that failed are returned")
	}
}

func committedGuardEdges(fn *ssa.Function) []succEdge {
	var edges []succEdge
	// RAM: _, ok := db.committedTxIds[x.txID]
	edges = append(edges, boolEdges(fn, true, func(x ssa.Value) bool {
		ex, ok := x.(*ssa.Extract)
		if !ok {
			return false
		}
		if lk, ok := ex.Tuple.(*ssa.Lookup); ok && ex.Index == 1 && lk.CommaOk && isFieldLoad(lk.X, "DB", "committedTxIds") && isFieldLoad(lk.Index, "MetaData", "txID") {
			return true
		}
		// ok result of FindTxIDOnDisk
		if call, ok := ex.Tuple.(*ssa.Call); ok && ex.Index == 0 && calleeIs(&call.Call, modPath, "Tx", "FindTxIDOnDisk") {
			return true
		}
		return false
	})...)
	// sparse: _, err := db.ActiveCommittedTxIdsIdx.Find(key(txID)); err == nil
	edges = append(edges, nilEdges(fn, true, func(x ssa.Value) bool {
		ex, ok := resolve1(x).(*ssa.Extract)
		if !ok || !isErrorType(ex.Type()) {
			return false
		}
		call, ok := ex.Tuple.(*ssa.Call)
		if !ok || !calleeIs(&call.Call, modPath, "BPTree", "Find") || !isFieldLoad(call.Call.Args[0], "DB", "ActiveCommittedTxIdsIdx") {
			return false
		}
		found := false
		walkOperands(call.Call.Args[1], 8, func(v ssa.Value) {
			if isFieldLoad(v, "MetaData", "txID") {
				found = true
			}
		})
		return found
	})...)
	return edges
}

// ---------------------------------------------------------------------------
// R-COUNT (C03)

func ruleCount(c *Ctx) {
	apis := []*ssa.Function{c.P.MustFunc("(*Tx).PrefixScan"), c.P.MustFunc("(*Tx).PrefixSearchScan")}
	// paging parameters: the APIs' int parameters and every callee parameter that receives a value derived from one
	paging := map[*ssa.Parameter]bool{}
	for _, m := range apis {
		for _, p := range m.Params {
			if b, ok := p.Type().Underlying().(*types.Basic); ok && b.Kind() == types.Int {
				paging[p] = true
			}
		}
	}
	cone := c.P.ModCone(apis...)
	for changed := true; changed; {
		changed = false
		for _, f := range cone {
			calls(f, func(ci ssa.CallInstruction) {
				cal := ci.Common().StaticCallee()
				if cal == nil || cal.Blocks == nil || !c.P.inModule(cal) {
					return
				}
				for i, a := range ci.Common().Args {
					if i >= len(cal.Params) || paging[cal.Params[i]] {
						continue
					}
					if b, ok := cal.Params[i].Type().Underlying().(*types.Basic); !ok || b.Kind() != types.Int {
						continue
					}
					derived := false
					walkOperands(a, 4, func(v ssa.Value) {
						if p, ok := v.(*ssa.Parameter); ok && paging[p] {
							derived = true
						}
					})
					if derived {
						paging[cal.Params[i]] = true
						changed = true
					}
				}
			})
		}
	}
	n := 0
	for _, f := range cone {
		if f.Pkg != c.P.Main {
			continue
		}
		g := liveGuardsOf(c.P, f)
		var intParams []*ssa.Parameter
		for _, p := range f.Params {
			if paging[p] {
				intParams = append(intParams, p)
			}
		}
		if len(intParams) == 0 {
			continue
		}
		isParam := func(v ssa.Value) bool {
			v = resolve1(v)
			for _, p := range intParams {
				if v == ssa.Value(p) {
					return true
				}
			}
			return false
		}
		// counter families: int phis connected through phi edges, with +1 increments feeding them
		var phis []*ssa.Phi
		instrs(f, func(in ssa.Instruction) {
			if phi, ok := in.(*ssa.Phi); ok {
				if b, ok := phi.Type().Underlying().(*types.Basic); ok && b.Kind() == types.Int {
					phis = append(phis, phi)
				}
			}
		})
		famOf := map[*ssa.Phi]int{}
		for i, p := range phis {
			famOf[p] = i
		}
		find := func(p *ssa.Phi) int {
			for famOf[p] != famOf[phis[famOf[p]]] {
				famOf[p] = famOf[phis[famOf[p]]]
			}
			return famOf[p]
		}
		union := func(a, b *ssa.Phi) {
			ra, rb := find(a), find(b)
			if ra != rb {
				for _, p := range phis {
					if find(p) == rb {
						famOf[p] = ra
					}
				}
			}
		}
		for _, p := range phis {
			for _, e := range p.Edges {
				if q, ok := e.(*ssa.Phi); ok {
					if _, isInt := famOf[q]; isInt {
						union(p, q)
					}
				}
				if b, ok := e.(*ssa.BinOp); ok && b.Op == token.ADD {
					if q, ok := b.X.(*ssa.Phi); ok {
						if _, isInt := famOf[q]; isInt {
							if one, ok := constInt(b.Y); ok && one == 1 {
								union(p, q)
							}
						}
					}
				}
			}
		}
		done := map[int]bool{}
		for _, rep := range phis {
			fid := find(rep)
			if done[fid] {
				continue
			}
			done[fid] = true
			member := map[ssa.Value]bool{}
			name := ""
			for _, p := range phis {
				if find(p) == fid {
					member[p] = true
					if name == "" {
						name = p.Comment
					}
				}
			}
			var incs []*ssa.BinOp
			for _, p := range phis {
				if find(p) != fid {
					continue
				}
				for _, e := range p.Edges {
					if b, ok := e.(*ssa.BinOp); ok && b.Op == token.ADD && member[b.X] {
						if one, ok := constInt(b.Y); ok && one == 1 {
							incs = append(incs, b)
						}
					}
				}
			}
			for _, b := range incs {
				member[b] = true
			}
			if len(incs) == 0 {
				continue
			}
			compared := false
			for _, i := range ifsOf(f) {
				ca := decomposeIf(i)
				if ca.Op == token.ILLEGAL {
					continue
				}
				if (member[resolve1(ca.X)] && isParam(ca.Y)) || (member[resolve1(ca.Y)] && isParam(ca.X)) {
					compared = true
				}
			}
			if !compared {
				continue
			}
			n++
			c.touch(f)
			c.Sites++
			if name == "" {
				name = "counter"
			}
			okb := true
			for _, b := range incs {
				dOK, eOK := false, false
				for _, es := range g.notDel {
					if edgesDominate(f, es, b.Block()) {
						dOK = true
					}
				}
				for _, es := range g.notExp {
					if edgesDominate(f, es, b.Block()) {
						eOK = true
					}
				}
				if !dOK || !eOK {
					okb = false
				}
			}
			c.check(okb, fnName(f), "counter "+name+" counts live keys only", c.P.ipos(incs[0]),
				"every increment is dominated by the tombstone and expiry tests", "a counter that is compared with the offset/limit argument is incremented for every index record, deleted and expired ones included: tombstones consume offset and limit, so a page can come back empty while live keys remain")
			// the counter stands for "keys examined so far": it moves by exactly one per key. A bulk advance (coff += n.KeysNum
			// to skip a whole leaf) counts keys that were never tested - keys before the prefix in the first leaf, tombstones -
			// so the page starts at the wrong key.
			for _, p := range phis {
				if find(p) != fid {
					continue
				}
				for _, e := range p.Edges {
					if b, ok := e.(*ssa.BinOp); ok && (b.Op == token.ADD || b.Op == token.SUB) && member[b.X] {
						if one, ok := constInt(b.Y); !(ok && one == 1 && b.Op == token.ADD) {
							c.bad(fnName(f), "counter "+name+" advances by exactly one per examined key", c.P.ipos(b),
								"a counter that is compared with the offset/limit argument is advanced by "+shortInstr(b)+" instead of by one per key that was examined: keys that were never tested against the prefix (or for liveness) are counted as skipped, so a page starts too early or too late")
						}
					}
				}
			}
		}
		// limits applied to the length of a filtered slice
		for _, i := range ifsOf(f) {
			ca := decomposeIf(i)
			if ca.Op == token.ILLEGAL {
				continue
			}
			var lenArg ssa.Value
			for _, pair := range [][2]ssa.Value{{ca.X, ca.Y}, {ca.Y, ca.X}} {
				if call, ok := stripConv(resolve1(pair[0])).(*ssa.Call); ok && isParam(pair[1]) {
					if bi, ok := call.Call.Value.(*ssa.Builtin); ok && bi.Name() == "len" && isEntrySliceType(call.Call.Args[0].Type()) {
						lenArg = call.Call.Args[0]
					}
				}
			}
			if lenArg == nil {
				continue
			}
			n++
			c.touch(f)
			a := &liveAnalysis{c: c, spec: &noLimitSpec{p: c.P, bound: map[*ssa.Parameter]int64{}}, memo: map[*ssa.Function]int{}, why: map[*ssa.Function]string{}}
			ok, why := a.valueLive(f, lenArg, i.Block(), 0)
			c.check(ok, fnName(f), "limit is applied to the number of live entries collected", c.P.ipos(i), "", "the limit is compared with the length of a list that can contain deleted or expired entries: "+why)
		}
	}
	c.minInstances("offset/limit counters", n, 9)
}


// bytesPredVal evaluates bytes.HasPrefix / bytes.HasSuffix / bytes.Equal over atoms.
func bytesPredVal(call *ssa.Call, get func(ssa.Value) (string, bool)) (interface{}, bool) {
	cal := call.Call.StaticCallee()
	if cal == nil || cal.Pkg == nil || cal.Pkg.Pkg.Path() != "bytes" || len(call.Call.Args) != 2 {
		return nil, false
	}
	x, ok1 := get(call.Call.Args[0])
	y, ok2 := get(call.Call.Args[1])
	if !ok1 || !ok2 {
		return nil, false
	}
	switch cal.Name() {
	case "HasPrefix":
		return strings.HasPrefix(x, y), true
	case "HasSuffix":
		return strings.HasSuffix(x, y), true
	case "Equal":
		return x == y, true
	}
	return nil, false
}
