package main

// R-DESCENT (C02 C10 C01): every B+ tree descent takes the right-hand child when the searched key EQUALS the
// separator. A split copies the first key of the new right node up as the separator (insertIntoParent), so a
// key equal to a separator lives in the right subtree; the in-memory FindLeaf, the on-disk FindLeafOnDisk and
// the transaction-id lookup FindTxIDOnDisk must agree with that or the first key of every non-first leaf is
// looked up in the wrong leaf ("not found" / "transaction not committed" for live data).
//
// A descent step is an If, executed while the current node is known not to be a leaf, whose condition compares
// the searched key with Keys[i] (compare(a,b) OP 0, or a numeric a OP b). The condition is evaluated for
// a == b; the successor taken then must dominate the increment of the child index.

import (
	"fmt"
	"go/token"

	"golang.org/x/tools/go/ssa"
)

func ruleDescent(c *Ctx) {
	n := 0
	isKeysElem := func(v ssa.Value) bool {
		for d := 0; d < 6; d++ {
			v = stripConv(resolve1(v))
			switch x := v.(type) {
			case *ssa.UnOp:
				if x.Op == token.MUL {
					if ia, ok := x.X.(*ssa.IndexAddr); ok {
						fv, _ := lastField(ia.X)
						return fv != nil && fv.Name() == "Keys"
					}
				}
				return false
			case *ssa.Call:
				// conversions through helpers (Int64ToStr(curr.Keys[i]))
				if len(x.Call.Args) == 1 {
					v = x.Call.Args[0]
					continue
				}
				return false
			case *ssa.Index:
				fv, _ := lastField(x.X)
				return fv != nil && fv.Name() == "Keys"
			default:
				return false
			}
		}
		return false
	}
	notLeafOf := func(f *ssa.Function) []succEdge {
		e := boolEdges(f, false, func(x ssa.Value) bool {
			fv, _ := lastField(x)
			return fv != nil && fv.Name() == "isLeaf"
		})
		return append(e, eqEdges(f, false, func(x, y ssa.Value) bool {
			k, ok := constInt(y)
			fv, _ := lastField(x)
			return ok && k == 1 && fv != nil && fv.Name() == "IsLeaf"
		})...)
	}
	// a helper that computes the child index for its caller runs in the caller's not-a-leaf context
	inCtx := map[*ssa.Function]bool{}
	for _, f := range c.P.SrcFuncs {
		if f.Pkg != c.P.Main || len(f.Blocks) == 0 || len(notLeafOf(f)) > 0 {
			continue
		}
		sites := c.P.CallersOf(f)
		all := len(sites) > 0
		for _, s := range sites {
			e := notLeafOf(s.Parent())
			if len(e) == 0 || !edgesDominate(s.Parent(), e, s.Block()) {
				all = false
			}
		}
		inCtx[f] = all
	}
	for _, f := range c.P.SrcFuncs {
		if f.Pkg != c.P.Main || len(f.Blocks) == 0 {
			continue
		}
		notLeaf := notLeafOf(f)
		if len(notLeaf) == 0 && !inCtx[f] {
			continue
		}
		k := 0
		for _, ifi := range ifsOf(f) {
			if !inCtx[f] && !edgesDominate(f, notLeaf, ifi.Block()) {
				continue
			}
			a := decomposeIf(ifi)
			var op token.Token
			switch a.Op {
			case token.LSS, token.LEQ, token.GTR, token.GEQ, token.EQL, token.NEQ:
				op = a.Op
			default:
				continue
			}
			isCmp := false
			if call, ok := resolve1(a.X).(*ssa.Call); ok && calleeIs(&call.Call, modPath, "", "compare") {
				if kk, ok := constInt(a.Y); ok && kk == 0 { // on disk the separator is read back through the stored offset Keys[i]
					isCmp = true
				}
			} else if call, ok := resolve1(a.Y).(*ssa.Call); ok && calleeIs(&call.Call, modPath, "", "compare") {
				if kk, ok := constInt(a.X); ok && kk == 0 {
					isCmp = true
				}
			} else if isIntegerType(a.X.Type()) && (isKeysElem(a.X) || isKeysElem(a.Y)) {
				isCmp = true
			}
			if !isCmp {
				continue
			}
			n++
			k++
			c.touch(f)
			// value of the condition when key == separator
			val := op == token.LEQ || op == token.GEQ || op == token.EQL
			if a.Neg {
				val = !val
			}
			si := 1
			if val {
				si = 0
			}
			adv := false
			instrs(f, func(in ssa.Instruction) {
				b, ok := in.(*ssa.BinOp)
				if !ok || b.Op != token.ADD {
					return
				}
				if kk, ok := constInt(b.Y); !ok || kk != 1 {
					return
				}
				if edgesDominate(f, []succEdge{{ifi.Block(), si}}, b.Block()) {
					adv = true
				}
			})
			c.check(adv, fnName(f), fmt.Sprintf("descent step #%d moves to the right-hand child when the key equals the separator", k), c.P.ipos(ifi), "",
				"while descending through an internal node the child index is not advanced when the searched key equals Keys[i]: the separator is the first key of the right-hand child (a split copies it up), so the first key of every non-first leaf is searched in the leaf to its left and reported missing - for the transaction-id tree that makes Get return 'not found' for live keys of the 5th, 9th, ... transaction of a sealed segment")
		}
	}
	c.Sites += n
	c.minInstances("B+ tree descent steps", n, 3)
}
