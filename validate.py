#!/usr/bin/env python3-vt
import json, jsonschema, glob, sys
jsonschema.validate(json.load(open('/verif/MANIFEST.json')), json.load(open('/root/.vp/MANIFEST.schema.json')))
m = json.load(open('/verif/MANIFEST.json'))
es = json.load(open('/root/.vp/EVIDENCE.schema.json'))
for c in m['checks']:
    jsonschema.validate(json.load(open(c['evidence_file'])), es)
ids = [c['property_id'] for c in m['checks']] + [n['property_id'] for n in m.get('not_applicable', [])]
assert sorted(ids) == ['C%02d' % i for i in range(1, 23)], ids
print('manifest + %d evidence files valid' % len(m['checks']))
