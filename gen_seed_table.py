#!/usr/bin/env python3
"""Regenerates the seeded-change table at the end of DESIGN.md (everything from the '| Seed | Change' header line to EOF)
from /verif/seeded/*/meta.json (detected_now is written by seed_matrix.py -u)."""
import json, glob, os, re
here = os.path.dirname(os.path.abspath(__file__))
rows = []
def sk(p):
    m = re.match(r".*/(C\d+)-m(\d+)/meta.json", p); return (m.group(1), int(m.group(2)))
tot = tgt = anyv = 0
for mp in sorted(glob.glob(here + "/seeded/*/meta.json"), key=sk):
    m = json.load(open(mp)); d = m.get("detected_now", {})
    first = m["summary"].split(". ")[0].replace("|", "/").replace("\n", " ")[:170]
    by = "yes" if d.get("by_target_property") else ("undecided" if m["property"] in d.get("properties_undecided", []) else "no")
    tot += 1; tgt += by == "yes"; anyv += bool(d.get("properties_with_new_violation"))
    rows.append("| %s | %s | %s | %s | %s |" % (m["id"], first, by, ", ".join(d.get("rules", [])) or "—", ", ".join(d.get("properties_with_new_violation", [])) or "—"))
s = open(here + "/DESIGN.md").read()
i = s.index("| Seed | Change")
head = "| Seed | Change (first sentence of the author's summary) | Caught by its property | Rules with a new violation | Properties reporting it |\n|---|---|---|---|---|\n"
open(here + "/DESIGN.md", "w").write(s[:i] + head + "\n".join(rows) + "\n")
print("seeds=%d caught-by-target=%d caught-by-any=%d" % (tot, tgt, anyv))
