#!/bin/bash
# usage: scratch.sh <patch-or-sed-script> -- nutslint args...
# Makes a throw-away copy of /repo under a temp dir, applies the edit (a .diff file via git apply,
# or a sed -i expression given as 'file:::expr'), runs nutslint against it, removes the copy.
set -u
edit="$1"; shift; shift
d=$(mktemp -d /tmp/nutsscratch.XXXXXX)
cp -r /repo/. "$d"/ && rm -rf "$d/.git"
if [[ "$edit" == *":::"* ]]; then
  f="${edit%%:::*}"; e="${edit#*:::}"
  sed -i -E "$e" "$d/$f" || { echo "sed failed"; rm -rf "$d"; exit 3; }
elif [[ -f "$edit" ]]; then
  (cd "$d" && patch -p1 -s < "$edit") || { echo "patch failed"; rm -rf "$d"; exit 3; }
fi
(cd "$d" && diff -ru /repo . -x .git | grep -E '^[+-][^+-]' | head -20)
(cd "$d" && GOFLAGS=-mod=mod GOPROXY=off go build ./... ) || { echo "DOES NOT COMPILE"; }
/verif/bin/nutslint -repo "$d" -no-evidence "$@"
rc=$?
rm -rf "$d"
exit $rc
