#!/usr/bin/env python3
"""(benign variant of seed_matrix.py: every entry must stay SILENT) Re-runs every rule of nutslint against each seeded change (/verif/seeded/*/patch.diff applied to a throw-away copy of /repo HEAD)
and reports, per seed, the obligations that are violated/undecided there but not on the unchanged tree, mapped to properties.
usage: seed_matrix.py [-u] [seed-id ...]    (-u: update detected_now in each meta.json)"""
import json, os, subprocess, sys, tempfile, shutil, glob, concurrent.futures as cf
here = os.path.dirname(os.path.abspath(__file__))
NL = here + "/bin/nutslint"
def key(o):
    k = o["rule"] + " | " + o["construct"]
    if o.get("detail"): k += " | " + o["detail"]
    return k
def run_all(repo):
    fd, out = tempfile.mkstemp(suffix=".json"); os.close(fd)
    p = subprocess.run([NL, "-repo", repo, "-rules", "all", "-json", out], capture_output=True, text=True)
    try:
        obs = json.load(open(out))
    except Exception:
        obs = None
    os.remove(out)
    return obs, p.stdout + p.stderr
props = {}
for line in subprocess.check_output([NL, "-list"], text=True).splitlines():
    pid, rules = line.split(":", 1)
    for r in rules.split(): props.setdefault(r, []).append(pid.strip())
import re as _re
KNOWN_PATS = [_re.compile(p) for f in json.load(open(here + "/known_findings.json"))["findings"] if f["status"] == "known" for p in f.get("key_patterns", [])]
BDIR = os.environ.get("BENIGN_DIR", here + "/benign_ext")
base, _ = run_all("/repo")
bad0 = {key(o) for o in base if o["status"] != "discharged"}
def one(sid):
    d = tempfile.mkdtemp(prefix="nutsmx.", dir="/tmp")
    try:
        subprocess.run("git -C /repo archive HEAD | tar -x -C %s" % d, shell=True, check=True)
        r = subprocess.run("patch -p1 -s < %s/%s.diff" % (BDIR, sid), shell=True, cwd=d, capture_output=True, text=True)
        if r.returncode != 0: return sid, None, "patch failed: " + r.stdout + r.stderr
        obs, log = run_all(d)
        if obs is None: return sid, None, "nutslint failed: " + log[-400:]
        new = [o for o in obs if o["status"] != "discharged" and key(o) not in bad0 and not any(r.search(key(o)) for r in KNOWN_PATS)]
        return sid, new, ""
    finally:
        shutil.rmtree(d, ignore_errors=True)
args = [a for a in sys.argv[1:] if a != "-u"]
update = "-u" in sys.argv
sids = args or sorted(os.path.basename(p)[:-5] for p in glob.glob(BDIR + "/*.diff"))
tot = tgt = anyv = 0
with cf.ThreadPoolExecutor(max_workers=6) as ex:
    for sid, new, err in ex.map(one, sids):
        target = sid.split("-")[0]
        if new is None:
            print(sid, "ERROR", err); continue
        viol = [o for o in new if o["status"] == "violated"]
        und = [o for o in new if o["status"] == "undecided"]
        vp = sorted({p for o in viol for p in props.get(o["rule"], [])})
        up = sorted({p for o in und for p in props.get(o["rule"], [])})
        tot += 1; anyv += bool(vp or up)
        print("%-10s %s" % (sid, "silent" if not (viol or und) else "NOISY: " + " ;; ".join("[%s] %s" % (o["status"], key(o)) for o in viol + und)[:900]))
        if False:
            mp = "%s/seeded/%s/meta.json" % (here, sid)
            m = json.load(open(mp))
            m["detected_now"] = {"by_target_property": target in vp, "properties_with_new_violation": vp, "properties_undecided": up,
                                 "rules": sorted({o["rule"] for o in viol}), "obligations": [key(o) for o in viol][:8]}
            json.dump(m, open(mp, "w"), indent=1)
print("benign=%d noisy=%d" % (tot, anyv))
