#!/usr/bin/env python3
"""Adds the clauses of the rules built in phase 3 to manifest_texts.json (idempotent: each addition is keyed by a marker)."""
import json
p='/verif/manifest_texts.json'
T=json.load(open(p))
ADD={
 "C01":("Also decided: the B+ tree leaf chain every scan walks is spliced correctly on a split (one link slot, new.link = old.link before old.link = new), recovery judges records only after all segments were scanned, and the expiry predicate is evaluated with Go's wrap-around integer semantics on a grid that includes timestamps ahead of the clock and 32-bit-boundary values.", ", list-splice shape rule, path-order rule over the open cone"),
 "C02":("Also decided: the conditional updates of a bucket's persisted key range (new minimum / new maximum) are not mutually exclusive, and the in-memory leaf chain used by the active index is spliced correctly.", ", path feasibility of paired updates"),
 "C03":("Also decided: every regular-expression match of PrefixSearchScan is applied to the HasPrefix-tested key with the scan prefix stripped (the 'remainder' of the statement), and the leaf chain the scans walk is spliced correctly.", ", argument-provenance rule for regexp matches"),
 "C04":("Also decided: code that matches or de-duplicates elements of a record collection spanning buckets (pending writes, merge rewrite set) by key also involves the element's bucket.", ", backward data slices of comparisons and map keys"),
 "C05":("Also decided: every successful list API path passes each of its log sites (nothing reports success unlogged) and the logged payload depends only on the call's arguments, not on committed state (offsets resolved at call time are stale at commit).", ", must-pass-through over success returns, backward data slices"),
 "C06":("Also decided: each log site of a set API (both records of SMove) lies on every success path, and logged payloads depend only on the call's arguments (pop operations excepted by name).", ", must-pass-through over success returns"),
 "C07":("Also decided: the ordering keys (score, key) of a skiplist node are written only at construction, or in place behind strict comparisons with both neighbours; sorted-set APIs log on every success path with argument-only payloads.", ", strict-order guard domination"),
 "C08":("Also decided: recovery judges records only after every segment was scanned, and rebuilds list/set/sorted-set records with their payload in every index mode.", ", path-order rule over the open cone, phi-edge guard domination"),
 "C09":("Also decided: list/set/sorted-set records are rebuilt with their payload in every index mode (K25, repaired), Open restores the active file's write offset and its size counter together on the database's own handle, and no RWManager.ReadAt refuses a read that is merely cut short by the end of the segment.", ", field-pairing rule, linear forms of bounds tests"),
 "C10":("Also decided: no committed-id membership test in the open cone can be followed by an insertion into the set (records are judged after all segments were scanned).", ", interprocedural event-order rule"),
 "C12":("Also decided: every log site of a mutating API lies on every success path.", ", must-pass-through over success returns"),
 "C13":("Also decided (necessary for serial explanation): writers hold the exclusive lock from Begin to Commit/Rollback, logged payloads depend only on the call's arguments, every success path logs, and pending records are matched by (bucket, key), never by key alone.", ", lock-mapping rule, backward data slices"),
 "C14":("Also decided: no package-level variable holding a mutable reference (pointer, map, slice, channel) is handed to a call from API-reachable code.", ""),
 "C15":("Also decided: every listed segment is rewritten and removed before the next is opened (none skipped), and the index lookup used to recognise superseded records contains no tombstone/expiry test.", ", must-pass-through on the per-segment loop, cone scan of the lookup"),
 "C16":("Also decided: no iteration of the per-segment loop reaches the next segment without removing the current one.", ""),
 "C17":("Also decided: Merge's committed-transaction filter consults the live DB.committedTxIds (not a snapshot taken before concurrent commits).", ", guard domination"),
 "C18":("Every copy of database files in Backup's cone must be unreachable except through the db.View/db.Update call (lock held); extracting the body into a helper called inside the transaction is accepted.", ", call-graph reachability with the transaction call removed"),
 "C19":("Also decided: writeOff and ActualSize of the active file advance and are restored together, RWManager.ReadAt implementations agree on how a read cut short by the end of the segment is reported, hints are built only where the record is written (not after later records may have rotated the file), and recovery keeps the payload of non-KV records in every index mode.", ", field-pairing rule, linear forms"),
 "C20":("Also decided: Begin tests db.closed under the lock, and no make() takes a size derived (interprocedural integer taint: API int parameters and integers the appliers decode from records) from a caller-chosen integer without an upper clamp.", ", interprocedural integer taint with clamp recognition"),
 "C21":("Also decided: every RWManager.ReadAt call outside the implementations sits in a CRC-verifying decoder (segment bytes reach callers only through the verifying decoder).", ", who-may-call rule for raw segment reads"),
 "C22":("A data-presence test that probes one fixed segment id is reported (Merge removes the low ids).", ""),
}
ADD2={
 "C01":("Further: every KV write API logs on every success path, DataFile.fileID is read only where it was assigned, segments are replayed in ascending id order.", ""),
 "C02":("Further: tombstones widen a tree's key bounds like any record (they become a sealed segment's lookup range), KV write APIs log on every success path, segments are listed in ascending id order.", ""),
 "C03":("Further: scan results with offset 0 pass the live guards and the newest-wins merge; DataFile.fileID is read only where it was assigned (a cached read handle cannot mistake segments).", ""),
 "C09":("Further: entry-size tests against the segment size use the full encoded size; the bucket-meta/root-index/entry codecs are symmetric (a reader that checksums more than the record fails Open on a valid file).", ""),
 "C10":("Further: the active file's counters advance only after the record's write succeeded, the commit-time registration of the transaction id happens only for the marker record after its write and for every committing transaction, and a record's on-disk status is tested only by the recovery guard.", ", field-pairing rule"),
 "C11":("Further: Merge removes a segment only after its rewrite (which syncs through Commit) reported success; recovery resumes writing at the end of the scanned records; no behaviour (such as skipping a sync) hangs on DB.isMerging, which outlives a successful merge.", ""),
 "C12":("Further: counters advance and the transaction id is registered only after the write succeeded; recovery believes only ids with a marker and only after scanning all segments; nothing is conditional on DB.isMerging.", ""),
 "C15":("Further: the commit-time registration that Merge's filter relies on cannot be skipped or happen early; no behaviour hangs on DB.isMerging (never cleared on success).", ""),
 "C16":("Further: the commit marker rule and the committed-id registration rules (a rewrite is atomic and its records are believed), and nothing conditional on DB.isMerging.", ""),
 "C17":("Further: no package-level mutable storage is reachable from the (unlocked) merge scan and the read paths; nothing is conditional on DB.isMerging.", ""),
 "C18":("Further: writers take the exclusive lock regardless of DB.isMerging, and the bucket-meta/root-index/entry codecs are symmetric (the copy decodes).", ", lock-mapping rule, codec symmetry"),
 "C19":("Further: a record's on-disk status is never used as a read filter (only the last record of a transaction carries it), tombstones widen the sparse key bounds, DataFile.fileID is read only where assigned.", ""),
 "C20":("Further: accesses at (length - k) are dominated by length >= k.", ", linear-form lower-bound guards"),
 "C22":("Further (the RAM-mode switch clause): key-only reads never filter on the on-disk status and never tell segments apart by an unassigned DataFile.fileID.", ", field-use rules"),
}
def apply(k, txt, tech):
    t=T[k]
    marker=txt[:40]
    if marker not in t["text"]:
        core="The behaviour itself (quantified over runtime values"
        if core in t["text"]:
            i=t["text"].index(core)
            t["text"]=t["text"][:i]+txt+" "+t["text"][i:]
        else:
            t["text"]+=" "+txt
    if tech and tech not in t["technique"]:
        t["technique"]+=tech
for k,(txt,tech) in ADD2.items():
    apply(k,txt,tech)
ADD3={
 "C01":("Round 3: the merge rewrite re-emits every stored field unchanged; writeOff/ActualSize move and are restored together; nothing hangs on DB.isMerging or on a flag derived from it.", ""),
 "C02":("Round 3: the bucket-meta and root-index codecs are symmetric (offsets, sizes, checksum range).", ", codec symmetry"),
 "C03":("Round 3: segments are replayed in ascending id order; the merge rewrite keeps the stored timestamp (TTL is not restarted).", ""),
 "C04":("Round 3: only the all-zero header means end of data (an empty bucket name is a legal record); every log site lies on every success path.", ""),
 "C05":("Round 3: no API edits pending or committed list state directly; a failed commit leaves no list operation applied; the commit marker is only on the last record; every committed record is applied (no side-table skipping); merge keeps log order; opening a segment only grows it.", ""),
 "C06":("Round 3: a failed commit leaves no set operation applied; commit marker only on the last record; every committed record is applied.", ""),
 "C07":("Round 3: a failed commit leaves no sorted-set operation applied; every committed record is applied (re-added members are not skipped); the merge rewrite set is only appended to.", ""),
 "C08":("Round 3: RWManager.ReadAt implementations agree on short reads; only the all-zero header ends a scan; opening a segment only grows it; every committed record is applied on reopen.", ""),
 "C09":("Round 3: only the all-zero header ends a scan; Truncate only grows; a fit test in the decoder may reject only a record that does not fit (strict); the byte count of a read is never turned into a non-EOF error; the rebuild parses every listed segment; every successful RWManager construction has sized the file.", ""),
 "C10":("Round 3: the rebuild parses every listed segment unless none is listed; counters of the active file are touched only after a successful record write (also inside DataFile.WriteAt).", ""),
 "C11":("Round 3: the rebuild parses every listed segment unless none is listed.", ""),
 "C13":("Round 3: every committed record is applied in call order (no skipping of 'superseded' records).", ""),
 "C15":("Round 3: the rewrite re-emits every stored field unchanged and keeps log order; the key-exists path of BPTree.Insert always replaces hint and entry together.", ""),
 "C16":("Round 3: every successful RWManager construction has sized the file (a 0-byte output segment left by a crash is grown again); the open-time applier does not turn an error the commit-time applier ignores into a failure (both copies of a record exist in the crash window).", ""),
 "C17":("Round 3: read paths (which Merge's unlocked scan shares) write no shared state.", ""),
 "C18":("Round 3: RWManager.Sync reaches a real sync and read paths modify no file (no user-space write buffering that a hot copy would miss).", ""),
 "C19":("Round 3: short reads, fit tests, Truncate and constructor sizing agree between FileIO and MMap.", ""),
 "C20":("Round 3: no package-level mutable cache is reachable from the API.", ""),
 "C21":("Round 3: no package-level buffer or pool holds encoded records between calls; writeOff/ActualSize are restored together (no record written across the end of a mapping).", ""),
 "C22":("Round 3 (RAM-mode switch clause): hints are built where the record is written; the key-exists path of Insert replaces hint and entry together; nothing hangs on DB.isMerging.", ""),
}
for k,(txt,tech) in ADD3.items():
    apply(k,txt,tech)
ADD4={
 "C01":("Rounds 4-5: both RWManager.ReadAt implementations return every byte of a read that lies inside the region (evaluated on a grid of small sizes); pending writes are only appended (never replaced in place); replay applies every committed record whatever the clock says (an expired record still supersedes older ones).", ", SSA evaluation of ReadAt on a finite grid"),
 "C02":("Rounds 4-5: the segment-selection predicates select every segment that can hold a match (all orderings of a 7-string universe); a dead record found by Get ends the lookup; Hint.key agrees between commit and replay or is never read; the per-segment collectors of sparse scans hand tombstones on to the newest-wins merge.", ", enumeration of orderings"),
 "C03":("Rounds 4-5: every KV write API logs on every success path (a Delete of a key written in the same transaction is not dropped); the per-segment collectors hand tombstones on to the newest-wins merge; replay does not depend on the clock.", ""),
 "C04":("Rounds 4-5: identity of a record involves bucket, key and data-structure code; Merge consults the key/value index only for key/value records (K29, repaired).", ""),
 "C05":("Rounds 4-5: slice starts computed from integer arguments are known >= 0 (K27, repaired); integer arguments are negated only under a lower bound, also when the negation sits in ds/list (K28, repaired); replay and commit agree on which ds errors are ignored; Merge consults the key/value index only for key/value records (K29).", ", lower-bound guard domination"),
 "C06":("Rounds 4-5: a membership predicate of ds/set answers 'no' only after a lookup missed; two-bucket operations address each looked-up set with the key of the same position; replay and commit agree on ignored ds errors; Merge consults the key/value index only for key/value records (K29).", ", negative-answer guard domination"),
 "C07":("Rounds 4-5: a node handed out by ds/zset that may be absent (tail of an empty skiplist, failed dictionary lookup) is dereferenced in the API layer only behind a nil test; replay and commit agree on ignored ds errors; Merge consults the key/value index only for key/value records (K29).", ", may-nil result summaries"),
 "C08":("Rounds 4-5: BPTree.Insert cannot fail (Open would fail where Commit ignored it); Hint.key agrees between commit and replay; Close removes, resizes and creates no file; an existing segment that is made the active file gets its write offset restored.", ""),
 "C09":("Rounds 4-5: ReadAt grid specification (K26, repaired); BPTree.Insert cannot fail; segments are listed in ascending numeric order; Close leaves the directory as written; installing an existing segment as the active file restores its write offset.", ""),
 "C10":("Rounds 4-5: on the commit path the counters of an existing data file only move forward (no rewind after a failed commit); both RWManager constructors size the file on every successful open (a 0-byte segment left by a crash is grown again); installing an existing segment restores its write offset.", ""),
 "C11":("Rounds 4-5: recovery believes only transactions with a marked record and judges records after all segments were scanned (shared with C10).", ""),
 "C13":("Rounds 4-5: commit-time and open-time appliers agree operation by operation (no batching that reorders adds and removes); pending writes are only appended.", ""),
 "C14":("Rounds 4-5: every direct acquisition of the database lock outside the transaction functions is released on every path to a return.", ", must-pass-through on lock pairs"),
 "C15":("Rounds 4-5: DB.committedTxIds only grows; Merge consults the key/value index only for key/value records (K29, repaired); installing an existing segment as the active file restores its write offset.", ""),
 "C16":("Rounds 4-5: DB.committedTxIds only grows; the lookup Merge uses to recognise superseded records contains no tombstone/expiry test.", ""),
 "C17":("Rounds 4-5: DB.committedTxIds only grows while the database is open; a lock taken directly by Merge is released on every exit.", ""),
 "C19":("Rounds 4-5: replay does not depend on the clock (both RAM modes show the same contents after a reopen); sparse collectors keep tombstones for the newest-wins merge.", ""),
 "C20":("Rounds 4-5: constant elements of slice parameters are addressed under a length guard; slice starts from integer arguments are >= 0 (K27); negations of integer arguments have a lower bound (K28); possibly absent ds nodes are nil-tested before use; a map field of DB that Open drops in sparse mode is stored into only where that mode is excluded; directly taken locks are released on every exit.", ", nil-map store rule"),
 "C21":("Rounds 4-5: ReadAt grid specification; a fit test in the decoder (also one returned as a bool by a helper, over the header's size fields) accepts a record that ends exactly at the capacity.", ""),
 "C22":("Rounds 4-5: Close removes, resizes and creates no file (the next Open classifies the directory by the files it finds); replay does not depend on the clock.", ""),
}
for k,(txt,tech) in ADD4.items():
    apply(k,txt,tech)
ADD5={
 "C15":("Also (K30, repaired): Merge never unlinks the segment that is still the active file (every removal in the per-segment loop sits behind a comparison with DB.ActiveFile.fileID).", ""),
 "C10":("Also (K30, repaired): Merge never unlinks the segment that is still the active file, so commits made after a Merge are not appended to an unlinked file.", ""),
 "C11":("Also (K30, repaired): Merge never unlinks the segment that is still the active file.", ""),
}
for k,(txt,tech) in ADD5.items():
    apply(k,txt,tech)
for k,(txt,tech) in ADD.items():
    t=T[k]
    marker=txt[:40]
    if marker not in t["text"]:
        core="The behaviour itself (quantified over runtime values"
        if core in t["text"]:
            i=t["text"].index(core)
            t["text"]=t["text"][:i]+txt+" "+t["text"][i:]
        else:
            t["text"]+=" "+txt
    if tech and tech not in t["technique"]:
        t["technique"]+=tech
json.dump(T,open(p,'w'),indent=1)
print("ok")
