#!/usr/bin/env python3
"""Re-validates every kept seeded change against the CURRENT /repo HEAD: the patch applies (patch -p1), the tree builds, the
existing suite passes with it, the demonstration fails with it and passes without it. Updates meta.json["recheck"]."""
import json, os, re, shutil, subprocess, sys, tempfile, glob
ENV = dict(os.environ, GOFLAGS="-mod=mod", GOPROXY="off", GOSUMDB="off", GOTOOLCHAIN="local"); ENV.pop("GOWORK", None)
here = os.path.dirname(os.path.abspath(__file__))
head = subprocess.check_output(["git", "-C", "/repo", "rev-parse", "--short", "HEAD"], text=True).strip()
from shlex import quote as shq
os.makedirs("/var/tmp/nutsseed", exist_ok=True)
PRIV = tempfile.mkdtemp(prefix="nutspriv.", dir="/var/tmp/nutsseed")
def sh(cmd, cwd=None, timeout=900):
    # the repository's tests use fixed /tmp/nutsdb* directories: run every command in a mount namespace with a private /tmp
    if not cmd.startswith("patch "):
        cmd = "unshare -m sh -c %s" % shq("mount --bind %s /tmp && cd %s && %s" % (PRIV, cwd or ".", cmd))
    try:
        p = subprocess.run(cmd, shell=True, cwd=cwd, env=ENV, capture_output=True, text=True, timeout=timeout)
        return p.returncode, p.stdout + p.stderr
    except subprocess.TimeoutExpired:
        return 124, "TIMEOUT"
def fresh():
    d = tempfile.mkdtemp(prefix="nutsre.", dir="/var/tmp/nutsseed")
    subprocess.run("git -C /repo archive HEAD | tar -x -C %s" % d, shell=True, check=True)
    return d
def demo(tree, src, race):
    m = re.search(r"^package\s+(\w+)", open(src).read(), re.M)
    sub = {"list": "ds/list", "set": "ds/set", "zset": "ds/zset"}.get(m.group(1) if m else "", ".")
    dst = os.path.join(tree, sub, "zz_seed_demo_test.go"); shutil.copy(src, dst)
    names = re.findall(r"^func (Test\w+)\(", open(src).read(), re.M)
    rc, out = sh("go test -vet=off -count=1 -timeout 300s %s -run '^(%s)$' ./%s" % ("-race" if race else "", "|".join(names), sub), cwd=tree)
    os.remove(dst)
    return rc, out
sids = sys.argv[1:] or sorted(os.path.basename(os.path.dirname(p)) for p in glob.glob(here + "/seeded/*/patch.diff"))
bad = 0
for sid in sids:
    d = "%s/seeded/%s" % (here, sid)
    meta = json.load(open(d + "/meta.json"))
    demos = glob.glob(d + "/demo_*.go")
    race = False
    if os.path.exists(d + "/agent.json"):
        try: race = bool(json.load(open(d + "/agent.json")).get("race"))
        except Exception: pass
    if any("(-race)" in w for w in meta.get("what_i_ran", [])): race = True
    A, B = fresh(), fresh()
    r = {"repo_head": head}
    try:
        rc, o = sh("patch -p1 -s --no-backup-if-mismatch < %s/patch.diff" % d, cwd=A); r["applies"] = rc == 0
        if rc == 0:
            rc, o = sh("go build ./... && go test -vet=off -count=1 -run '^$' ./...", cwd=A); r["builds"] = rc == 0
        if r.get("builds"):
            rc, o = sh("go test -vet=off -count=1 -timeout 300s ./...", cwd=A)
            if rc != 0: rc, o = sh("go test -vet=off -count=1 -timeout 300s ./...", cwd=A)
            r["suite_passes_with_change"] = rc == 0
            rcA, oA = demo(A, demos[0], race); rcB, oB = demo(B, demos[0], race)
            if rcB != 0: rcB, oB = demo(B, demos[0], race)
            r["demo_fails_with_change"] = rcA != 0; r["demo_passes_without_change"] = rcB == 0
        ok = all(r.get(k) for k in ("applies", "builds", "suite_passes_with_change", "demo_fails_with_change", "demo_passes_without_change"))
        r["valid"] = ok
        meta["recheck"] = r
        json.dump(meta, open(d + "/meta.json", "w"), indent=1)
        print(sid, "OK" if ok else "INVALID %s" % r, flush=True)
        bad += not ok
    finally:
        shutil.rmtree(A, ignore_errors=True); shutil.rmtree(B, ignore_errors=True)
print("rechecked=%d invalid=%d head=%s" % (len(sids), bad, head))
