#!/usr/bin/env python3
"""Regenerates /verif/MANIFEST.json from `bin/nutslint -list` (claimed properties) and the tables below."""
import json, subprocess, os
here = os.path.dirname(os.path.abspath(__file__))
claimed = {}
for line in subprocess.check_output([os.path.join(here, "bin/nutslint"), "-list"], text=True).splitlines():
    pid, rules = line.split(":", 1)
    claimed[pid.strip()] = rules.split()

TEXT = json.load(open(os.path.join(here, "manifest_texts.json")))

checks = []
na = []
for i in range(1, 23):
    pid = "C%02d" % i
    t = TEXT.get(pid, {})
    if pid in claimed:
        checks.append({
            "property_id": pid,
            "quick_cmd": "bin/nutslint -property %s -tier quick" % pid,
            "thorough_cmd": "bin/nutslint -property %s -tier thorough" % pid,
            "evidence_file": "/verif/evidence/%s.json" % pid,
            "replay_cmd_template": "bin/nutslint -replay {path}",
            "engine": "nutslint",
            "level_claimed": {
                "category": "other",
                "text": t.get("text", "structural necessary conditions of the property decided on every path / call site of the current source"),
                "design_ref": "DESIGN.md section 3, " + pid,
            },
            "level_note": t.get("note", "trusted: go/types, go/ssa, CHA/VTA call graph (x/tools v0.29.0), the checker's library effect tables; typestate assumption: a Tx is used by one goroutine while open"),
            "technique": t.get("technique", "static analysis: " + ", ".join(claimed[pid])),
        })
    else:
        na.append({"property_id": pid, "reason": t.get("na", "check not built yet (DESIGN.md section 9 build order)")})

m = {
    "version": 1,
    "setup_cmd": "GOFLAGS=-mod=vendor GOPROXY=off GOSUMDB=off GOTOOLCHAIN=local GOWORK=off go build -o bin/nutslint ./cmd/nutslint",
    "hooks": {
        "guard": "verif",
        "enable": "none needed: static analysis reads the unmodified source of /repo (no hook commits)",
        "baseline_off_cmd": "cd /repo && GOFLAGS=-mod=mod GOPROXY=off GOSUMDB=off go test -vet=off -count=1 ./...",
        "source_commits": [],
        "add_only": True,
    },
    "engines": [{
        "name": "nutslint",
        "path": "cmd/nutslint",
        "serves_properties": sorted(claimed),
        "kind_free_text": "repository-specific static analyser over go/packages + go/ssa + call graph: path-order rules, guard domination, effect summaries, codec symmetry, sibling agreement, truth-table enumeration of pure predicates",
    }],
    "checks": checks,
    "not_applicable": na,
    "notes": "Every check is static analysis of /repo's current source (no execution of nutsdb). Exit 0: all obligations discharged or matched by known_findings.json (KNOWN-FINDING lines); exit 1 + VIOLATION: an unlisted violated obligation; exit 2: undecided (anchor moved / engine cannot classify).",
}
json.dump(m, open(os.path.join(here, "MANIFEST.json"), "w"), indent=1)
print("claimed:", sorted(claimed), "n/a:", [x["property_id"] for x in na])
